"""pyvc: forward symbolic executor over the Python AST of the real functions.

Path exploration is by re-execution with a decision prefix (no state cloning): every
symbolic branch consults the decision list of the current run; a new two-way feasible
branch queues the alternative prefix.  Loops with a contract-supplied invariant are cut
(establish / havoc / assume / body / re-establish); loops over concrete iterables unroll.
Calls to functions that have a *modular* contract use the contract, never the body.
"""
from __future__ import annotations

import ast
import itertools
from dataclasses import dataclass, field
from fractions import Fraction

import z3

from . import ops, source
from .values import (SArr, SBound, SCell, SClassRef, SDtype, SExc, SExternal, SFunc, SInf, SKw, SMaybeNaN,
                     SModule, SNative, SObj, SOpaque, SRec, SSeq, SShape, Undecided, const_of, is_concrete_num,
                     is_int_valued, is_num, is_z3, to_real, to_z3)


class PathEnd(Exception):
    """The current path ends here (cut loop body finished, infeasible, failed hard obligation)."""


class Truncated(PathEnd):
    """the path was cut at a loop marked `truncate` (nothing beyond it is verified)"""


class SymReturn(Exception):
    def __init__(self, value):
        self.value = value


class SymRaise(Exception):
    def __init__(self, exc: SExc, node=None):
        self.exc = exc
        self.node = node


class SymBreak(Exception):
    pass


class SymContinue(Exception):
    pass


_ASSIGNED_CACHE: dict = {}


def _function_locals(fnode):
    """names bound by assignment statements / loop targets / with-as / except-as / walrus inside this function (not in nested functions)"""
    k = id(fnode)
    if k not in _ASSIGNED_CACHE:
        out = set()
        stack = list(ast.iter_child_nodes(fnode))
        while stack:
            n = stack.pop()
            if isinstance(n, (ast.FunctionDef, ast.AsyncFunctionDef, ast.Lambda, ast.ClassDef, ast.ListComp, ast.SetComp, ast.DictComp, ast.GeneratorExp)):
                continue
            if isinstance(n, ast.Name) and isinstance(n.ctx, ast.Store):
                out.add(n.id)
            elif isinstance(n, ast.ExceptHandler) and n.name:
                out.add(n.name)
            stack.extend(ast.iter_child_nodes(n))
        if isinstance(fnode, (ast.FunctionDef, ast.AsyncFunctionDef)):
            for a in fnode.args.args + fnode.args.kwonlyargs + fnode.args.posonlyargs:
                out.discard(a.arg)
        _ASSIGNED_CACHE[k] = out
    return _ASSIGNED_CACHE[k]


BUILTIN_EXC_BASES = {
    "BaseException": None, "Exception": "BaseException", "ArithmeticError": "Exception",
    "ZeroDivisionError": "ArithmeticError", "LookupError": "Exception", "IndexError": "LookupError",
    "KeyError": "LookupError", "ValueError": "Exception", "TypeError": "Exception",
    "RuntimeError": "Exception", "NotImplementedError": "RuntimeError", "AttributeError": "Exception", "NameError": "Exception", "UnboundLocalError": "NameError",
    "StopIteration": "Exception", "AssertionError": "Exception", "ImportError": "Exception",
    "DimensionError": "ValueError", "_SpanningDropletSignal": "RuntimeError", "OverflowError": "ArithmeticError",
    "FloatingPointError": "ArithmeticError",
}


def exc_is_subclass(name, base):
    while name is not None:
        if name == base:
            return True
        name = BUILTIN_EXC_BASES.get(name)
    return False


# dependency functions that are extracted and verified like repo functions (not assumed)
ANALYSED_DEPENDENCY_FUNCTIONS = {"pde.grids.spherical.volume_from_radius"}


class SExcClass:
    def __init__(self, name):
        self.name = name

    def __repr__(self):
        return f"ExcClass({self.name})"


@dataclass
class Obligation:
    name: str
    kind: str                  # implicit | requires | ensures | invariant | raises | lemma | vacuity
    assumptions: list
    goal: object
    func: str = ""
    line: int = 0
    path: tuple = ()
    inputs: dict = field(default_factory=dict)   # name -> z3 term, for model extraction
    meta: dict = field(default_factory=dict)

    def ident(self):
        return f"{self.func}::{self.kind}::{self.name}@L{self.line}"


class Frame:
    def __init__(self, info, locals_, closure=None, modinfo=None, self_cls=None):
        self.info = info
        self.locals = locals_
        self.closure = closure
        self.modinfo = modinfo
        self.self_cls = self_cls   # class in which the running method was *defined* (for super())


class Run:
    """State of one path."""

    PathEnd = PathEnd

    def __init__(self, engine, decisions):
        self.engine = engine
        self.decisions = list(decisions)
        self.pos = 0
        self.pending = []
        self.pc = []            # path condition (assumed)
        self.defs = []          # definitional facts (uninterpreted function instances)
        self.obligations = []
        self.counter = itertools.count()
        self.memo = {}
        self.ghost = {}
        self.inputs = {}
        self.cur_func = ""
        self.cur_line = 0
        self.facts_used = set()
        self.trusted = set()
        self.covers = []
        self.depth = 0

    # -- symbols
    def fresh_real(self, p="r"):
        return z3.Real(f"{p}!{next(self.counter)}")

    def fresh_int(self, p="i"):
        return z3.Int(f"{p}!{next(self.counter)}")

    def fresh_bool(self, p="b"):
        return z3.Bool(f"{p}!{next(self.counter)}")

    def input_real(self, name):
        t = z3.Real(name)
        self.inputs[name] = t
        return t

    def input_int(self, name):
        t = z3.Int(name)
        self.inputs[name] = t
        return t

    def input_bool(self, name):
        t = z3.Bool(name)
        self.inputs[name] = t
        return t

    # -- logical state
    def assume(self, b):
        if isinstance(b, bool):
            if not b:
                raise PathEnd()
            return
        self.pc.append(b)

    def define(self, b, why=""):
        self.defs.append(b)
        if why:
            self.facts_used.add(why)

    def trust(self, what):
        self.trusted.add(what)

    def assumptions(self):
        return list(self.engine.global_facts) + list(self.defs) + list(self.pc)

    def oblige(self, name, goal, kind="implicit", meta=None, assume_after=True):
        if isinstance(goal, bool):
            goal = z3.BoolVal(goal)
        g = z3.simplify(goal)
        if z3.is_true(g):
            self.engine.trivial += 1
            return
        ob = Obligation(name, kind, self.assumptions(), goal, self.cur_func, self.cur_line,
                        tuple(self.decisions[: self.pos]), dict(self.inputs), meta or {})
        ob.core = list(self.engine.global_facts) + list(self.defs)     # facts that do not depend on the path
        self.obligations.append(ob)
        if assume_after:
            if z3.is_false(g):
                raise PathEnd()
            self.pc.append(goal)

    def cover(self, name):
        """Reachability marker (non-vacuity): the current path condition must be satisfiable."""
        self.covers.append((name, self.assumptions(), self.cur_func, self.cur_line))

    def feasible(self, extra):
        s = z3.Solver()
        s.set("timeout", self.engine.branch_timeout_ms)
        for a in self.assumptions():
            s.add(a)
        s.add(extra)
        r = s.check()
        return r != z3.unsat

    def branch(self, cond):
        """Decide a (possibly symbolic) condition; fork by re-execution."""
        if isinstance(cond, bool):
            return cond
        c = z3.simplify(cond)
        if z3.is_true(c):
            return True
        if z3.is_false(c):
            return False
        if self.pos < len(self.decisions):
            d = self.decisions[self.pos]
        else:
            ft = self.feasible(c)
            ff = self.feasible(z3.Not(c))
            if ft and ff:
                d = True
                self.pending.append(self.decisions[: self.pos] + [False])
            elif ft:
                d = True
            elif ff:
                d = False
            else:
                raise PathEnd()
            self.decisions.append(d)
        self.pos += 1
        self.pc.append(c if d else z3.Not(c))
        return d

    def choose(self, n, label=""):
        """Non-deterministic choice among n alternatives (explored by re-execution)."""
        k = 0
        while k < n - 1:
            b = self.fresh_bool(f"choice_{label}")
            if self.branch(b):
                return k
            k += 1
        return n - 1


class Engine:
    def __init__(self, modular=None, inline_all=True, branch_timeout_ms=3000):
        self.modular = modular or {}     # key -> Contract (used at call sites)
        self.global_facts = list(ops.PI_FACTS())
        self.branch_timeout_ms = branch_timeout_ms
        self.trivial = 0
        self.max_paths = 400
        self.loop_specs = {}             # (func key, ordinal) -> LoopSpec
        self.externals = {}
        from . import models
        models.install(self)

    # ------------------------------------------------------------------
    def explore(self, body_fn, max_paths=None):
        """Run `body_fn(run)` along every path.  Returns list of (run, outcome)."""
        results = []
        work = [[]]
        n = 0
        while work:
            prefix = work.pop()
            run = Run(self, prefix)
            n += 1
            if n > (max_paths or self.max_paths):
                raise Undecided(f"more than {max_paths or self.max_paths} paths")
            try:
                outcome = body_fn(run)
            except PathEnd:
                outcome = ("end", None)
            except SymRaise as e:
                outcome = ("raise", e.exc)
            except Undecided as e:
                # the path cannot be continued; what was obliged before stays obliged
                outcome = ("undecided", str(e))
            work.extend(run.pending)
            results.append((run, outcome))
        return results

    # ------------------------------------------------------------------
    def call_function(self, run, fi, args, kwargs, closure=None, self_cls=None):
        """Interpret the body of the analysed function `fi` (returns value or raises SymRaise)."""
        modinfo = source.load_module(fi.module)
        locals_ = self.bind_args(run, fi, args, kwargs, closure, modinfo)
        fr = Frame(fi, locals_, closure, modinfo, self_cls if self_cls is not None else fi.cls)
        saved = (run.cur_func, run.cur_line)
        run.cur_func = fi.key
        run.depth += 1
        if run.depth > 60:
            raise Undecided("call depth")
        try:
            self.exec_block(run, fi.node.body, fr)
            result = None
        except SymReturn as r:
            result = r.value
        finally:
            run.depth -= 1
            run.cur_func, run.cur_line = saved
        return result

    def bind_args(self, run, fi, args, kwargs, closure, modinfo):
        a = fi.node.args
        params = [p.arg for p in a.posonlyargs + a.args]
        locals_ = {}
        args = list(args)
        kwargs = dict(kwargs)
        defaults = a.defaults
        ndef = len(defaults)
        deffr = Frame(fi.parent, closure.locals if closure else {}, closure.closure if closure else None, modinfo)
        if closure is not None:
            deffr = closure
        else:
            deffr = Frame(None, {}, None, modinfo)
        for i, p in enumerate(params):
            if i < len(args):
                locals_[p] = args[i]
                if p in kwargs:
                    raise SymRaise(SExc("TypeError", (f"multiple values for argument {p}",)))
            elif p in kwargs:
                locals_[p] = kwargs.pop(p)
            else:
                di = i - (len(params) - ndef)
                if di >= 0:
                    locals_[p] = self.ev(run, defaults[di], deffr)
                else:
                    run.oblige(f"call arity: missing argument `{p}` of {fi.qualname}", False, kind="implicit")
                    raise SymRaise(SExc("TypeError", (f"missing argument {p}",)))
        extra = args[len(params):]
        if a.vararg:
            locals_[a.vararg.arg] = tuple(extra)
        elif extra:
            run.oblige(f"call arity: {fi.qualname} takes {len(params)} positional arguments but "
                       f"{len(args)} were given", False, kind="implicit", assume_after=False)
            raise SymRaise(SExc("TypeError", ("too many positional arguments",)))
        for p, d in zip(a.kwonlyargs, a.kw_defaults):
            if p.arg in kwargs:
                locals_[p.arg] = kwargs.pop(p.arg)
            elif d is not None:
                locals_[p.arg] = self.ev(run, d, deffr)
            else:
                run.oblige(f"call arity: missing keyword argument `{p.arg}`", False, kind="implicit")
                raise SymRaise(SExc("TypeError", ("missing kw",)))
        if a.kwarg:
            locals_[a.kwarg.arg] = kwargs
        elif kwargs:
            run.oblige(f"call arity: unexpected keyword argument(s) {sorted(kwargs)} for {fi.qualname}", False,
                       kind="implicit", assume_after=False)
            raise SymRaise(SExc("TypeError", ("unexpected keyword",)))
        return locals_

    # ------------------------------------------------------------------
    # statements
    def exec_block(self, run, stmts, fr):
        for st in stmts:
            self.exec_stmt(run, st, fr)

    def exec_stmt(self, run, st, fr):
        run.cur_line = getattr(st, "lineno", run.cur_line)
        m = getattr(self, "st_" + type(st).__name__, None)
        if m is None:
            raise Undecided(f"statement {type(st).__name__} at {fr.info.key if fr.info else '?'}:{st.lineno}")
        return m(run, st, fr)

    def st_Expr(self, run, st, fr):
        if isinstance(st.value, ast.Constant):
            return   # docstring
        self.ev(run, st.value, fr)

    def st_Pass(self, run, st, fr):
        pass

    def st_Return(self, run, st, fr):
        raise SymReturn(self.ev(run, st.value, fr) if st.value is not None else None)

    def st_Assign(self, run, st, fr):
        v = self.ev(run, st.value, fr)
        for t in st.targets:
            self.assign(run, t, v, fr)

    def st_AnnAssign(self, run, st, fr):
        if st.value is not None:
            self.assign(run, st.target, self.ev(run, st.value, fr), fr)

    def st_AugAssign(self, run, st, fr):
        tgt = st.target
        cur = self.ev(run, _load(tgt), fr)
        rhs = self.ev(run, st.value, fr)
        where = f"L{st.lineno}"
        if isinstance(cur, SCell):
            new = ops.binop(run, st.op, cur, rhs, where)
            cur.v = new.v          # in-place: visible through every alias
            return
        if isinstance(cur, SArr):
            new = ops.binop(run, st.op, cur, rhs, where)
            cur.elems[:] = new.elems
            return
        if isinstance(cur, list) and isinstance(st.op, ast.Add):
            cur.extend(rhs)
            return
        if hasattr(cur, "sym_iop"):
            r = cur.sym_iop(run, st.op, rhs)
            if r is not NotImplemented:
                return
        new = ops.binop(run, st.op, cur, rhs, where)
        self.assign(run, tgt, new, fr)

    def st_If(self, run, st, fr):
        c = self.truth(run, self.ev(run, st.test, fr))
        if run.branch(c):
            self.exec_block(run, st.body, fr)
        else:
            self.exec_block(run, st.orelse, fr)

    def st_Raise(self, run, st, fr):
        if st.exc is None:
            raise Undecided("bare raise")
        try:
            v = self.ev(run, st.exc, fr)
        except Undecided:
            # the message of an exception is irrelevant: `raise Cls(<unmodelled message expression>)` raises Cls
            if isinstance(st.exc, ast.Call):
                v = self.ev(run, st.exc.func, fr)
            else:
                raise
        if isinstance(v, SExcClass):
            v = SExc(v.name, ())
        if isinstance(v, SClassRef) and v.cls.name in BUILTIN_EXC_BASES:
            v = SExc(v.cls.name, ())             # exception class defined in the analysed code (bases listed in BUILTIN_EXC_BASES)
        if isinstance(v, SObj) and v.cls is not None and v.cls.name in BUILTIN_EXC_BASES:
            v = SExc(v.cls.name, ())
        if not isinstance(v, SExc):
            raise Undecided(f"raise of {v!r}")
        raise SymRaise(v, st)

    def st_Assert(self, run, st, fr):
        c = self.truth(run, self.ev(run, st.test, fr))
        if not run.branch(c):
            raise SymRaise(SExc("AssertionError", ()), st)

    def st_FunctionDef(self, run, st, fr):
        info = getattr(st, "_pyvc_info", None)
        if info is None:
            raise Undecided(f"inner function {st.name} not indexed")
        f = SFunc(info, closure=fr)
        fr.locals[st.name] = f

    def st_Import(self, run, st, fr):
        for a in st.names:
            fr.locals[a.asname or a.name.split(".")[0]] = SModule(a.name if a.asname else a.name.split(".")[0])

    def st_ImportFrom(self, run, st, fr):
        mod = fr.modinfo._absmod(st.level, st.module)
        for a in st.names:
            fr.locals[a.asname or a.name] = self.resolve_import(("from", mod, a.name))

    def st_Break(self, run, st, fr):
        raise SymBreak()

    def st_Continue(self, run, st, fr):
        raise SymContinue()

    def st_Delete(self, run, st, fr):
        raise Undecided("del")

    def st_Global(self, run, st, fr):
        raise Undecided("global")

    def st_With(self, run, st, fr):
        for item in st.items:
            ctx = self.ev(run, item.context_expr, fr)
            val = ctx
            if hasattr(ctx, "sym_enter"):
                val = ctx.sym_enter(run)
            if item.optional_vars is not None:
                self.assign(run, item.optional_vars, val, fr)
        self.exec_block(run, st.body, fr)

    def st_Try(self, run, st, fr):
        if st.finalbody:
            raise Undecided("try/finally")
        run.try_depth = getattr(run, "try_depth", 0) + 1
        try:
            try:
                self.exec_block(run, st.body, fr)
            finally:
                run.try_depth -= 1
        except SymRaise as e:
            for h in st.handlers:
                if self.handler_matches(run, h, e.exc, fr):
                    if h.name:
                        fr.locals[h.name] = e.exc
                    self.exec_block(run, h.body, fr)
                    return
            raise
        else:
            self.exec_block(run, st.orelse, fr)

    def handler_matches(self, run, h, exc, fr):
        if h.type is None:
            return True
        t = self.ev(run, h.type, fr)
        def nm(x):
            return x.cls.name if isinstance(x, SClassRef) else x.name
        names = [nm(x) for x in t] if isinstance(t, tuple) else [nm(t)]
        return any(exc_is_subclass(exc.cls_name, n) for n in names)

    # -- loops ----------------------------------------------------------
    def loop_ordinal(self, fr, st):
        fn = fr.info.node
        loops = [n for n in _walk_own(fn) if isinstance(n, (ast.For, ast.While))]
        loops.sort(key=lambda n: (n.lineno, n.col_offset))
        return loops.index(st)

    def st_For(self, run, st, fr):
        it = self.ev(run, st.iter, fr)
        spec = self.loop_specs.get((fr.info.key, self.loop_ordinal(fr, st))) if fr.info else None
        items = self.iterate(run, it)
        if isinstance(items, list):
            if spec is not None and spec.force:
                return self.cut_loop_for(run, st, fr, SSeq(len(items), lambda i, items=items: _pick(run, items, i)), spec)
            # concrete iteration: unroll
            for x in items:
                self.assign(run, st.target, x, fr)
                try:
                    self.exec_block(run, st.body, fr)
                except SymBreak:
                    return
                except SymContinue:
                    continue
            self.exec_block(run, st.orelse, fr)
            return
        if spec is None:
            raise Undecided(f"loop #{self.loop_ordinal(fr, st)} of {fr.info.key} over a symbolic iterable needs an invariant")
        if spec.truncate:
            run.trust(f"TRUNCATED: {fr.info.key} is verified only up to its loop #{self.loop_ordinal(fr, st)} (not beyond)")
            run.cover("truncation point")
            raise Truncated()
        return self.cut_loop_for(run, st, fr, items, spec)

    def cut_loop_for(self, run, st, fr, seq, spec):
        L = to_z3(seq.length)
        name = f"loop#{self.loop_ordinal(fr, st)}"
        env = LoopEnv(self, run, fr)
        spec.init_ghost(run, env)
        for nm, g in spec.invariant(run, env, z3.IntVal(0), seq):
            run.oblige(f"{name} invariant established: {nm}", g, kind="invariant")
        self.havoc(run, st, fr, spec, env)
        i = run.fresh_int("it")
        run.assume(z3.And(i >= 0, i <= L))
        for nm, g in spec.invariant(run, env, i, seq):
            run.assume(g)
        if run.branch(i < L):
            x = seq.at(i)
            self.assign(run, st.target, x, fr)
            spec.before_body(run, env, i, seq)
            try:
                self.exec_block(run, st.body, fr)
            except SymBreak:
                return
            except SymContinue:
                pass
            run.cover(f"{name} body end")
            spec.after_body(run, env, i, seq)
            for nm, g in spec.invariant(run, env, i + 1, seq):
                run.oblige(f"{name} invariant preserved: {nm}", g, kind="invariant")
            raise PathEnd()
        else:
            run.assume(i == L)
            spec.at_exit(run, env, i, seq)
            self.exec_block(run, st.orelse, fr)

    def st_While(self, run, st, fr):
        spec = self.loop_specs.get((fr.info.key, self.loop_ordinal(fr, st))) if fr.info else None
        name = f"loop#{self.loop_ordinal(fr, st)}"
        if spec is None:
            # bounded unrolling is not a proof: refuse
            raise Undecided(f"while loop #{self.loop_ordinal(fr, st)} of {fr.info.key} needs an invariant")
        if spec.truncate:
            run.trust(f"TRUNCATED: {fr.info.key} is verified only up to its loop #{self.loop_ordinal(fr, st)} (not beyond)")
            run.cover("truncation point")
            raise Truncated()
        env = LoopEnv(self, run, fr)
        spec.init_ghost(run, env)
        for nm, g in spec.invariant(run, env, z3.IntVal(0), None):
            run.oblige(f"{name} invariant established: {nm}", g, kind="invariant")
        self.havoc(run, st, fr, spec, env)
        i = run.fresh_int("it")
        run.assume(i >= 0)
        for nm, g in spec.invariant(run, env, i, None):
            run.assume(g)
        v0 = spec.variant(run, env) if spec.has_variant else None
        c = self.truth(run, self.ev(run, st.test, fr))
        if run.branch(c):
            spec.before_body(run, env, i, None)
            try:
                self.exec_block(run, st.body, fr)
            except SymBreak:
                spec.at_exit(run, env, i, None)
                return
            except SymContinue:
                pass
            run.cover(f"{name} body end")
            spec.after_body(run, env, i, None)
            for nm, g in spec.invariant(run, env, i + 1, None):
                run.oblige(f"{name} invariant preserved: {nm}", g, kind="invariant")
            if v0 is not None:
                v1 = spec.variant(run, env)
                run.oblige(f"{name} variant decreases and is bounded", z3.And(v1 < v0, v0 >= 0), kind="invariant")
            raise PathEnd()
        else:
            spec.at_exit(run, env, i, None)
            self.exec_block(run, st.orelse, fr)

    def havoc(self, run, st, fr, spec, env):
        names = sorted(_assigned_names(st))
        for n in names:
            if n in spec.keep:
                continue
            if n in fr.locals:
                fr.locals[n] = self.fresh_like(run, fr.locals[n], n)
        spec.havoc(run, env)

    def fresh_like(self, run, v, name):
        if isinstance(v, bool):
            return run.fresh_bool(name)
        if is_z3(v):
            if z3.is_bool(v):
                return run.fresh_bool(name)
            if z3.is_int(v):
                return run.fresh_int(name)
            return run.fresh_real(name)
        if isinstance(v, int):
            return run.fresh_int(name)
        if isinstance(v, Fraction):
            return run.fresh_real(name)
        if isinstance(v, SCell):
            k = run.fresh_bool(name) if v.kind == "bool" else run.fresh_real(name)
            return SCell(k, v.space, v.kind)
        if isinstance(v, SArr):
            return SArr([self.fresh_like(run, e, name) for e in v.elems], v.ndim, v.kind)
        if isinstance(v, tuple):
            return tuple(self.fresh_like(run, e, name) for e in v)
        if hasattr(v, "sym_havoc"):
            return v.sym_havoc(run, name)
        if v is None or isinstance(v, (str, SObj, SOpaque, SFunc, SNative, SBound, SClassRef)):
            # loop-assigned variable holding an object: the spec must havoc it
            return v
        raise Undecided(f"cannot havoc `{name}` of type {type(v).__name__}")

    # -- iteration ------------------------------------------------------
    def iterate(self, run, it):
        """Return a python list (concrete iteration) or an SSeq (symbolic length)."""
        if isinstance(it, (list, tuple)):
            return list(it)
        if isinstance(it, dict):
            return list(it.keys())
        if isinstance(it, (set, frozenset)):
            return sorted(it, key=repr)
        if isinstance(it, range):
            return list(it)
        if isinstance(it, SArr):
            return list(it.elems)
        if isinstance(it, SSeq):
            c = const_of(it.length)
            if c is not None and c <= 8:
                return [it.at(k) for k in range(int(c))]
            return it
        if isinstance(it, str):
            return list(it)
        if hasattr(it, "sym_iter"):
            return it.sym_iter(run)
        raise Undecided(f"iteration over {type(it).__name__}")

    # ------------------------------------------------------------------
    # assignment
    def assign(self, run, tgt, v, fr):
        if isinstance(tgt, ast.Name):
            fr.locals[tgt.id] = v
        elif isinstance(tgt, (ast.Tuple, ast.List)):
            elts = tgt.elts
            star = [i for i, e in enumerate(elts) if isinstance(e, ast.Starred)]
            vals = self.iterate(run, v) if not isinstance(v, (tuple, list)) else list(v)
            if not isinstance(vals, list):
                raise Undecided("unpacking a symbolic-length sequence")
            if star:
                k = star[0]
                after = len(elts) - k - 1
                if len(vals) < len(elts) - 1:
                    run.oblige("tuple-unpack arity", False, kind="implicit")
                    raise SymRaise(SExc("ValueError", ("not enough values to unpack",)))
                for e, x in zip(elts[:k], vals[:k]):
                    self.assign(run, e, x, fr)
                self.assign(run, elts[k].value, list(vals[k: len(vals) - after]), fr)
                for e, x in zip(elts[k + 1:], vals[len(vals) - after:]):
                    self.assign(run, e, x, fr)
            else:
                if len(vals) != len(elts):
                    run.oblige(f"tuple-unpack arity ({len(elts)} targets, {len(vals)} values)", False, kind="implicit")
                    raise SymRaise(SExc("ValueError", ("unpack",)))
                for e, x in zip(elts, vals):
                    self.assign(run, e, x, fr)
        elif isinstance(tgt, ast.Attribute):
            obj = self.ev(run, tgt.value, fr)
            self.setattr(run, obj, tgt.attr, v)
        elif isinstance(tgt, ast.Subscript):
            obj = self.ev(run, tgt.value, fr)
            idx = self.ev_index(run, tgt.slice, fr)
            self.setitem(run, obj, idx, v)
        else:
            raise Undecided(f"assignment target {type(tgt).__name__}")

    def setattr(self, run, obj, attr, v):
        if isinstance(obj, SObj):
            st = obj.cls.lookup_setter(attr)
            if st is not None:
                self.invoke(run, SBound(obj, SFunc(st)), [v], {})
                return
            if obj.cls.lookup(attr) is not None and obj.cls.lookup(attr).kind == "getter":
                raise SymRaise(SExc("AttributeError", (f"can't set attribute {attr}",)))
            obj.fields[attr] = v
            return
        if isinstance(obj, SRec):
            self.rec_set(run, obj, attr, v)
            return
        if hasattr(obj, "sym_setattr"):
            return obj.sym_setattr(run, attr, v)
        raise Undecided(f"attribute store .{attr} on {type(obj).__name__}")

    def rec_set(self, run, rec, k, v):
        cur = rec.get(k)
        if isinstance(cur, SArr):
            # assigning into an array field copies element values (broadcast)
            if isinstance(v, SArr):
                if len(v) != len(cur):
                    run.oblige(f"record field `{k}`: shape mismatch", False, kind="implicit")
                    raise SymRaise(SExc("ValueError", ("shape",)))
                cur.elems[:] = list(v.elems)
            elif isinstance(v, (list, tuple)):
                cur.elems[:] = list(v)
            else:
                cur.elems[:] = [v] * len(cur)
        else:
            if isinstance(v, SArr) and len(v) == 1:
                v = v.elems[0]
            rec.set(k, v)

    def setitem(self, run, obj, idx, v):
        if isinstance(obj, SRec):
            return self.rec_set(run, obj, idx, v)
        if isinstance(obj, SArr):
            if idx is Ellipsis or (isinstance(idx, slice) and idx == slice(None)):
                if isinstance(v, SArr):
                    obj.elems[:] = list(v.elems)
                else:
                    obj.elems[:] = [v] * len(obj)
                return
            c = const_of(idx) if is_num(idx) else None
            if c is not None:
                n = len(obj)
                if not (-n <= c < n):
                    run.oblige("index in range", False, kind="implicit")
                    raise SymRaise(SExc("IndexError", ()))
                obj.elems[int(c)] = v
                return
            if isinstance(idx, slice):
                obj.elems[idx] = v.elems if isinstance(v, SArr) else [v] * len(obj.elems[idx])
                return
            if is_z3(idx) and z3.is_int(idx):
                n = len(obj)
                run.oblige("index in range", z3.And(idx >= -n, idx < n), kind="implicit")
                for k in range(n):
                    obj.elems[k] = _ite(z3.Or(idx == k, idx == k - n), v, obj.elems[k])
                return
        if isinstance(obj, list):
            c = const_of(idx) if is_num(idx) else None
            if c is not None:
                obj[int(c)] = v
                return
        if isinstance(obj, dict):
            obj[idx] = v
            return
        if hasattr(obj, "sym_setitem"):
            return obj.sym_setitem(run, idx, v)
        raise Undecided(f"subscript store on {type(obj).__name__} with index {idx!r}")

    # ------------------------------------------------------------------
    # expressions
    def ev(self, run, node, fr):
        m = getattr(self, "ex_" + type(node).__name__, None)
        if m is None:
            raise Undecided(f"expression {type(node).__name__} at line {getattr(node, 'lineno', '?')}")
        return m(run, node, fr)

    def truth(self, run, v):
        return ops.truth_term(run, v)

    def ex_Constant(self, run, node, fr):
        v = node.value
        if isinstance(v, float):
            return Fraction(repr(v))
        if isinstance(v, complex):
            raise Undecided("complex constant")
        return v

    def ex_Name(self, run, node, fr):
        return self.lookup(run, node.id, fr, source_read=True)

    def lookup(self, run, name, fr, source_read=False):
        f = fr
        while f is not None:
            if name in f.locals:
                return f.locals[name]
            f = f.closure
        # a name that the function assigns somewhere is a LOCAL of that function: reading it IN THE SOURCE (ex_Name; not the look-ups that loop
        # specifications make through LoopEnv) on a path that has not bound it raises UnboundLocalError in CPython - it never falls through to
        # globals / builtins
        node = getattr(getattr(fr, "info", None), "node", None)
        if source_read and node is not None and name in _function_locals(node):
            run.oblige(f"local variable `{name}` is assigned on every path before it is read (UnboundLocalError otherwise)", False, kind="implicit",
                       assume_after=False)
            raise SymRaise(SExc("UnboundLocalError", (name,)))
        return self.lookup_global(run, name, fr.modinfo)

    def lookup_global(self, run, name, modinfo):
        if modinfo is not None:
            if name in modinfo.functions and "." not in name:
                return SFunc(modinfo.functions[name])
            if name in modinfo.classes:
                return SClassRef(modinfo.classes[name])
            if name in modinfo.imports:
                return self.resolve_import(modinfo.imports[name])
            if name == "_logger":
                return SOpaque("logger")
            if name in modinfo.globals_const:
                key = ("glob", modinfo.name, name)
                if key in self.externals:
                    return self.externals[key]
                return self.ev(run, modinfo.globals_const[name], Frame(None, {}, None, modinfo))
        if name in self.builtins:
            return self.builtins[name]
        if name in BUILTIN_EXC_BASES:
            return SExcClass(name)
        raise Undecided(f"unknown name `{name}`")

    def resolve_import(self, imp):
        if imp[0] == "module":
            return SModule(imp[1])
        _, mod, attr = imp
        if mod == "droplets" or mod.startswith("droplets."):
            # could be a submodule or an attribute
            try:
                mi = source.load_module(mod)
            except FileNotFoundError:
                mi = None
            if mi is not None:
                if attr in mi.functions:
                    return SFunc(mi.functions[attr])
                if attr in mi.classes:
                    return SClassRef(mi.classes[attr])
                if attr in mi.imports:
                    return self.resolve_import(mi.imports[attr])
                if attr in mi.globals_const:
                    return self.lookup_global(None, attr, mi)
            try:
                source.load_module(mod + "." + attr)
                return SModule(mod + "." + attr)
            except FileNotFoundError:
                pass
            raise Undecided(f"cannot resolve import {mod}.{attr}")
        full = f"{mod}.{attr}"
        if attr in BUILTIN_EXC_BASES:
            return SExcClass(attr)
        if full in ANALYSED_DEPENDENCY_FUNCTIONS:
            return SFunc(source.get_function(f"{mod}:{attr}"))
        from . import models
        v = models.external_attr_value(full)
        if v is not None:
            return v
        return SExternal(full)

    def ex_Attribute(self, run, node, fr):
        obj = self.ev(run, node.value, fr)
        return self.getattr(run, obj, node.attr, fr)

    def getattr(self, run, obj, attr, fr=None):
        if isinstance(obj, SModule):
            if obj.name == "droplets" or obj.name.startswith("droplets."):
                mi = source.load_module(obj.name)
                return self.lookup_global(run, attr, mi)
            return self.external_attr(obj.name, attr)
        if isinstance(obj, SExternal):
            return self.external_attr(obj.name, attr)
        if isinstance(obj, SObj):
            if attr in obj.fields:
                return obj.fields[attr]
            if attr == "__class__" and obj.cls is not None:
                return SClassRef(obj.cls)
            la = obj.cls.lookup_attr(attr) if obj.cls is not None else None
            if la is not None and la[0] == "method":
                m = la[1]
                if m.kind == "getter":
                    return self.invoke(run, SBound(obj, SFunc(m)), [], {})
                if m.kind == "staticmethod":
                    return SFunc(m)
                if m.kind == "classmethod":
                    return SBound(SClassRef(obj.cls), SFunc(m))
                return SBound(obj, SFunc(m))
            if la is not None and la[0] == "const":
                return self.ev(run, la[1], Frame(None, {}, None, la[2].modinfo))
            nat = self.native_attr(run, obj, attr)
            if nat is not _MISSING:
                return nat
            raise SymRaise(SExc("AttributeError", (attr,)))
        if isinstance(obj, SClassRef):
            if attr == "__name__":
                return obj.cls.name
            la = obj.cls.lookup_attr(attr)
            if la is not None and la[0] == "method":
                m = la[1]
                if m.kind == "classmethod":
                    return SBound(obj, SFunc(m))
                if m.kind == "getter":
                    raise Undecided("property object access on class")
                return SFunc(m)
            if la is not None and la[0] == "const":
                return self.ev(run, la[1], Frame(None, {}, None, la[2].modinfo))
            nat = self.native_attr(run, obj, attr)
            if nat is not _MISSING:
                return nat
            raise SymRaise(SExc("AttributeError", (attr,)))
        if isinstance(obj, SRec):
            if attr == "dtype":
                return SDtype(obj)
            if attr == "copy":
                return SNative(lambda run, a, k: obj.copy(), "record.copy")
            if attr == "tolist":
                return SNative(lambda run, a, k: tuple(obj.fields.values()), "record.tolist")
            return obj.get(attr)
        if hasattr(obj, "sym_getattr"):
            r = obj.sym_getattr(run, attr)
            if r is not _MISSING:
                return r
        nat = self.native_attr(run, obj, attr)
        if nat is not _MISSING:
            return nat
        raise Undecided(f"attribute .{attr} of {type(obj).__name__} ({obj!r:.60})")

    def native_attr(self, run, obj, attr):
        from . import models
        return models.native_attr(self, run, obj, attr)

    def external_attr(self, base, attr):
        from . import models
        canon = {"np": "numpy", "numpy": "numpy"}.get(base, base)
        full = f"{canon}.{attr}"
        v = models.external_attr_value(full)
        if v is not None:
            return v
        if attr in BUILTIN_EXC_BASES and attr[0].isupper():
            return SExcClass(attr)
        return SExternal(full)

    def ex_Subscript(self, run, node, fr):
        obj = self.ev(run, node.value, fr)
        idx = self.ev_index(run, node.slice, fr)
        return self.getitem(run, obj, idx)

    def ev_index(self, run, sl, fr):
        if isinstance(sl, ast.Slice):
            return slice(self.ev(run, sl.lower, fr) if sl.lower else None,
                         self.ev(run, sl.upper, fr) if sl.upper else None,
                         self.ev(run, sl.step, fr) if sl.step else None)
        if isinstance(sl, ast.Tuple):
            return tuple(self.ev_index(run, e, fr) for e in sl.elts)
        return self.ev(run, sl, fr)

    def getitem(self, run, obj, idx):
        from . import models
        return models.getitem(self, run, obj, idx)

    def ex_Tuple(self, run, node, fr):
        out = []
        for e in node.elts:
            if isinstance(e, ast.Starred):
                out.extend(self._as_list(run, self.ev(run, e.value, fr)))
            else:
                out.append(self.ev(run, e, fr))
        return tuple(out)

    def ex_List(self, run, node, fr):
        return list(self.ex_Tuple(run, node, fr))

    def ex_Set(self, run, node, fr):
        return set(self.ex_Tuple(run, node, fr))

    def ex_Dict(self, run, node, fr):
        d = {}
        for k, v in zip(node.keys, node.values):
            if k is None:
                d.update(self.ev(run, v, fr))
            else:
                d[self.ev(run, k, fr)] = self.ev(run, v, fr)
        return d

    def _as_list(self, run, v):
        r = self.iterate(run, v)
        if not isinstance(r, list):
            raise Undecided("star-expansion of a symbolic-length sequence")
        return r

    def ex_BinOp(self, run, node, fr):
        a = self.ev(run, node.left, fr)
        b = self.ev(run, node.right, fr)
        if hasattr(a, "sym_binop"):
            r = a.sym_binop(run, node.op, b, False)
            if r is not NotImplemented:
                return r
        if hasattr(b, "sym_binop"):
            r = b.sym_binop(run, node.op, a, True)
            if r is not NotImplemented:
                return r
        return ops.binop(run, node.op, a, b, f"L{node.lineno}")

    def ex_UnaryOp(self, run, node, fr):
        return ops.unary(run, node.op, self.ev(run, node.operand, fr))

    def ex_BoolOp(self, run, node, fr):
        # short-circuit with forking only where needed
        is_and = isinstance(node.op, ast.And)
        val = None
        for k, e in enumerate(node.values):
            val = self.ev(run, e, fr)
            if k == len(node.values) - 1:
                return val
            t = self.truth(run, val)
            d = run.branch(t)
            if is_and and not d:
                return val
            if not is_and and d:
                return val
        return val

    def ex_Compare(self, run, node, fr):
        left = self.ev(run, node.left, fr)
        res = None
        for op, rn in zip(node.ops, node.comparators):
            right = self.ev(run, rn, fr)
            if hasattr(left, "sym_compare"):
                r = left.sym_compare(run, op, right, False)
            elif hasattr(right, "sym_compare"):
                r = right.sym_compare(run, op, left, True)
            else:
                r = NotImplemented
            if r is NotImplemented:
                r = ops.compare(run, op, left, right, f"L{node.lineno}")
            if res is None:
                res = r
            else:
                if isinstance(res, bool) and isinstance(r, bool):
                    res = res and r
                elif isinstance(res, (SCell, SArr)) or isinstance(r, (SCell, SArr)):
                    raise Undecided("chained comparison on arrays")
                else:
                    res = z3.And(to_z3(res), to_z3(r))
            left = right
        return res

    def ex_IfExp(self, run, node, fr):
        c = self.truth(run, self.ev(run, node.test, fr))
        if run.branch(c):
            return self.ev(run, node.body, fr)
        return self.ev(run, node.orelse, fr)

    def ex_Lambda(self, run, node, fr):
        def fn(run2, args, kwargs, node=node, fr=fr):
            params = [p.arg for p in node.args.args]
            loc = dict(zip(params, args))
            loc.update(kwargs)
            nd = len(node.args.defaults)
            for i, p in enumerate(params):
                if p not in loc:
                    di = i - (len(params) - nd)
                    loc[p] = self.ev(run2, node.args.defaults[di], fr)
            return self.ev(run2, node.body, Frame(fr.info, loc, fr, fr.modinfo, fr.self_cls))
        return SNative(fn, "lambda")

    def ex_JoinedStr(self, run, node, fr):
        parts = []
        for v in node.values:
            if isinstance(v, ast.Constant):
                parts.append(("lit", v.value))
            else:
                val = self.ev(run, v.value, fr)
                spec = None
                if v.format_spec is not None:
                    spec = "".join(x.value for x in v.format_spec.values if isinstance(x, ast.Constant))
                parts.append(("val", val, spec))
        from .models import make_fstring
        return make_fstring(run, parts)

    def ex_NamedExpr(self, run, node, fr):
        v = self.ev(run, node.value, fr)
        fr.locals[node.target.id] = v
        return v

    def ex_Starred(self, run, node, fr):
        raise Undecided("starred expression outside call/tuple")

    def ex_ListComp(self, run, node, fr):
        return self.comprehension(run, node, fr, list)

    def ex_GeneratorExp(self, run, node, fr):
        return self.comprehension(run, node, fr, list)

    def ex_SetComp(self, run, node, fr):
        r = self.comprehension(run, node, fr, list)
        if isinstance(r, list):
            return set(r)
        from .models import SSymSet
        return SSymSet(run, r)

    def ex_DictComp(self, run, node, fr):
        if len(node.generators) != 1:
            raise Undecided("nested dict comprehension")
        g = node.generators[0]
        items = self.iterate(run, self.ev(run, g.iter, fr))
        if not isinstance(items, list):
            raise Undecided("dict comprehension over symbolic sequence")
        out = {}
        cfr = Frame(fr.info, {}, fr, fr.modinfo, fr.self_cls)
        for x in items:
            self.assign(run, g.target, x, cfr)
            if all(run.branch(self.truth(run, self.ev(run, c, cfr))) for c in g.ifs):
                out[self.ev(run, node.key, cfr)] = self.ev(run, node.value, cfr)
        return out

    def comprehension(self, run, node, fr, ctor):
        if len(node.generators) != 1:
            raise Undecided("nested comprehension")
        g = node.generators[0]
        it = self.ev(run, g.iter, fr)
        items = self.iterate(run, it)
        cfr = Frame(fr.info, {}, fr, fr.modinfo, fr.self_cls)
        if isinstance(items, list):
            out = []
            for x in items:
                self.assign(run, g.target, x, cfr)
                ok = True
                for c in g.ifs:
                    if not run.branch(self.truth(run, self.ev(run, c, cfr))):
                        ok = False
                        break
                if ok:
                    out.append(self.ev(run, node.elt, cfr))
            return out
        # symbolic length: map/filter with the element expression evaluated at a generic index.  The element / filter expressions are
        # evaluated lazily, so they must see the variables as they are NOW: the enclosing frame is snapshotted (a later rebinding such as
        # `t_last = t` after `[... if track.end == t_last]` must not leak into the comprehension)
        from .models import symbolic_comprehension
        snap = Frame(fr.info, dict(fr.locals), fr.closure, fr.modinfo, fr.self_cls)
        cfr = Frame(fr.info, {}, snap, fr.modinfo, fr.self_cls)
        return symbolic_comprehension(self, run, node, g, items, cfr)

    # -- calls ------------------------------------------------------------
    def ex_Call(self, run, node, fr):
        # super()
        if isinstance(node.func, ast.Name) and node.func.id == "super" and not node.args:
            slf = fr.locals.get(fr.info.node.args.args[0].arg) if fr.info and fr.info.node.args.args else None
            return SSuper(slf, fr.self_cls)
        fn = self.ev(run, node.func, fr)
        args = []
        for a in node.args:
            if isinstance(a, ast.Starred):
                args.extend(self._as_list(run, self.ev(run, a.value, fr)))
            else:
                args.append(self.ev(run, a, fr))
        kwargs = {}
        for k in node.keywords:
            v = self.ev(run, k.value, fr)
            if k.arg is None:
                if isinstance(v, SKw):
                    kwargs["**"] = v
                    kwargs.update(v.known)
                elif isinstance(v, dict):
                    kwargs.update(v)
                else:
                    raise Undecided("** of non-dict")
            else:
                kwargs[k.arg] = v
        run.cur_line = node.lineno
        return self.invoke(run, fn, args, kwargs, node)

    def invoke(self, run, fn, args, kwargs, node=None):
        from . import models
        if isinstance(fn, SNative):
            return fn.fn(run, args, kwargs)
        if isinstance(fn, SBound):
            f = fn.func
            if isinstance(f, SNative):
                return f.fn(run, [fn.obj] + list(args), kwargs)
            return self.invoke_func(run, f, [fn.obj] + list(args), kwargs, bound=fn.obj)
        if isinstance(fn, SFunc):
            return self.invoke_func(run, fn, args, kwargs)
        if isinstance(fn, SClassRef):
            return models.construct(self, run, fn.cls, args, kwargs)
        if isinstance(fn, SExternal):
            return models.call_external(self, run, fn.name, args, kwargs)
        if isinstance(fn, SExcClass):
            return SExc(fn.name, tuple(args))
        if hasattr(fn, "sym_call"):
            return fn.sym_call(run, args, kwargs)
        raise Undecided(f"call of {fn!r}")

    def invoke_func(self, run, f: SFunc, args, kwargs, bound=None):
        fi = f.info
        c = self.modular.get(fi.key)
        if c is not None and not getattr(run, "_verifying", None) == fi.key:
            r = c.apply(self, run, fi, args, kwargs)
            if r is not NotImplemented:
                return r
        # decorators that are semantically relevant
        if f.decorated and "enable_scalar_args" in fi.decorators:
            wrapper = source.get_function("droplets.tools.misc:enable_scalar_args.<wrapper>")
            modinfo = source.load_module("droplets.tools.misc")
            closure = Frame(wrapper.parent, {"method": SFunc(fi, f.closure, decorated=False)}, None, modinfo)
            return self.call_function(run, wrapper, args, kwargs, closure=closure)
        unknown = [d for d in fi.decorators if d not in source.DROPPED_DECORATORS and d not in
                   ("property", "classmethod", "staticmethod", "enable_scalar_args") and not d.endswith(".setter")]
        if unknown:
            raise Undecided(f"decorator(s) {unknown} on {fi.key} are not modelled")
        if fi.kind == "classmethod" and bound is None:
            raise Undecided("unbound classmethod call")
        return self.call_function(run, fi, args, kwargs, closure=f.closure, self_cls=fi.cls)

    @property
    def builtins(self):
        from . import models
        return models.BUILTINS


class SSuper:
    def __init__(self, obj, cls):
        self.obj = obj
        self.cls = cls

    def sym_getattr(self, run, attr):
        eng = run.engine
        obj = self.obj
        ocls = obj.cls if isinstance(obj, (SObj, SClassRef)) else None
        if ocls is None:
            raise Undecided("super() without an analysed self")
        m = ocls.lookup(attr, start_after=self.cls)
        if m is None:
            from . import models
            return models.super_fallback(eng, run, self, attr)
        if m.kind == "getter":
            return eng.call_function(run, m, [obj], {}, self_cls=m.cls)
        bound_self = obj
        return SNative(lambda run2, a, k, m=m: eng.call_function(run2, m, [bound_self] + list(a), k, self_cls=m.cls),
                       f"super().{attr}")


class LoopEnv:
    """Access to the locals of the frame in which a cut loop runs (read/write by name)."""

    def __init__(self, engine, run, fr):
        self.engine = engine
        self.run = run
        self.fr = fr

    def __getitem__(self, name):
        return self.engine.lookup(self.run, name, self.fr)

    def __setitem__(self, name, v):
        self.fr.locals[name] = v

    def __contains__(self, name):
        return name in self.fr.locals


class LoopSpec:
    """Loop annotation supplied by a contract, keyed by (function key, loop ordinal)."""
    keep: set = set()
    force = False
    has_variant = False
    truncate = False        # True: the path ends at this loop; what follows is NOT verified (stated in the trusted base)

    def init_ghost(self, run, env):
        pass

    def invariant(self, run, env, i, seq):
        """yield (name, z3 Bool).  `i` = number of completed iterations."""
        return []

    def havoc(self, run, env):
        pass

    def before_body(self, run, env, i, seq):
        pass

    def after_body(self, run, env, i, seq):
        """ghost updates after one iteration (before the invariant is re-established)"""
        pass

    def at_exit(self, run, env, i, seq):
        pass

    def variant(self, run, env):
        return None


_MISSING = object()


def _load(t):
    import copy
    t2 = copy.copy(t)
    t2.ctx = ast.Load()
    return t2


def _ite(c, a, b):
    if isinstance(c, bool):
        return a if c else b
    if is_num(a) and is_num(b):
        if is_int_valued(a) and is_int_valued(b):
            return z3.If(c, to_z3(a), to_z3(b))
        return z3.If(c, to_real(a), to_real(b))
    return z3.If(c, to_z3(a), to_z3(b))


def _pick(run, items, i):
    """element number i (symbolic) of a concrete list: nested if-then-else over numbers / tuples of numbers"""
    if len(items) == 1:
        return items[0]

    def sel(vals):
        if all(isinstance(v, tuple) and len(v) == len(vals[0]) for v in vals):
            return tuple(sel([v[k] for v in vals]) for k in range(len(vals[0])))
        if all(is_num(v) or isinstance(v, bool) for v in vals):
            out = vals[-1]
            for k in range(len(vals) - 2, -1, -1):
                out = _ite(to_z3(i) == k, vals[k], out)
            return out
        raise Undecided("forced cut over a concrete list of non-numeric items")
    return sel(list(items))


def _walk_own(fn):
    """All nodes of `fn` excluding nested function/class bodies."""
    out = []

    def visit(n):
        for ch in ast.iter_child_nodes(n):
            if isinstance(ch, (ast.FunctionDef, ast.ClassDef, ast.Lambda)):
                continue
            out.append(ch)
            visit(ch)
    visit(fn)
    return out


def _assigned_names(loop):
    names = set()

    def tgt(t):
        if isinstance(t, ast.Name):
            names.add(t.id)
        elif isinstance(t, (ast.Tuple, ast.List)):
            for e in t.elts:
                tgt(e)
        elif isinstance(t, ast.Starred):
            tgt(t.value)

    def visit(n):
        for ch in ast.iter_child_nodes(n):
            if isinstance(ch, (ast.FunctionDef, ast.ClassDef, ast.Lambda)):
                continue
            if isinstance(ch, ast.Assign):
                for t in ch.targets:
                    tgt(t)
            elif isinstance(ch, (ast.AugAssign, ast.AnnAssign)):
                tgt(ch.target)
            elif isinstance(ch, (ast.For,)):
                tgt(ch.target)
            elif isinstance(ch, ast.NamedExpr):
                tgt(ch.target)
            elif isinstance(ch, ast.With):
                for it in ch.items:
                    if it.optional_vars is not None:
                        tgt(it.optional_vars)
            visit(ch)
    body = ast.Module(body=loop.body + loop.orelse, type_ignores=[])
    visit(body)
    if isinstance(loop, ast.For):
        tgt(loop.target)
    return names
