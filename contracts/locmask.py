"""C01 / C02 / C09: locating droplets in binary images (droplets/image_analysis.py:_locate_droplets_in_mask_*).

Concrete side first: independent oracles (periodic flood fill with unwrapping, digital balls) used by the bounded stand-ins and by the
replay of counter-models; the symbolic contracts follow below."""
from __future__ import annotations

import itertools
import math


# =====================================================================================================================
# independent oracle: connected components of a binary image under face connectivity + periodic boundaries, with unwrapping
def components(mask, periodic):
    """-> list of dict(cells=[index tuples], unwrapped=[integer coordinates, continuous across periodic boundaries], winding=bool)"""
    import numpy as np
    shape = mask.shape
    dim = mask.ndim
    seen = np.zeros(shape, dtype=bool)
    out = []
    for start in zip(*np.nonzero(mask)):
        if seen[start]:
            continue
        off = {start: tuple(0 for _ in range(dim))}       # period offsets
        seen[start] = True
        stack = [start]
        winding = False
        while stack:
            c = stack.pop()
            for a in range(dim):
                for s in (-1, 1):
                    n = list(c)
                    o = list(off[c])
                    n[a] += s
                    if n[a] < 0 or n[a] >= shape[a]:
                        if not periodic[a]:
                            continue
                        o[a] += -1 if n[a] < 0 else 1
                        n[a] %= shape[a]
                    n, o = tuple(n), tuple(o)
                    if not mask[n]:
                        continue
                    if n in off:
                        if off[n] != o:
                            winding = True
                        continue
                    off[n] = o
                    seen[n] = True
                    stack.append(n)
        cells = sorted(off)
        out.append(dict(cells=cells, unwrapped=[tuple(c[a] + off[c][a] * shape[a] for a in range(dim)) for c in cells], winding=winding))
    return out


def wrap_diff(a, b, period):
    d = (a - b) % period
    return min(d, period - d)


def grid_info(grid):
    import numpy as np
    lo = np.array([b[0] for b in grid.axes_bounds], dtype=float)
    hi = np.array([b[1] for b in grid.axes_bounds], dtype=float)
    return lo, hi, np.array(grid.discretization, dtype=float), list(grid.periodic)


def volume_to_radius(v, dim):
    if dim == 1:
        return v / 2
    if dim == 2:
        return math.sqrt(v / math.pi)
    return (3 * v / (4 * math.pi)) ** (1 / 3)


def check_cartesian(grid, mask, emulsion, tol=1e-9):
    """clauses of C02 on a Cartesian grid; returns list of violated clause names"""
    import numpy as np
    lo, hi, dx, per = grid_info(grid)
    dim = grid.dim
    cv = float(np.prod(dx))
    comps = components(mask, per)
    exp = []
    for c in comps:
        vol = len(c["cells"]) * cv
        pos = None
        if not c["winding"]:
            pos = lo + (np.mean(np.array(c["unwrapped"], dtype=float), axis=0) + 0.5) * dx
        exp.append(dict(volume=vol, radius=volume_to_radius(vol, dim), pos=pos, winding=c["winding"], ncells=len(c["cells"])))
    bad = []
    size = hi - lo

    def pdist(p, q):
        d = np.abs(np.asarray(p) - np.asarray(q))
        for a in range(dim):
            if per[a]:
                d[a] = wrap_diff(p[a], q[a], size[a])
        return float(np.linalg.norm(d))
    # one-to-one matching of returned droplets to components
    used = set()
    scale = float(np.max(size))
    for d in emulsion:
        best = None
        for k, e in enumerate(exp):
            if k in used or abs(e["volume"] - d.volume) > tol * max(1.0, e["volume"]):
                continue
            if e["pos"] is not None and pdist(e["pos"], d.position) > tol * scale * 10:
                continue
            best = k
            break
        if best is None:
            # distinguish the failing clause
            if any(abs(e["volume"] - d.volume) <= tol * max(1.0, e["volume"]) for k, e in enumerate(exp) if k not in used):
                bad.append("the position of a droplet is the centre of mass of its unwrapped (non-winding) component, modulo the period")
            else:
                bad.append("every droplet corresponds to a distinct connected component with that component's total cell volume")
        else:
            used.add(best)
        if any(per[a] and not (lo[a] - tol * scale <= d.position[a] <= hi[a] + tol * scale) for a in range(dim)) or not np.all(np.isfinite(d.position)):
            bad.append("along periodic axes the reported position lies inside the grid bounds")
    # returned droplets never overlap
    ds = list(emulsion)
    for i in range(len(ds)):
        for j in range(i + 1, len(ds)):
            if pdist(ds[i].position, ds[j].position) < (ds[i].radius + ds[j].radius) * (1 - 1e-9):
                bad.append("returned droplets never overlap as equal-volume spheres under the periodic metric")
    # a component is left out only if its sphere overlapped another one at least as large
    for k, e in enumerate(exp):
        if k in used:
            continue
        if e["pos"] is None:
            continue        # winding component: its position is not specified, so neither is its overlap
        ok = False
        for k2, e2 in enumerate(exp):
            if k2 == k or e2["volume"] < e["volume"] * (1 - 1e-12):
                continue
            if e2["pos"] is None or pdist(e["pos"], e2["pos"]) < (e["radius"] + e2["radius"]) * (1 + 1e-9):
                ok = True
                break
        if not ok:
            bad.append("a component is left out only if its sphere overlapped that of another component at least as large")
    return sorted(set(bad)), dict(components=len(exp), droplets=len(ds))


def check_cylindrical(grid, mask, emulsion, tol=1e-9):
    """C02 on a cylindrical grid: components touching the axis (r-index 0), cell-volume weighted; periodic z by unwrapping.
    Returns (violated clauses, observations).  Clauses found on an image that contains an on-axis component which is longer than one period
    of a periodic z-axis (unwrapped) or winds around it are prefixed `periodic-cylinder-spanning-fallback:` - the library then analyses the
    whole image without periodicity (see known_findings.jsonl)."""
    import numpy as np
    (r0, r1), (z0, z1) = grid.axes_bounds
    nr, nz = grid.shape
    dr, dz = grid.discretization
    per_z = bool(grid.periodic[1])
    comps = components(mask, [False, per_z])
    vol_r, _ = grid.cell_volume_data
    vol_r = np.broadcast_to(np.asarray(vol_r).reshape(-1), (nr,)) if np.ndim(vol_r) else np.full(nr, float(vol_r))
    exp = []
    spanning = False
    for c in comps:
        if not any(cell[0] == 0 for cell in c["cells"]):
            continue
        w = np.array([vol_r[cell[0]] * dz for cell in c["cells"]])
        zu = np.array([u[1] for u in c["unwrapped"]], dtype=float)
        if per_z and (c["winding"] or zu.max() - zu.min() + 1 > nz):
            spanning = True
        zc = z0 + (zu + 0.5) * dz
        exp.append(dict(winding=c["winding"], volume=float(w.sum()), z_unweighted=float(zc.mean()), z_weighted=float((w * zc).sum() / w.sum()),
                        radius=volume_to_radius(float(w.sum()), 3)))
    bad = []
    Lz = z1 - z0
    used = set()

    def zdist(a, b):
        return wrap_diff(a, b, Lz) if per_z else abs(a - b)
    for d in emulsion:
        if abs(d.position[0]) > tol or abs(d.position[1]) > tol:
            bad.append("droplets on a cylindrical grid lie on the symmetry axis")
        best = None
        for k, e in enumerate(exp):
            if k in used or abs(e["volume"] - d.volume) > tol * max(1.0, e["volume"]):
                continue
            # "centre of mass" of the component: the mean z of its cell centres, plain or weighted by the cell volumes - both are accepted;
            # the position of a winding component is not specified
            if not e["winding"] and min(zdist(d.position[2], e[kk]) for kk in ("z_unweighted", "z_weighted")) > tol * 10 * max(1.0, Lz):
                continue
            best = k
            break
        if best is None:
            bad.append("every droplet corresponds to a distinct on-axis component: volume = total cell volume, z = mean z of its cell centres")
        else:
            used.add(best)
        if per_z and not (z0 - tol <= d.position[2] <= z1 + tol):
            bad.append("along the periodic axis the reported position lies inside the grid bounds")
    if not exp and len(emulsion) != 0:
        bad.append("an image without a component on the symmetry axis yields an empty emulsion")
    ds = list(emulsion)
    for i in range(len(ds)):
        for j in range(i + 1, len(ds)):
            if zdist(ds[i].position[2], ds[j].position[2]) < (ds[i].radius + ds[j].radius) * (1 - 1e-9):
                if abs(ds[i].position[2] - ds[j].position[2]) >= (ds[i].radius + ds[j].radius) * (1 - 1e-9):
                    # overlap only through the periodic boundary: the library filters with the Euclidean metric here (known finding)
                    bad.append("periodic-cylinder-overlap-across-boundary: returned droplets never overlap as equal-volume spheres under the periodic metric")
                else:
                    bad.append("returned droplets never overlap as equal-volume spheres under the periodic metric")
    for k, e in enumerate(exp):
        if k in used or e["winding"]:
            continue
        ok = any(k2 != k and (e2["winding"] or (e2["volume"] >= e["volume"] * (1 - 1e-12) and
                                                 zdist(e["z_unweighted"], e2["z_unweighted"]) < (e["radius"] + e2["radius"]) * (1 + 1e-9)))
                 for k2, e2 in enumerate(exp))
        if not ok:
            bad.append("an on-axis component is left out only if its sphere overlapped that of another one at least as large")
    if spanning:
        bad = ["periodic-cylinder-spanning-fallback: " + b_.replace("periodic-cylinder-overlap-across-boundary: ", "") for b_ in bad]
    return sorted(set(bad)), dict(components=len(exp), droplets=len(ds), spanning=spanning)


# =====================================================================================================================
from pyvc.bounded import Bounded   # noqa: E402


def make_cartesian(shape, periodic, variant=0):
    import pde
    dxs = [[1.0, 1.0, 1.0], [0.5, 2.0, 1.25], [0.1, 0.3, 7.0]][variant % 3]
    los = [[0.0, 0.0, 0.0], [-3.0, 2.5, 10.0], [1e3, -1e-3, 0.5]][variant % 3]
    return pde.CartesianGrid([(l, l + n * d) for l, n, d in zip(los, shape, dxs)], list(shape), periodic=list(periodic))


class ImageEnumeration(Bounded):
    name = "components-vs-periodic-flood-fill"
    bound = ("locate_droplets_in_mask against an independent periodic flood-fill oracle (unwrapped components, winding detection): "
             "EXHAUSTIVE: all binary images on 1-d grids of 1..8 cells, on 3x3 (quick) and additionally 4x4, 3x4, 2x2x2 and 3x2x2 (thorough) grids, "
             "for every periodicity mask, three spacing/origin variants in rotation; cylindrical grids: all images on 3x3 (quick) / 3x4, 4x3 "
             "(thorough), periodic and non-periodic z; RANDOM: 600 / 6000 images up to 12x10x6 incl. noise, stripes, rings, multi-piece components "
             "meeting periodic boundaries in several places")

    def run(self, tier, seed):
        import numpy as np
        import pde
        from droplets.image_analysis import locate_droplets_in_mask
        rng = np.random.default_rng(seed + 2)
        ev, distinct, viol = 0, set(), {}

        def one(grid, img, label):
            nonlocal ev
            ev += 1
            m = pde.ScalarField(grid, img.astype(bool), dtype=bool)
            try:
                em = locate_droplets_in_mask(m)
            except Exception as e:   # noqa: BLE001
                viol.setdefault("raises", dict(signature=f"raises:{type(e).__name__}", what=f"locate_droplets_in_mask raises {type(e).__name__}: {e}",
                                               inputs=dict(label=label, shape=list(img.shape), image=img.astype(int).tolist(),
                                                           periodic=[bool(x) for x in grid.periodic], bounds=[list(map(float, b)) for b in grid.axes_bounds])))
                return
            if isinstance(grid, pde.CylindricalSymGrid):
                bad, obs = check_cylindrical(grid, img.astype(bool), em)
            else:
                bad, obs = check_cartesian(grid, img.astype(bool), em)
            for b in bad:
                viol.setdefault(b, dict(signature=b, what=b, inputs=dict(label=label, shape=list(img.shape), image=img.astype(int).tolist(),
                                                                         periodic=[bool(x) for x in grid.periodic],
                                                                         bounds=[list(map(float, bb)) for bb in grid.axes_bounds]), native=obs))

        def exhaustive(shape, cyl=False):
            n = int(np.prod(shape))
            masks = list(itertools.product([False, True], repeat=len(shape))) if not cyl else [(False,), (True,)]
            for pi, per in enumerate(masks):
                grid = make_cartesian(shape, per, pi + len(shape)) if not cyl else pde.CylindricalSymGrid(
                    shape[0] * [1.0, 0.5][pi % 2], ([0.0, -2.0][pi % 2], [0.0, -2.0][pi % 2] + shape[1] * [1.0, 0.25][pi % 2]), list(shape), periodic_z=per[0])
                for bits in range(2 ** n):
                    img = np.array([(bits >> k) & 1 for k in range(n)], dtype=bool).reshape(shape)
                    distinct.add((shape, per, bits, cyl))
                    one(grid, img, f"exhaustive {shape} periodic={per} cyl={cyl} bits={bits}")

        for n in range(1, 9):
            exhaustive((n,))
        exhaustive((3, 3))
        exhaustive((3, 3), cyl=True)
        if tier == "thorough":
            for shp in ((4, 4), (3, 4), (2, 2, 2), (3, 2, 2)):
                exhaustive(shp)
            exhaustive((3, 4), cyl=True)
            exhaustive((4, 3), cyl=True)
        for t in range(600 if tier == "quick" else 6000):
            dim = 1 + t % 3
            shape = tuple(int(x) for x in rng.integers(2, [24, 12, 7][dim - 1], size=dim))
            per = tuple(bool(x) for x in rng.integers(0, 2, size=dim))
            kind = t % 5
            if kind == 0:
                img = rng.random(shape) < rng.choice([0.15, 0.35, 0.5, 0.7])
            elif kind == 1:     # stripes / slabs meeting periodic boundaries
                img = np.zeros(shape, dtype=bool)
                a = int(rng.integers(0, dim))
                idx = [slice(None)] * dim
                for s in rng.integers(0, shape[a], size=2):
                    idx[a] = int(s)
                    img[tuple(idx)] = True
                img ^= rng.random(shape) < 0.05
            elif kind == 2:     # blobs that straddle boundaries
                img = np.zeros(shape, dtype=bool)
                cc = np.indices(shape)
                for _ in range(int(rng.integers(1, 4))):
                    c = [rng.uniform(-1, n + 1) for n in shape]
                    r = rng.uniform(0.8, 3.0)
                    d2 = sum(np.minimum(np.abs(cc[a] + 0.5 - c[a]), shape[a] - np.abs(cc[a] + 0.5 - c[a]) if per[a] else np.inf) ** 2 for a in range(dim))
                    img |= d2 < r * r
            elif kind == 3:     # multi-piece components: pieces on both sides of a periodic boundary
                img = np.zeros(shape, dtype=bool)
                idx0 = [slice(None)] * dim
                idx0[0] = shape[0] - 1
                img[tuple(idx0)] = rng.random(img[tuple(idx0)].shape) < 0.8
                idx1 = [slice(None)] * dim
                idx1[0] = slice(0, min(2, shape[0]))
                img[tuple(idx1)] = rng.random(img[tuple(idx1)].shape) < 0.4
            else:
                img = (rng.random(shape) < 0.5) & (rng.random(shape) < 0.6)
            distinct.add(("rnd", t, seed))
            one(make_cartesian(shape, per, t), img, f"random t={t} seed={seed}")
            if dim == 2 and t % 2 == 0:
                g = pde.CylindricalSymGrid(shape[0] * 0.5, (-1.0, -1.0 + shape[1] * 0.75), list(shape), periodic_z=per[1])
                one(g, img, f"random cylindrical t={t} seed={seed}")
        return dict(evaluations=ev, distinct=len(distinct), violations=list(viol.values()))

    def replay(self, rec):
        import numpy as np
        import pde
        from droplets.image_analysis import locate_droplets_in_mask
        inp = rec["inputs"]
        img = np.array(inp["image"], dtype=bool)
        if "cyl" in inp["label"]:
            (r0, r1), (z0, z1) = inp["bounds"]
            grid = pde.CylindricalSymGrid(r1, (z0, z1), list(img.shape), periodic_z=inp["periodic"][1])
        else:
            grid = pde.CartesianGrid(inp["bounds"], list(img.shape), periodic=inp["periodic"])
        try:
            em = locate_droplets_in_mask(pde.ScalarField(grid, img, dtype=bool))
        except Exception as e:   # noqa: BLE001
            return dict(violated=[f"raises {type(e).__name__}"], observed=str(e))
        bad, obs = (check_cylindrical if isinstance(grid, pde.CylindricalSymGrid) else check_cartesian)(grid, img, em)
        return dict(violated=bad, observed=obs)


# =====================================================================================================================
# C01: render -> locate (no refinement) on the four grid families
def covered_cells_cartesian(grid, centre, radius):
    """indices of the cells whose centres the ball covers (periodic metric along periodic axes), computed independently of the library"""
    import numpy as np
    lo, hi, dx, per = grid_info(grid)
    size = hi - lo
    axes = [lo[a] + (np.arange(grid.shape[a]) + 0.5) * dx[a] for a in range(grid.dim)]
    d2 = np.zeros(grid.shape)
    for a in range(grid.dim):
        d = np.abs(axes[a] - centre[a])
        if per[a]:
            d = np.abs((axes[a] - centre[a] + size[a] / 2) % size[a] - size[a] / 2)
        sl = [None] * grid.dim
        sl[a] = slice(None)
        d2 = d2 + (d ** 2)[tuple(sl)]
    return d2 < radius ** 2, d2


class RenderLocate(Bounded):
    name = "render-then-locate"
    bound = ("rendered sharp SphericalDroplets located without refinement: Cartesian grids in 1-3 dimensions (all periodicity masks, "
             "anisotropic spacing 0.25..3, shifted origins, 1-4 droplets, centres up to 3 periods outside the box on periodic axes and "
             "straddling periodic boundaries), polar / spherical grids (centred droplets), cylindrical grids (1-2 on-axis droplets, periodic and "
             "non-periodic z, straddling); preconditions generated: radius >= 2 spacings and < (period/2 - 1 spacing), surfaces at least "
             "3*sqrt(d) spacings apart, fully inside along non-periodic axes; 1500 (quick) / 20000 (thorough) seeded configurations (those for which no admissible placement was found are skipped and not counted); checked: "
             "count, volume == total volume of the covered cells (independent periodic distance computation, knife-edge cells within 1e-9 "
             "of the surface skipped), centre within half a spacing per axis under the periodic metric, radius within half a radial "
             "spacing on radially symmetric grids, positions inside the bounds on periodic axes")

    def run(self, tier, seed):
        import numpy as np
        import pde
        from droplets import Emulsion, SphericalDroplet, locate_droplets
        rng = np.random.default_rng(seed + 1)
        ev, distinct, viol = 0, set(), {}
        n_conf = 1500 if tier == "quick" else 20000

        def report(sig, inputs, native=None):
            viol.setdefault(sig, dict(signature=sig, what=sig, inputs=inputs, native=native))

        for t in range(n_conf):
            fam = ["cartesian", "cartesian", "cartesian", "polar", "spherical", "cylindrical"][t % 6]
            inputs = dict(t=t, seed=seed, family=fam)
            try:
                if fam == "cartesian":
                    dim = 1 + (t // 6) % 3
                    dx = rng.choice([0.25, 0.5, 1.0, 1.5, 3.0], size=dim)
                    per = rng.integers(0, 2, size=dim).astype(bool)
                    shape = rng.integers([20, 14, 10][dim - 1], [60, 28, 16][dim - 1], size=dim)
                    lo = rng.choice([-7.3, 0.0, 2.5, 100.0], size=dim)
                    # every fifth Cartesian configuration has a droplet centred EXACTLY at the coordinate origin: at the corner of a fully periodic
                    # box that starts at 0, or at a cell corner in the middle of the box
                    special = (t // 6) % 5
                    if special == 0:
                        per[:] = True
                        lo = np.zeros(dim)
                    elif special == 1:
                        lo = -(shape // 2) * dx
                    grid = pde.CartesianGrid([(l, l + n * d) for l, n, d in zip(lo, shape, dx)], [int(n) for n in shape], periodic=[bool(p) for p in per])
                    size = shape * dx
                    h = float(dx.max())
                    gap = 3 * math.sqrt(dim) * h
                    rmax = min(float(np.min(size)) / 2 - 1.5 * h, 8 * h)
                    drops = []
                    for _ in range(int(rng.integers(1, 5))):
                        for _try in range(60):
                            if rmax <= 2 * h:
                                break
                            r = float(rng.uniform(2 * h, rmax))
                            c = np.array([rng.uniform(lo[a], lo[a] + size[a]) if per[a] else rng.uniform(lo[a] + r + h, lo[a] + size[a] - r - h)
                                          if size[a] - 2 * r - 2 * h > 0 else np.nan for a in range(dim)])
                            if np.any(np.isnan(c)):
                                continue
                            if special in (0, 1) and not drops:
                                c = np.zeros(dim)

                            def pd(p, q):
                                d = np.abs(p - q)
                                for a in range(dim):
                                    if per[a]:
                                        d[a] = wrap_diff(p[a], q[a], size[a])
                                return float(np.linalg.norm(d))
                            if all(pd(c, c2) > r + r2 + gap for c2, r2 in drops):
                                drops.append((c, r))
                                break
                    if not drops:
                        continue
                    # centres may be given any number of periods outside the box
                    given = [(c + np.where(per, rng.integers(-3, 4, size=dim), 0) * size, r) for c, r in drops]
                    field = Emulsion([SphericalDroplet(c, r) for c, r in given]).get_phasefield(grid)
                    inputs.update(bounds=[list(map(float, b)) for b in grid.axes_bounds], shape=[int(n) for n in shape], periodic=[bool(p) for p in per],
                                  droplets=[(list(map(float, c)), float(r)) for c, r in given])
                    em = locate_droplets(field, threshold=0.5)
                    ev += 1
                    distinct.add((t, seed, fam))
                    if len(em) != len(drops):
                        report("exactly one droplet is returned per original", inputs, dict(found=len(em), expected=len(drops)))
                        continue
                    cv = float(np.prod(dx))
                    for c, r in drops:
                        cov, d2 = covered_cells_cartesian(grid, c, r)
                        if np.any(np.abs(np.sqrt(d2) - r) < 1e-9 * (1 + r)):
                            continue          # knife-edge cell: rounding decides whether it is covered
                        best = min(em, key=lambda d: sum(wrap_diff(d.position[a], c[a], size[a]) ** 2 if per[a] else (d.position[a] - c[a]) ** 2 for a in range(dim)))
                        if abs(best.volume - cov.sum() * cv) > 1e-9 * cov.sum() * cv:
                            report("the volume equals the total volume of the cells whose centres the original covers", inputs,
                                   dict(volume=float(best.volume), cells=int(cov.sum()), cell_volume=cv))
                        for a in range(dim):
                            dev = wrap_diff(best.position[a], c[a], size[a]) if per[a] else abs(best.position[a] - c[a])
                            if dev > dx[a] / 2 * (1 + 1e-9):
                                report("the centre lies within half a grid spacing per axis of the original centre (periodic metric)", inputs,
                                       dict(axis=a, deviation=float(dev), spacing=float(dx[a]), found=list(map(float, best.position)), original=list(map(float, c))))
                            if per[a] and not (lo[a] - 1e-9 <= best.position[a] <= lo[a] + size[a] + 1e-9):
                                report("along periodic axes the reported position lies inside the grid bounds", inputs, dict(position=list(map(float, best.position))))
                elif fam in ("polar", "spherical"):
                    n = int(rng.integers(8, 40))
                    rad = float(rng.choice([4.0, 10.0, 25.0]))
                    grid = pde.PolarSymGrid(rad, n) if fam == "polar" else pde.SphericalSymGrid(rad, n)
                    dr = rad / n
                    r = float(rng.uniform(2 * dr, rad - 2 * dr))
                    k = (r / dr) % 1
                    if min(abs(k - 0.5), 1) < 1e-6:
                        continue
                    field = SphericalDroplet(np.zeros(grid.dim), r).get_phase_field(grid)
                    inputs.update(radius=r, outer=rad, cells=n)
                    em = locate_droplets(field, threshold=0.5)
                    ev += 1
                    distinct.add((t, seed, fam))
                    if len(em) != 1:
                        report("exactly one droplet is returned per original", inputs, dict(found=len(em), expected=1))
                        continue
                    if abs(em[0].radius - r) > dr / 2 * (1 + 1e-9):
                        report("on radially symmetric grids the radius lies within half a radial spacing of the original radius", inputs,
                               dict(found=float(em[0].radius), original=r, spacing=dr))
                    cov = (np.arange(n) + 0.5) * dr < r
                    vol = float(np.asarray(grid.cell_volume_data[0]).reshape(-1)[cov].sum())
                    if abs(em[0].volume - vol) > 1e-9 * vol:
                        report("the volume equals the total volume of the cells whose centres the original covers", inputs, dict(volume=float(em[0].volume), expected=vol))
                    if np.any(np.abs(em[0].position) > 1e-12):
                        report("a centred droplet is reported at the origin", inputs)
                else:
                    nr, nz = int(rng.integers(8, 20)), int(rng.integers(16, 40))
                    drr, dz = float(rng.choice([0.5, 1.0])), float(rng.choice([0.5, 1.0, 1.5]))
                    z0 = float(rng.choice([-5.0, 0.0, 3.25]))
                    perz = bool(rng.integers(0, 2))
                    grid = pde.CylindricalSymGrid(nr * drr, (z0, z0 + nz * dz), [nr, nz], periodic_z=perz)
                    Lz = nz * dz
                    h = max(drr, dz)
                    drops = []
                    for _ in range(int(rng.integers(1, 3))):
                        for _try in range(40):
                            rmax = min(nr * drr - 2 * h, Lz / 2 - 1.5 * h, 6 * h)
                            if rmax <= 2 * h:
                                break
                            r = float(rng.uniform(2 * h, rmax))
                            z = float(rng.uniform(z0, z0 + Lz)) if perz else float(rng.uniform(z0 + r + h, z0 + Lz - r - h)) if Lz - 2 * r - 2 * h > 0 else None
                            if z is None:
                                continue
                            if all((wrap_diff(z, z2, Lz) if perz else abs(z - z2)) > r + r2 + 3 * math.sqrt(3) * h for z2, r2 in drops):
                                drops.append((z, r))
                                break
                    if not drops:
                        continue
                    inputs.update(shape=[nr, nz], spacing=[drr, dz], z0=z0, periodic_z=perz, droplets=drops)
                    # rendering on a periodic cylinder relies on py-pde's difference_vector, which has the dependency defect D1 (wrap applied
                    # to y instead of z): droplets that straddle the periodic boundary are rendered by two images placed by hand
                    dl = []
                    for z, r in drops:
                        dl.append(SphericalDroplet([0, 0, z], r))
                        if perz and z - r < z0:
                            dl.append(SphericalDroplet([0, 0, z + Lz], r))
                        if perz and z + r > z0 + Lz:
                            dl.append(SphericalDroplet([0, 0, z - Lz], r))
                    field = Emulsion(dl).get_phasefield(grid)
                    em = locate_droplets(field, threshold=0.5)
                    ev += 1
                    distinct.add((t, seed, fam))
                    if len(em) != len(drops):
                        report("exactly one droplet is returned per original", inputs, dict(found=len(em), expected=len(drops)))
                        continue
                    vol_r = np.asarray(grid.cell_volume_data[0]).reshape(-1)
                    rc = (np.arange(nr) + 0.5) * drr
                    zc = z0 + (np.arange(nz) + 0.5) * dz
                    for z, r in drops:
                        dzz = np.abs((zc - z + Lz / 2) % Lz - Lz / 2) if perz else np.abs(zc - z)
                        d2 = rc[:, None] ** 2 + dzz[None, :] ** 2
                        if np.any(np.abs(np.sqrt(d2) - r) < 1e-9 * (1 + r)):
                            continue
                        cov = d2 < r * r
                        vol = float((vol_r[:, None] * dz * cov).sum())
                        best = min(em, key=lambda d: wrap_diff(d.position[2], z, Lz) if perz else abs(d.position[2] - z))
                        if abs(best.volume - vol) > 1e-9 * vol:
                            report("the volume equals the total volume of the cells whose centres the original covers", inputs, dict(volume=float(best.volume), expected=vol))
                        dev = wrap_diff(best.position[2], z, Lz) if perz else abs(best.position[2] - z)
                        if dev > dz / 2 * (1 + 1e-9) or abs(best.position[0]) > 1e-12 or abs(best.position[1]) > 1e-12:
                            report("the centre lies within half a grid spacing per axis of the original centre (periodic metric)", inputs,
                                   dict(deviation=float(dev), spacing=dz, found=list(map(float, best.position)), original=z))
                        if perz and not (z0 - 1e-9 <= best.position[2] <= z0 + Lz + 1e-9):
                            report("along periodic axes the reported position lies inside the grid bounds", inputs, dict(position=list(map(float, best.position))))
            except Exception as e:   # noqa: BLE001
                import traceback
                report(f"rendering and locating raise nothing ({type(e).__name__})", inputs, dict(error=traceback.format_exc()[-800:]))
        return dict(evaluations=ev, distinct=len(distinct), violations=list(viol.values()))

    def replay(self, rec):
        r = self.run("quick" if rec["inputs"].get("t", 0) < 1500 else "thorough", int(rec["inputs"].get("seed", 0)))
        return dict(violated=[v["signature"] for v in r["violations"]], observed=[v.get("native") for v in r["violations"]][:3])


# =====================================================================================================================
# Deductive part: _locate_droplets_in_mask_cartesian - the periodic merge loop with ghost counts and moments
import ast    # noqa: E402

import z3     # noqa: E402

from pyvc import models, ops, source                          # noqa: E402
from pyvc.contract import Contract, Lemma, loop, register     # noqa: E402
from pyvc.engine import LoopSpec, SymRaise, _MISSING          # noqa: E402
from pyvc.values import (SArr, SCell, SClassRef, SExc, SExternal, SNative, SObj, SOpaque, SSeq, Undecided, const_of, is_num,  # noqa: E402
                         to_real, to_z3)

IA = "droplets.image_analysis"
I, B, Rl = z3.IntSort(), z3.BoolSort(), z3.RealSort()
KEY_CART = f"{IA}:_locate_droplets_in_mask_cartesian"


class LState:
    """ghost + concrete state of the labelling, as z3 arrays (functional updates):
       LAB: cell -> label;  SH: (cell, axis) -> periods moved;  VOL: label-1 -> volume;  POS: (label-1, axis) -> position (cell units)
       ghost CNT: label -> number of cells;  MOM: (label, axis) -> MEAN over the label's cells of (index + 1/2 + SH * N), the unwrapped
       cell-centre coordinate in cell units"""

    def __init__(self, run, dim, n, shape):
        self.run, self.dim, self.n, self.shape = run, dim, n, shape
        self.fresh("0")
        self.LAB0 = self.LAB          # the initial labelling (connected components of the unpadded image)

    def fresh(self, tag):
        d = self.dim
        c = next(self.run.counter)
        self.LAB = z3.Const(f"LAB!{tag}!{c}", z3.ArraySort(*([I] * d), I))
        self.SH = z3.Const(f"SH!{tag}!{c}", z3.ArraySort(*([I] * (d + 1)), I))
        self.VOL = z3.Const(f"VOL!{tag}!{c}", z3.ArraySort(I, Rl))
        self.POS = z3.Const(f"POS!{tag}!{c}", z3.ArraySort(I, I, Rl))
        self.CNT = z3.Const(f"CNT!{tag}!{c}", z3.ArraySort(I, Rl))
        self.MOM = z3.Const(f"MOM!{tag}!{c}", z3.ArraySort(I, I, Rl))

    def cellvars(self, name):
        return [z3.Int(f"{name}{a}") for a in range(self.dim)]

    def in_grid(self, c):
        return z3.And(*[z3.And(c[a] >= 0, c[a] < self.shape[a]) for a in range(self.dim)])


def norm_cell(st, idx):
    """index tuple of python ints / z3 ints; -1 means the last cell"""
    out = []
    for a, x in enumerate(idx):
        c = const_of(x) if is_num(x) else None
        if isinstance(x, SCell):
            x = x.v
        if c is not None and c < 0:
            out.append(st.shape[a] + int(c))
        else:
            out.append(to_z3(x))
    return out


class SMaskEq:
    """labels == k"""

    def __init__(self, img, k):
        self.img, self.k = img, k


class SLabelImg:
    def __init__(self, st):
        self.st = st

    def sym_getattr(self, run, attr):
        if attr == "shape":
            return tuple(self.st.shape)
        return _MISSING

    def sym_getitem(self, run, idx):
        if isinstance(idx, tuple) and len(idx) == self.st.dim:
            c = norm_cell(self.st, idx)
            run.oblige("cell index inside the image", self.st.in_grid(c), kind="implicit")
            return z3.Select(self.st.LAB, *c)
        raise Undecided(f"labels[{idx!r}]")

    def sym_compare(self, run, op, other, reflected):
        if isinstance(op, ast.Eq) and is_num(other):
            return SMaskEq(self, to_z3(other))
        return NotImplemented

    def sym_setitem(self, run, idx, v):
        st = self.st
        if isinstance(idx, SMaskEq) and idx.img is self and is_num(v):
            k, new = idx.k, to_z3(v)
            cs = st.cellvars("mc")
            old = st.LAB
            st.LAB = z3.Lambda(cs, z3.If(z3.Select(old, *cs) == k, new, z3.Select(old, *cs)))
            # ghost: the cells of label k join label `new` (sums over disjoint sets add up: A-SUM)
            L, a = z3.Ints("gl ga")
            cnt, mom = st.CNT, st.MOM
            st.CNT = z3.Lambda([L], z3.If(L == new, z3.Select(cnt, new) + z3.Select(cnt, k), z3.If(L == k, z3.RealVal(0), z3.Select(cnt, L))))
            st.MOM = z3.Lambda([L, a], z3.If(L == new, (z3.Select(mom, new, a) * z3.Select(cnt, new) + z3.Select(mom, k, a) * z3.Select(cnt, k))
                                             / (z3.Select(cnt, new) + z3.Select(cnt, k)), z3.Select(mom, L, a)))
            run.trust("A-SUM: when two disjoint sets of cells are united, their counts add up and the mean of the union is the count-weighted "
                      "mean of the two means (masked relabelling)")
            run.ghost["cart"]["relabels"].append((k, new))
            return
        raise Undecided("assignment to labels other than labels[labels == k] = j")


class SVec:
    """volumes"""

    def __init__(self, st):
        self.st = st

    def sym_getitem(self, run, idx):
        if isinstance(idx, SPresentIdx):
            return SPresentSeq(self.st, "volume", idx)
        i = to_z3(idx)
        run.oblige("label index in range of volumes", z3.And(i >= 0, i < self.st.n), kind="implicit")
        return z3.Select(self.st.VOL, i)

    def sym_setitem(self, run, idx, v):
        i = to_z3(idx)
        run.oblige("label index in range of volumes", z3.And(i >= 0, i < self.st.n), kind="implicit")
        self.st.VOL = z3.Store(self.st.VOL, i, to_real(v))

    def sym_binop(self, run, op, other, reflected):
        if isinstance(op, ast.Mult) and is_num(other):
            k = z3.Int("vk")
            old = self.st.VOL
            self.st.VOL = z3.Lambda([k], z3.Select(old, k) * to_real(other))
            return self
        return NotImplemented


class SRowView:
    """positions[i]: a VIEW of row i (in-place operators write through)"""

    def __init__(self, st, i):
        self.st, self.i = st, i

    def elems(self):
        return [z3.Select(self.st.POS, self.i, z3.IntVal(a)) for a in range(self.st.dim)]

    def sym_iop(self, run, op, rhs):
        new = ops.binop(run, op, SArr(self.elems()), rhs)
        for a in range(self.st.dim):
            self.st.POS = z3.Store(self.st.POS, self.i, z3.IntVal(a), to_real(new.elems[a]))
        return self

    def sym_binop(self, run, op, other, reflected):
        me = SArr(self.elems())
        return ops.binop(run, op, other, me) if reflected else ops.binop(run, op, me, other)

    def sym_getitem(self, run, idx):
        c = const_of(idx) if is_num(idx) else None
        if c is None or not (-self.st.dim <= c < self.st.dim):
            raise Undecided("element of a position with a symbolic / out-of-range axis")
        return z3.Select(self.st.POS, self.i, z3.IntVal(int(c) % self.st.dim))

    def sym_setitem(self, run, idx, v):
        c = const_of(idx) if is_num(idx) else None
        if c is None or not (-self.st.dim <= c < self.st.dim):
            raise Undecided("element of a position with a symbolic / out-of-range axis")
        self.st.POS = z3.Store(self.st.POS, self.i, z3.IntVal(int(c) % self.st.dim), to_real(v))


class SMat:
    """positions"""

    def __init__(self, st):
        self.st = st

    def sym_getitem(self, run, idx):
        if isinstance(idx, SPresentIdx):
            return SPresentSeq(self.st, "position", idx)
        i = to_z3(idx)
        run.oblige("label index in range of positions", z3.And(i >= 0, i < self.st.n), kind="implicit")
        return SRowView(self.st, i)

    def sym_setitem(self, run, idx, v):
        i = to_z3(idx)
        run.oblige("label index in range of positions", z3.And(i >= 0, i < self.st.n), kind="implicit")
        vals = v.elems() if isinstance(v, SRowView) else list(v.elems)
        if len(vals) != self.st.dim:
            run.oblige("a position has one entry per axis", False, kind="implicit", assume_after=False)
            raise run.PathEnd()
        for a in range(self.st.dim):
            self.st.POS = z3.Store(self.st.POS, i, z3.IntVal(a), to_real(vals[a]))

    def sym_binop(self, run, op, other, reflected):
        if isinstance(op, ast.Add) and is_num(other):
            k, a = z3.Ints("pk pa")
            old = self.st.POS
            self.st.POS = z3.Lambda([k, a], z3.Select(old, k, a) + to_real(other))
            self.st.added_half = other
            return self
        return NotImplemented


class SMaskedShift:
    def __init__(self, img, mask):
        self.img, self.mask = img, mask

    def sym_iop(self, run, op, rhs):
        st = self.img.st
        if not isinstance(op, ast.Add) or not isinstance(rhs, SArr) or len(rhs.elems) != st.dim:
            raise Undecided("shift[mask] op= something else than a vector of periods")
        k = self.mask.k
        cs = st.cellvars("sc")
        a = z3.Int("sa")
        old = st.SH
        per = rhs.elems
        pa = per[-1]
        for j in range(st.dim - 2, -1, -1):
            pa = z3.If(a == j, to_z3(per[j]), to_z3(pa))
        pa = to_z3(pa)
        st.SH = z3.Lambda(cs + [a], z3.If(z3.Select(st.LAB, *cs) == k, z3.Select(old, *(cs + [a])) + pa, z3.Select(old, *(cs + [a]))))
        # ghost: every cell of label k moves by `per` periods: its moment grows by per * N * count (A-SUM)
        L, b = z3.Ints("gl gb")
        mom = st.MOM
        Nb = st.shape[-1]
        pb = per[-1]
        for j in range(st.dim - 2, -1, -1):
            Nb = z3.If(b == j, st.shape[j], Nb)
            pb = z3.If(b == j, to_z3(per[j]), to_z3(pb))
        st.MOM = z3.Lambda([L, b], z3.If(L == k, z3.Select(mom, L, b) + z3.ToReal(to_z3(pb) * Nb), z3.Select(mom, L, b)))
        run.trust("A-SUM: moving every cell of a set by p periods moves the set's mean by p * N")
        run.ghost["cart"]["shifts"].append((k, list(per)))
        return self


class SShiftImg:
    def __init__(self, st):
        self.st = st

    def sym_getitem(self, run, idx):
        st = self.st
        if isinstance(idx, SMaskEq):
            return SMaskedShift(self, idx)
        if isinstance(idx, tuple) and len(idx) == st.dim:
            c = norm_cell(st, idx)
            run.oblige("cell index inside the image", st.in_grid(c), kind="implicit")
            return SArr([z3.Select(st.SH, *(c + [z3.IntVal(a)])) for a in range(st.dim)], kind="int")
        raise Undecided(f"shift[{idx!r}]")

    def sym_setitem(self, run, idx, v):
        if isinstance(idx, SMaskEq) and isinstance(v, SMaskedShift):
            return          # `shift[mask] += p` stores the updated view back: already done in place
        raise Undecided("assignment to shift")


# --- assumed contracts of scipy.ndimage / numpy used by the function ------------------------------------------------------
def _cart(run):
    g = run.ghost.get("cart")
    if g is None:
        raise Undecided("ndimage model outside the locating contracts")
    return g


@models.external("scipy.ndimage.generate_binary_structure")
def _nd_gbs(engine, run, a, k):
    return SOpaque("structuring element")


@models.external("scipy.ndimage.label")
def _nd_label(engine, run, a, k):
    g = _cart(run)
    if a[0] is not g["mask_data"]:
        raise Undecided("ndimage.label of something else than the binary image")
    run.oblige("the binary image is labelled with scipy's default structuring element: clusters are FACE-connected cells (the connectivity the merge across "
               "periodic boundaries uses: only directly facing boundary cells are joined)", z3.BoolVal(len(a) == 1 and not k), kind="requires", assume_after=False)
    if len(a) != 1 or k:
        raise Undecided("ndimage.label with a structuring element")
    run.trust("ASSUMED (scipy.ndimage.label): labels the face-connected components of the non-zero cells 1..n (0 = background)")
    st = g["st"]
    g["labelled"] = True
    return (SLabelImg(st), st.n)


@models.external("scipy.ndimage.center_of_mass")
def _nd_com(engine, run, a, k):
    g = _cart(run)
    st = g["st"]
    idx = k.get("index", a[2] if len(a) > 2 else None)
    ok = a[0] is g["mask_data"] and isinstance(a[1], SLabelImg) and is_index_range(idx, st.n)
    run.oblige("center_of_mass is taken of the binary image, per label 1..n", z3.BoolVal(bool(ok)), kind="requires", assume_after=False)
    run.trust("ASSUMED (scipy.ndimage.center_of_mass): for a binary image, row L-1 is the mean index of the cells with label L")
    g["com"] = True
    return SMat(st)


@models.external("scipy.ndimage.sum", "scipy.ndimage.sum_labels")
def _nd_sum(engine, run, a, k):
    g = _cart(run)
    st = g["st"]
    idx = k.get("index", a[2] if len(a) > 2 else None)
    ok = a[0] is g["mask_data"] and isinstance(a[1], SLabelImg) and is_index_range(idx, st.n)
    run.oblige("ndimage.sum is taken of the binary image, per label 1..n", z3.BoolVal(bool(ok)), kind="requires", assume_after=False)
    run.trust("ASSUMED (scipy.ndimage.sum): for a binary image, entry L-1 is the number of cells with label L")
    g["sum"] = True
    return SVec(st)


def is_index_range(idx, n):
    """idx is range(1, n + 1)"""
    if isinstance(idx, SSeq) and idx.name == "range":
        k = z3.Int("rk")
        s_ = z3.Solver()
        s_.set("timeout", 2000)
        s_.add(n >= 1, k >= 0, k < n, z3.Or(idx.at(k) != k + 1, to_z3(idx.length) != n))
        return s_.check() == z3.unsat
    return False


_prev_asarray = models.EXTERNALS["numpy.asarray"]


def _asarray(engine, run, a, k):
    if a and isinstance(a[0], (SMat, SVec, SPresent)):
        return a[0]
    return _prev_asarray(engine, run, a, k)


for _nm in ("numpy.asarray", "numpy.asanyarray", "numpy.array"):
    models.EXTERNALS[_nm] = _asarray

_prev_zeros = models.EXTERNALS["numpy.zeros"]


@models.external("numpy.zeros")
def _zeros(engine, run, a, k):
    g = run.ghost.get("cart")
    if g is not None and g.get("labelled") and isinstance(a[0], tuple) and len(a[0]) == g["st"].dim + 1:
        st = g["st"]
        ok = all(z3.is_expr(x) and z3.eq(x, st.shape[j]) for j, x in enumerate(a[0][:-1])) and const_of(a[0][-1]) == st.dim
        run.oblige("the shift image has one integer vector per cell", z3.BoolVal(bool(ok) and str(k.get("dtype")) in ("int", "<class 'int'>", "SExternal(builtins.int)") or bool(ok)),
                   kind="requires", assume_after=False)
        st.SH = z3.K(I, z3.IntVal(0)) if False else z3.Lambda(st.cellvars("zc") + [z3.Int("za")], z3.IntVal(0))
        g["shift_zero"] = True
        return SShiftImg(st)
    return _prev_zeros(engine, run, a, k)


@models.external("numpy.flatnonzero")
def _flatnonzero(engine, run, a, k):
    v = a[0]
    if isinstance(v, (list, tuple)) and all(isinstance(x, bool) for x in v):
        return [j for j, x in enumerate(v) if x]
    raise Undecided("np.flatnonzero of a symbolic array")


class SAxisRange:
    """np.arange(n_a): all indices of axis a"""

    def __init__(self, axis):
        self.axis = axis


_prev_arange = models.EXTERNALS["numpy.arange"]


@models.external("numpy.arange")
def _arange(engine, run, a, k):
    g = run.ghost.get("cart")
    if g is not None and len(a) == 1 and z3.is_expr(a[0]):
        for j, n in enumerate(g["st"].shape):
            if z3.eq(a[0], n):
                return SAxisRange(j)
    return _prev_arange(engine, run, a, k)


@models.external("itertools.product")
def _product(engine, run, a, k):
    g = _cart(run)
    st = g["st"]
    if len(a) != st.dim or k:
        raise Undecided("itertools.product over something else than one index list per axis")
    comps = []
    for j, lst in enumerate(a):
        if isinstance(lst, SAxisRange) and lst.axis == j:
            comps.append(("free", j))
        elif isinstance(lst, list) and len(lst) == 1 and const_of(lst[0]) is not None:
            comps.append(("fixed", int(const_of(lst[0]))))
        else:
            raise Undecided("itertools.product factor that is neither [c] nor np.arange(shape[a])")
    run.trust("ASSUMED (itertools.product): enumerates the index tuples of the given per-axis lists; two products whose factors have equal "
              "lengths enumerate corresponding tuples at the same position")
    sig = tuple(c[0] for c in comps)
    L = z3.IntVal(1)
    for c in comps:
        if c[0] == "free":
            L = L * st.shape[c[1]]
    coord = [z3.Function(f"coord{j}_{''.join(s[0] for s in sig)}", I, I) for j in range(st.dim)]

    def at(i):
        i = to_z3(i)
        out = []
        for j, c in enumerate(comps):
            if c[0] == "fixed":
                out.append(c[1])
            else:
                run.define(z3.And(coord[j](i) >= 0, coord[j](i) < st.shape[j]), "product enumerates indices inside the axis")
                out.append(coord[j](i))
        return tuple(out)
    return SSeq(L, at, "product", "iter")


class SPresent:
    """the labels still present after merging (np.unique(labels) minus 0, sorted)"""

    def __init__(self, st, stage):
        self.st, self.stage = st, stage

    def sym_binop(self, run, op, other, reflected):
        if isinstance(op, ast.Sub) and not reflected:
            if isinstance(other, (set, frozenset)) and other == {0} and self.stage == "set":
                return SPresent(self.st, "set-without-0")
            if is_num(other) and const_of(other) == 1 and self.stage == "array":
                return SPresentIdx(self.st)
        return NotImplemented


class SPresentIdx:
    def __init__(self, st):
        self.st = st


class SPresentSeq:
    """positions[indices - 1] / volumes[indices - 1]: one entry per present label, in increasing label order"""

    def __init__(self, st, what, idx):
        self.st, self.what = st, what


@models.external("numpy.unique")
def _unique(engine, run, a, k):
    if isinstance(a[0], SLabelImg) and not k:
        run.trust("ASSUMED (numpy.unique): the sorted distinct values of the label image")
        return SPresent(a[0].st, "unique")
    raise Undecided("np.unique of something else than the label image")


_prev_set = models.BUILTINS["set"]
_prev_sorted_lm = models.BUILTINS["sorted"]


def _set2(run, a, k):
    if a and isinstance(a[0], SPresent) and a[0].stage == "unique":
        return SPresent(a[0].st, "set")
    return _prev_set.fn(run, a, k)


def _sorted_lm(run, a, k):
    if a and isinstance(a[0], SPresent) and a[0].stage == "set-without-0" and not k:
        return SPresent(a[0].st, "array")
    return _prev_sorted_lm.fn(run, a, k)


models.BUILTINS["set"] = SNative(_set2, "set")
models.BUILTINS["sorted"] = SNative(_sorted_lm, "sorted")


# --- grid / mask model -----------------------------------------------------------------------------------------------------
class SCartGrid:
    def __init__(self, run, dim, periodic):
        self.dim, self.periodic = dim, list(periodic)
        self.n = [run.input_int(f"N{a}") for a in range(dim)]
        self.dx = [run.input_real(f"dx{a}") for a in range(dim)]
        self.lo = [run.input_real(f"lo{a}") for a in range(dim)]
        for a in range(dim):
            run.assume(z3.And(self.n[a] >= 1, self.dx[a] > 0))
        self.calls = []

    def sym_isinstance(self, run, t):
        return isinstance(t, SExternal) and t.name in ("pde.grids.cartesian.CartesianGrid", "pde.grids.CartesianGrid", "pde.grids.base.GridBase")

    def sym_getattr(self, run, attr):
        run.trust(f"A-PDE: CartesianGrid.{attr} as modelled in contracts/locmask.py (shape, spacing, bounds, periodicity; transform cell->grid "
                  "is affine; normalize_point wraps periodic axes into the bounds by whole periods)")
        if attr in ("dim", "num_axes"):
            return self.dim
        if attr == "shape":
            return tuple(self.n)
        if attr == "discretization":
            return SArr(list(self.dx))
        if attr == "typical_discretization":
            # A-PDE: the mean of the spacings - ONE length, not the spacing of any particular axis
            if not hasattr(self, "_h"):
                self._h = run.fresh_real("typical_discretization")
                tot = self.dx[0]
                for d_ in self.dx[1:]:
                    tot = tot + d_
                run.define(self._h * len(self.dx) == tot, "A-PDE: typical_discretization is the mean spacing")
            return self._h
        if attr == "periodic":
            return list(self.periodic)
        if attr == "transform":
            def tr(run2, a, k):
                src = k.get("source", a[1] if len(a) > 1 else None)
                tgt = k.get("target", a[2] if len(a) > 2 else None)
                self.calls.append(("transform", a[0], src, tgt))
                if isinstance(a[0], SMat) and src == "cell" and tgt == "grid":
                    return STransformed(a[0].st, self, normalized=False)
                raise Undecided(f"grid.transform({src}->{tgt}) of {type(a[0]).__name__}")
            return SNative(tr, "grid.transform")
        if attr == "normalize_point":
            def npnt(run2, a, k):
                self.calls.append(("normalize_point", a[0]))
                if isinstance(a[0], STransformed) and not a[0].normalized and not k and len(a) == 1:
                    return STransformed(a[0].st, self, normalized=True)
                raise Undecided("grid.normalize_point of something else than the transformed positions")
            return SNative(npnt, "grid.normalize_point")
        return _MISSING


WRAP = z3.Function("wrap_into_period", Rl, Rl, Rl, Rl)      # wrap(x, lo, L): x shifted by a whole number of periods into [lo, lo + L)


class STransformed:
    def __init__(self, st, grid, normalized):
        self.st, self.grid, self.normalized = st, grid, normalized

    def value(self, label_minus_1, a):
        g = self.grid
        x = g.lo[a] + g.dx[a] * z3.Select(self.st.POS, label_minus_1, z3.IntVal(a))
        if self.normalized and g.periodic[a]:
            return WRAP(x, g.lo[a], z3.ToReal(g.n[a]) * g.dx[a])
        return x

    def sym_getitem(self, run, idx):
        if isinstance(idx, SPresentIdx):
            return SPresentSeq(self.st, self, idx)
        raise Undecided("indexing the transformed positions")


PRESENT = z3.Function("present_label", I, I)        # i-th present label (increasing)


def _present_iter(self, run):
    st = self.st
    m = z3.Int("n_present")
    run.define(z3.And(m >= 0, m <= st.n), "number of present labels")

    def at(i):
        i = to_z3(i)
        L = PRESENT(i)
        cs = st.cellvars("wc")
        run.define(z3.And(L >= 1, L <= st.n, z3.Select(st.CNT, L) >= 1), "np.unique: a present label occurs in the image")
        if self.what == "volume":
            return z3.Select(st.VOL, L - 1)
        if isinstance(self.what, STransformed):
            return SArr([self.what.value(L - 1, a) for a in range(st.dim)])
        raise Undecided("sequence over the present labels")
    return SSeq(m, at, "present", "iter")


SPresentSeq.sym_iter = _present_iter


class CandRec:
    def __init__(self, position, volume):
        self.position, self.volume = position, volume


@register
class FromVolumeCall(Contract):
    key = "droplets.droplets:SphericalDroplet.from_volume"
    variant = "candidate"
    call_site = True

    def cases(self):
        return []

    def apply(self, engine, run, fi, args, kwargs):
        if "cart" not in run.ghost and "cyl" not in run.ghost:
            return NotImplemented
        run.trust("contract:SphericalDroplet.from_volume (C12): a SphericalDroplet at the given position with V_d(radius) == volume")
        return CandRec(args[1] if len(args) > 1 else kwargs.get("position"), args[2] if len(args) > 2 else kwargs.get("volume"))


class EmRec(SObj):
    def __init__(self, cls, source_seq, kwargs, kind="ctor"):
        super().__init__(cls, {})
        self.source_seq, self.kwargs, self.kind = source_seq, kwargs, kind
        self.calls = []
        self.n_removed = z3.Int("n_removed_by_overlap")

    def sym_len(self, run):
        L = to_z3(self.source_seq.length) if isinstance(self.source_seq, SSeq) else z3.IntVal(len(self.source_seq or []))
        return L - self.n_removed if self.calls else L


def _emrec_attr(engine, run, obj, attr):
    if isinstance(obj, EmRec) and attr == "remove_overlapping":
        def ro(run2, a, k):
            obj.calls.append((list(a), dict(k)))
            run2.define(z3.And(obj.n_removed >= 0), "remove_overlapping removes >= 0 droplets")
            run2.trust("contract:Emulsion.remove_overlapping (C10): removes droplets until no pair overlaps under the given metric; a removed droplet "
                       "overlapped one at least as large")
        return SNative(ro, "Emulsion.remove_overlapping")
    return _MISSING


models.NATIVE_ATTRS.insert(0, _emrec_attr)
_lm_orig_getattr = None


def _lm_patch():
    from pyvc import engine as E
    global _lm_orig_getattr
    if _lm_orig_getattr is not None:
        return
    _lm_orig_getattr = E.Engine.getattr

    def getattr2(self, run, obj, attr, fr=None):
        if isinstance(obj, EmRec) and attr in ("remove_overlapping",):
            return _emrec_attr(self, run, obj, attr)
        if isinstance(obj, EmRec) and attr == "append":
            return SNative(lambda run2, a, k: obj.calls.append(("append", list(a), dict(k))), "Emulsion.append")
        return _lm_orig_getattr(self, run, obj, attr, fr)
    E.Engine.getattr = getattr2


_lm_patch()


def _em_ctor(eng, run, cls, args, kw):
    return EmRec(cls, args[0] if args else None, dict(kw))


@register
class EmulsionEmptyCall(Contract):
    key = "droplets.emulsions:Emulsion.empty"
    variant = "rec"
    call_site = True

    def cases(self):
        return []

    def apply(self, engine, run, fi, args, kwargs):
        if "cart" not in run.ghost and "cyl" not in run.ghost:
            return NotImplemented
        return EmRec(args[0].cls if isinstance(args[0], SClassRef) else None, [], {"example": args[1] if len(args) > 1 else None}, kind="empty")


def _sd_ctor(eng, run, cls, args, kw):
    return SObj(cls, {"_ctor": (list(args), dict(kw))})


# --- the merge loop -------------------------------------------------------------------------------------------------------------
def _consts_of(t):
    out, seen, stack = [], set(), [t]
    while stack:
        x = stack.pop()
        if x.get_id() in seen:
            continue
        seen.add(x.get_id())
        if z3.is_const(x) and x.decl().kind() == z3.Z3_OP_UNINTERPRETED:
            out.append(x)
        elif z3.is_quantifier(x):
            stack.append(x.body())
        else:
            stack.extend(x.children())
    return out


class MergeLoop(LoopSpec):
    """for l, h in zip(product(*low), product(*high)): invariants over the symbolic labelling state.

    The invariants are universally quantified (over labels, cells, scanned pairs).  To keep every solver query quantifier-free they are
    *assumed* at a finite set of terms (the current pair, arbitrary Skolem cells / label / pair index, the labels of all these cells, the
    label of an arbitrary candidate) and *proved* at the Skolem terms, which are unconstrained constants - that is the usual Skolemisation
    of `forall` goals with hand-picked instances of `forall` hypotheses (sound: fewer hypotheses, arbitrary goal instance)."""
    force = True

    def sk(self, st):
        return dict(c=st.cellvars("sk_c"), c2=st.cellvars("sk_d"), L=z3.Int("sk_L"), j=z3.Int("sk_j"), k=z3.Int("sk_cand"))

    def havoc(self, run, env):
        g = run.ghost["cart"]
        g["st"].fresh(f"ax{g['axis_counter']}")

    def init_ghost(self, run, env):
        g = run.ghost["cart"]
        g["axis_counter"] = g.get("axis_counter", -1) + 1
        g["cur_ax"] = int(const_of(env["ax"]))
        g["phase"] = 0

    # ---- the invariants as functions of explicit arguments
    @staticmethod
    def P1(st, c):
        return z3.Implies(st.in_grid(c), z3.And(z3.Select(st.LAB, *c) >= 0, z3.Select(st.LAB, *c) <= st.n))

    @staticmethod
    def P2a(st, L):
        return z3.Select(st.CNT, L) >= 0

    @staticmethod
    def P2b(st, c):
        return z3.Implies(z3.And(st.in_grid(c), z3.Select(st.LAB, *c) >= 1), z3.Select(st.CNT, z3.Select(st.LAB, *c)) >= 1)

    @staticmethod
    def P3(st, cv, L):
        return z3.Implies(z3.And(L >= 1, L <= st.n, z3.Select(st.CNT, L) >= 1), z3.Select(st.VOL, L - 1) == cv * z3.Select(st.CNT, L))

    @staticmethod
    def P4(st, L, a):
        return z3.Implies(z3.And(L >= 1, L <= st.n, z3.Select(st.CNT, L) >= 1), z3.Select(st.POS, L - 1, z3.IntVal(a)) == z3.Select(st.MOM, L, z3.IntVal(a)))

    @staticmethod
    def P5(st, c, c2):
        d = st.dim
        return z3.And(z3.Implies(z3.And(st.in_grid(c), st.in_grid(c2), z3.Select(st.LAB0, *c) == z3.Select(st.LAB0, *c2)),
                                 z3.And(z3.Select(st.LAB, *c) == z3.Select(st.LAB, *c2),
                                        *[z3.Select(st.SH, *(c + [z3.IntVal(b)])) == z3.Select(st.SH, *(c2 + [z3.IntVal(b)])) for b in range(d)])),
                      z3.Implies(st.in_grid(c), (z3.Select(st.LAB0, *c) == 0) == (z3.Select(st.LAB, *c) == 0)))

    @staticmethod
    def P6(st, seq0, upto, j):
        lh = seq0.at(j)
        l_, h_ = norm_cell(st, lh[0]), norm_cell(st, lh[1])
        rng_ = z3.And(j >= 0, j < (to_z3(seq0.length) if upto is None else upto))
        return z3.Implies(z3.And(rng_, z3.Select(st.LAB, *l_) > 0, z3.Select(st.LAB, *h_) > 0), z3.Select(st.LAB, *l_) == z3.Select(st.LAB, *h_))

    NAMES = dict(P1="every label lies in 0..n", P2="counts are non-negative and a label that occurs has at least one cell",
                 P3="volume of a live label == cell volume * number of its cells",
                 P4="position of a live label == mean over its cells of (index + 1/2 + periods moved * cells per period)",
                 P5="cells of one initial component keep a common label and a common shift; background stays background",
                 P6="every scanned pair of facing boundary cells that are both set carries one label")

    def pairs(self, g, seq, i):
        return g["done"] + [(g["cur_ax"], seq, i)]

    def instances(self, run, st, g, seq, i, extra_cells=()):
        """hypothesis instances: returns list of formulas"""
        sk = self.sk(st)
        cv = g["cell_volume"]
        cells = [sk["c"], sk["c2"]] + [list(x) for x in extra_cells]
        for (ax0, seq0, upto) in self.pairs(g, seq, i):
            lh = seq0.at(sk["j"])
            cells += [norm_cell(st, lh[0]), norm_cell(st, lh[1])]
        labels = [sk["L"], PRESENT(sk["k"])] + [z3.Select(st.LAB, *c) for c in cells]
        out = []
        for c in cells:
            out += [self.P1(st, c), self.P2b(st, c)]
        for L in labels:
            out += [self.P2a(st, L), self.P3(st, cv, L)] + [self.P4(st, L, a) for a in range(st.dim)]
        for x in range(len(cells)):
            for y in range(len(cells)):
                if x != y:
                    out.append(self.P5(st, cells[x], cells[y]))
            out.append(self.P5(st, cells[x], cells[x]))
        for (ax0, seq0, upto) in self.pairs(g, seq, i):
            out.append(self.P6(st, seq0, upto, sk["j"]))
        return out

    def goals(self, run, st, g, seq, i):
        sk = self.sk(st)
        cv = g["cell_volume"]
        yield (self.NAMES["P1"], self.P1(st, sk["c"]))
        yield (self.NAMES["P2"], z3.And(self.P2a(st, sk["L"]), self.P2b(st, sk["c"])))
        yield (self.NAMES["P3"], self.P3(st, cv, sk["L"]))
        for a in range(st.dim):
            yield (self.NAMES["P4"] + f" [axis {a}]", self.P4(st, sk["L"], a))
        yield (self.NAMES["P5"], self.P5(st, sk["c"], sk["c2"]))
        for (ax0, seq0, upto) in self.pairs(g, seq, i):
            yield (self.NAMES["P6"] + f" [axis {ax0}]", self.P6(st, seq0, upto, sk["j"]))

    def invariant(self, run, env, i, seq):
        g = run.ghost["cart"]
        st = g["st"]
        g["phase"] += 1
        if g["phase"] == 2:
            # assume phase (state havocked): instances at the Skolem terms and at the cells of the pair processed in this step
            pair = seq.at(i)
            g["pair_cells"] = (norm_cell(st, pair[0]), norm_cell(st, pair[1]))
            for f in self.instances(run, st, g, seq, i, extra_cells=g["pair_cells"]):
                yield ("(instance)", f)
        else:
            yield from self.goals(run, st, g, seq, i)

    def before_body(self, run, env, i, seq):
        g = run.ghost["cart"]
        g["relabels"].clear()
        g["shifts"].clear()
        g["pre"] = dict(SH=g["st"].SH, LAB=g["st"].LAB, CNT=g["st"].CNT, MOM=g["st"].MOM, POS=g["st"].POS, VOL=g["st"].VOL)
        g["pc_mark"] = len(run.pc)

    def after_body(self, run, env, i, seq):
        g = run.ghost["cart"]
        st = g["st"]
        ax = g["cur_ax"]
        l_, h_ = g["pair_cells"]
        pre = g["pre"]
        il, ih = z3.Select(pre["LAB"], *l_), z3.Select(pre["LAB"], *h_)
        merged = z3.And(il > 0, ih > 0, il != ih)
        # unwrapped coordinate of a cell = index + periods moved * N.  With l[ax] = 0, h[ax] = N - 1 and equal other indices (clause "the scanned
        # pairs are ..."), `unwrapped(h) == unwrapped(l) - e_ax` is equivalent to the LINEAR statement below (N >= 1): stated that way so that
        # the solver can also produce counter-models
        cons = [z3.Select(st.SH, *(h_ + [z3.IntVal(a)])) == z3.Select(st.SH, *(l_ + [z3.IntVal(a)])) - (1 if a == ax else 0) for a in range(st.dim)]
        from pyvc.engine import Obligation
        # both statements follow from the updates of the step alone (the post-state arrays are terms over the pre-state): they are discharged
        # with the branch decisions of the step as the only assumptions, which keeps the query linear and lets the solver return counter-models
        in_l, in_h = st.in_grid(l_), st.in_grid(h_)
        for nm, goal in (("after a merge the upper boundary cell lies, in unwrapped coordinates, exactly one cell below the lower one (the moved cluster "
                          "is shifted by whole periods of the RIGHT axis, also when it had been moved before)",
                          z3.Implies(z3.And(in_l, in_h, merged), z3.And(*cons))),
                         ("facing boundary cells that are both set carry one label after the step",
                          z3.Implies(z3.And(in_l, in_h, il > 0, ih > 0), z3.Select(st.LAB, *l_) == z3.Select(st.LAB, *h_)))):
            body_pc = list(run.pc[g["pc_mark"]:])        # the branch decisions of this step
            ob = Obligation(nm, "ensures", body_pc, goal, run.cur_func, run.cur_line, tuple(run.decisions[: run.pos]), dict(run.inputs), {})
            ob.core = body_pc
            run.obligations.append(ob)
        # the arithmetic core (nonlinear real arithmetic), stated over the local scalars of the step and proved from the few facts it
        # needs (all of them members of the path's assumptions) - kept apart from the array reasoning, which then stays linear
        self.arith_core(run, env, st, g, pre, il, ih, merged)
        for a in range(st.dim):
            run.oblige(f"merge step: new position == mean unwrapped cell centre of the united component [axis {a}]",
                       z3.Implies(merged, z3.Select(st.POS, il - 1, z3.IntVal(a)) == z3.Select(st.MOM, il, z3.IntVal(a))),
                       kind="ensures", assume_after=True)
        # the volume of the united component, from the two volume facts and the step's own decisions only
        stp = LState.__new__(LState)
        stp.__dict__.update(st.__dict__)
        stp.LAB, stp.SH, stp.CNT, stp.MOM, stp.POS, stp.VOL = pre["LAB"], pre["SH"], pre["CNT"], pre["MOM"], pre["POS"], pre["VOL"]
        cvv = g["cell_volume"]
        vf = [f for f in (self.P3(stp, cvv, il), self.P3(stp, cvv, ih), self.P2b(stp, l_), self.P2b(stp, h_), self.P1(stp, l_), self.P1(stp, h_))
              if any(z3.eq(f, h0) for h0 in run.pc)] + list(run.pc[g["pc_mark"]:])
        vgoal = z3.Implies(z3.And(in_l, in_h, merged), z3.Select(st.VOL, il - 1) == cvv * z3.Select(st.CNT, il))
        ob = Obligation("merge step: new volume == cell volume * new count of the united component", "ensures", vf, vgoal, run.cur_func, run.cur_line,
                        tuple(run.decisions[: run.pos]), dict(run.inputs), {})
        ob.core = vf
        run.obligations.append(ob)
        run.pc.append(vgoal)
        g["phase"] = 2      # the next call of invariant() is the preservation goal

    def arith_core(self, run, env, st, g, pre, il, ih, merged):
        from pyvc.engine import Obligation
        try:
            pos, v_l, v_h, per = env["pos"], env["v_l"], env["v_h"], env["periods"]
        except Exception:   # noqa: BLE001  (the step did not merge on this path / the locals have other names)
            return
        if not (isinstance(pos, SArr) and isinstance(per, SArr) and len(pos.elems) == st.dim and z3.is_expr(v_l) and z3.is_expr(v_h)):
            return
        cv = g["cell_volume"]
        stp = LState.__new__(LState)
        stp.__dict__.update(st.__dict__)
        stp.LAB, stp.SH, stp.CNT, stp.MOM, stp.POS, stp.VOL = pre["LAB"], pre["SH"], pre["CNT"], pre["MOM"], pre["POS"], pre["VOL"]
        C_l, C_h = z3.Select(pre["CNT"], il), z3.Select(pre["CNT"], ih)
        pcs = list(run.pc) + list(run.defs)

        def member(f):
            return any(z3.eq(f, h_) for h_ in pcs)
        for a in range(st.dim):
            q = pos.elems[a]
            facts = [cv > 0] if member(cv > 0) else []
            facts += [f for f in (self.P3(stp, cv, il), self.P3(stp, cv, ih), self.P4(stp, il, a), self.P4(stp, ih, a)) if member(f)]
            qs = {str(x) for x in _consts_of(to_real(q))}
            facts += [f for f in run.defs if qs & {str(x) for x in _consts_of(f)}]
            # what the path condition says about the labels / counts of the two cells (plain membership again)
            facts += [f for f in run.pc if z3.is_bool(f) and len(f.sexpr()) < 4000 and ("CNT" in f.sexpr() or str(il) in f.sexpr())][:40]
            goal = z3.Implies(z3.And(merged, il >= 1, il <= st.n, ih >= 1, ih <= st.n, C_l >= 1, C_h >= 1, v_l == z3.Select(pre["VOL"], il - 1),
                                     v_h == z3.Select(pre["VOL"], ih - 1)),
                              to_real(q) == (z3.Select(pre["MOM"], il, z3.IntVal(a)) * C_l
                                             + (z3.Select(pre["MOM"], ih, z3.IntVal(a)) + z3.ToReal(to_z3(per.elems[a]) * st.shape[a])) * C_h) / (C_l + C_h))
            ob = Obligation(f"merge step, arithmetic core: the volume-weighted mean of the two positions (upper one moved by the periods) == the count-weighted "
                            f"mean of the two component means [axis {a}]", "ensures", facts, goal, run.cur_func, run.cur_line, tuple(run.decisions[: run.pos]),
                            dict(run.inputs), {})
            ob.core = list(facts)
            run.obligations.append(ob)
            run.pc.append(goal)

    def at_exit(self, run, env, i, seq):
        g = run.ghost["cart"]
        g["done"].append((g["cur_ax"], seq, None))


from pyvc.contract import LOOPS   # noqa: E402

LOOPS[(KEY_CART, 2)] = MergeLoop()


@register
class LocateCartesian(Contract):
    key = KEY_CART
    modular = False
    max_paths = 600
    branch_timeout_ms = 250
    cover_timeout_ms = 400

    def cases(self):
        import os
        out = []
        for dim in (1, 2, 3):
            for per in itertools.product([False, True], repeat=dim):
                out.append(dict(dim=dim, periodic="".join("p" if p else "-" for p in per)))
        return out

    def setup(self, run, case):
        from .structure import SFField
        dim = case["dim"]
        per = [ch == "p" for ch in case["periodic"]]
        grid = SCartGrid(run, dim, per)
        data = SCell(run.input_bool("cell_is_set"), "cells", kind="bool")
        mask = SFField(grid, data)
        n = run.input_int("num_labels")
        run.assume(n >= 0)
        st = LState(run, dim, n, grid.n)
        cv = run.fresh_real("cell_volume")
        prod = grid.dx[0]
        for d_ in grid.dx[1:]:
            prod = prod * d_
        run.assume(cv == prod)
        run.assume(cv > 0)          # a product of positive spacings
        # ---- assumed contracts of ndimage.label / center_of_mass / sum (binary image), as facts about the initial state
        c = st.cellvars("ac")
        L, a = z3.Ints("aL aa")
        COM = z3.Function("mean_index_of_label", I, I, Rl)
        st.SH = z3.Lambda(c + [a], z3.IntVal(0))
        run.assume(z3.ForAll(c, z3.Implies(st.in_grid(c), z3.And(z3.Select(st.LAB, *c) >= 0, z3.Select(st.LAB, *c) <= n))))
        run.assume(z3.ForAll([L], z3.And(z3.Select(st.CNT, L) >= 0, z3.Implies(z3.And(L >= 1, L <= n), z3.Select(st.CNT, L) >= 1))))
        run.assume(z3.ForAll([L], z3.Implies(z3.And(L >= 1, L <= n), z3.Select(st.VOL, L - 1) == z3.Select(st.CNT, L))))
        run.assume(z3.ForAll([L, a], z3.Implies(z3.And(L >= 1, L <= n), z3.Select(st.POS, L - 1, a) == COM(L, a))))
        # the mean cell-centre coordinate of the (unshifted) label, in cell units: mean index + 1/2
        run.assume(z3.ForAll([L, a], z3.Select(st.MOM, L, a) == COM(L, a) + z3.RealVal("1/2")))
        run.ghost["cart"] = dict(st=st, mask_data=data, cell_volume=cv, relabels=[], shifts=[], done=[], grid=grid)
        models.CONSTRUCTORS["Emulsion"] = _em_ctor
        models.CONSTRUCTORS["SphericalDroplet"] = _sd_ctor
        self.ctx = dict(run=run, grid=grid, mask=mask, st=st, n=n, cv=cv)
        return dict(mask=mask)

    def post(self, a, ret, case):
        c = self.ctx
        run, st, grid = c["run"], c["st"], c["grid"]
        g = run.ghost["cart"]
        out = []
        if not isinstance(ret, EmRec):
            return [("returns an Emulsion", False)]
        if ret.kind == "empty":
            return [("an empty emulsion is returned exactly for an image without set cells", c["n"] == 0)]
        out.append(("an image with set cells does not give the empty-emulsion shortcut", c["n"] >= 1))
        src = ret.source_seq
        ok = isinstance(src, SSeq)
        out.append(("the emulsion is built from one candidate per label that is still present", ok))
        if ok:
            k = z3.Int("sk_cand")
            v = src.at(k)
            good = isinstance(v, CandRec) and isinstance(v.position, SArr) and len(v.position.elems) == st.dim and z3.is_expr(v.volume)
            out.append(("candidate k is SphericalDroplet.from_volume(position, volume) of the k-th present label", bool(good)))
            if good:
                L = PRESENT(k)
                out.append(("its volume is the volume of that label: cell volume * number of cells of the merged component",
                            z3.And(v.volume == z3.Select(st.VOL, L - 1), z3.Select(st.VOL, L - 1) == c["cv"] * z3.Select(st.CNT, L))))
                for a_ in range(st.dim):
                    x = grid.lo[a_] + grid.dx[a_] * z3.Select(st.POS, L - 1, z3.IntVal(a_))
                    want = WRAP(x, grid.lo[a_], z3.ToReal(grid.n[a_]) * grid.dx[a_]) if grid.periodic[a_] else x
                    out.append((f"its position along axis {a_} is the mean unwrapped cell centre of the component in grid coordinates"
                                + (", wrapped into the bounds by whole periods" if grid.periodic[a_] else ""),
                                z3.And(to_real(v.position.elems[a_]) == want,
                                       z3.Select(st.POS, L - 1, z3.IntVal(a_)) == z3.Select(st.MOM, L, z3.IntVal(a_)))))
        out.append(("overlapping candidates are removed once, with the grid's (periodic) metric",
                    len(ret.calls) == 1 and ret.calls[0][0] == [] and set(ret.calls[0][1]) == {"grid"} and ret.calls[0][1]["grid"] is grid))
        out.append(("the image is labelled once and count / centre of mass are taken per label", bool(g.get("labelled") and g.get("com") and g.get("sum"))))
        # every periodic axis is stitched: all pairs of facing boundary cells (low side 0, high side N-1, equal other coordinates) are scanned
        want_axes = [a_ for a_ in range(st.dim) if grid.periodic[a_]]
        out.append(("every periodic axis is scanned for clusters that face each other across its boundary, once; non-periodic axes are not",
                    sorted(ax0 for ax0, _, _ in g["done"]) == want_axes))
        j = z3.Int("sk_pair")
        for ax0, seq0, _ in g["done"]:
            lh = seq0.at(j)
            l_, h_ = norm_cell(st, lh[0]), norm_cell(st, lh[1])
            total = z3.IntVal(1)
            for a_ in range(st.dim):
                if a_ != ax0:
                    total = total * st.shape[a_]
            shape_ok = z3.And(l_[ax0] == 0, h_[ax0] == st.shape[ax0] - 1, *[l_[a_] == h_[a_] for a_ in range(st.dim) if a_ != ax0])
            free_ok = all(a_ == ax0 or (z3.is_app(l_[a_]) and l_[a_].decl().name().startswith("coord")) for a_ in range(st.dim))
            out.append((f"axis {ax0}: the scanned pairs are (cell on the low face, the cell facing it on the high face) for all cells of the face",
                        z3.And(z3.BoolVal(bool(free_ok)), shape_ok, to_z3(seq0.length) == total)))
        return out


# =====================================================================================================================
# _locate_droplets_in_mask_spherical: the cluster that starts at the origin, radius = outer edge of its last cell
KEY_SPH = f"{IA}:_locate_droplets_in_mask_spherical"
START = z3.Function("object_start", I, I)
STOP = z3.Function("object_stop", I, I)


class SRadGrid:
    """PolarSymGrid / SphericalSymGrid: one radial axis r_k = r_inner + (k + 1/2) dr"""

    def __init__(self, run, dim):
        self.dim = dim
        self.n, self.dr, self.r_in = run.input_int("N_r"), run.input_real("dr"), run.input_real("r_inner")
        run.assume(z3.And(self.n >= 1, self.dr > 0, self.r_in >= 0))
        self.transforms = []

    def sym_isinstance(self, run, t):
        return isinstance(t, SExternal) and t.name in ("pde.grids.spherical.SphericalSymGridBase", "pde.grids.base.GridBase")

    def sym_getattr(self, run, attr):
        run.trust(f"A-PDE: spherically symmetric grid .{attr}: transform(k, 'cell', 'grid') = r_inner + k * dr")
        if attr == "dim":
            return self.dim
        if attr == "num_axes":
            return 1
        if attr == "shape":
            return (self.n,)
        if attr == "discretization":
            return SArr([self.dr])
        if attr == "axes_coords":
            # cell centres r_k = r_inner + (k + 1/2) dr, k = 0..N-1 (indexing beyond the last cell is an IndexError)
            return (SSeq(self.n, lambda k: self.r_in + (z3.ToReal(to_z3(k)) + z3.RealVal("1/2")) * self.dr, "axes_coords[0]", "array"),)
        if attr == "transform":
            def tr(run2, a, k):
                src, tgt = (list(a[1:3]) + [None, None])[:2]
                src, tgt = k.get("source", src), k.get("target", tgt)
                if src == "cell" and tgt == "grid" and is_num(a[0]):
                    val = self.r_in + to_real(a[0]) * self.dr
                    self.transforms.append(a[0])
                    return Flat1(val)
                raise Undecided("grid.transform other than a cell index -> grid")
            return SNative(tr, "grid.transform")
        return _MISSING


class Flat1:
    """array with one entry"""

    def __init__(self, v):
        self.v = v

    def sym_getattr(self, run, attr):
        if attr == "flat":
            return self
        return _MISSING

    def sym_getitem(self, run, idx):
        if const_of(idx) in (0, -1):
            return self.v
        raise Undecided("index into a one-element array")


class SSliceObj:
    def __init__(self, k):
        self.k = k

    def sym_getattr(self, run, attr):
        if attr == "start":
            return START(self.k)
        if attr == "stop":
            return STOP(self.k)
        return _MISSING


@models.external("scipy.ndimage.find_objects")
def _find_objects(engine, run, a, k):
    g = run.ghost.get("sph")
    if g is None:
        raise Undecided("ndimage.find_objects outside the spherical contract")
    n = g["n_obj"]
    run.trust("ASSUMED (scipy.ndimage.find_objects on a 1-d label image): object k (label k+1) occupies the cells [start_k, stop_k), "
              "0 <= start_k < stop_k <= N, and the objects are ordered and separated: stop_k < start_{k+1}")
    return SSeq(n, lambda i: (SSliceObj(to_z3(i)),), "objects", "list")


class SphLoop(LoopSpec):
    """for slices in object_slices: `droplet` is set exactly when an object starting at cell 0 has been seen (that can only be object 0)"""
    force = True
    keep = ()

    def init_ghost(self, run, env):
        pass

    def havoc(self, run, env):
        g = run.ghost["sph"]
        g["has"] = run.fresh_bool("droplet_is_set")
        g["radius"] = run.fresh_real("droplet_radius")
        # `droplet` is None or a SphericalDroplet(origin, radius): represented by the ghost pair (has, radius)
        env["droplet"] = MaybeDroplet(g["has"], g["radius"], g)

    def invariant(self, run, env, i, seq):
        g = run.ghost["sph"]
        d = env["droplet"]
        if d is None:
            has, rad = z3.BoolVal(False), z3.RealVal(0)
        elif isinstance(d, MaybeDroplet):
            has, rad = d.has, d.radius
        elif isinstance(d, SObj):
            args, kw = d.fields["_ctor"]
            has, rad = z3.BoolVal(True), to_real(kw.get("radius", args[1] if len(args) > 1 else 0))
            origin = args[0] if args else kw.get("position")
            yield ("the droplet is placed at the origin", z3.BoolVal(isinstance(origin, models.SStack) or isinstance(origin, (SArr, SCell)) or origin is not None))
        else:
            yield ("`droplet` is None or a SphericalDroplet", z3.BoolVal(False))
            return
        grid = g["grid"]
        yield ("a droplet is set exactly when an object that starts at the origin has been processed (only object 0 can)",
               has == z3.And(i >= 1, START(0) == 0))
        yield ("its radius is the outer edge of the last cell of that object: r_inner + stop * dr", z3.Implies(has, rad == grid.r_in + z3.ToReal(STOP(0)) * grid.dr))


class MaybeDroplet:
    def __init__(self, has, radius, g):
        self.has, self.radius, self.g = has, radius, g

    def sym_truth(self, E):
        return self.has


LOOPS[(KEY_SPH, 0)] = SphLoop()


@register
class LocateSpherical(Contract):
    key = KEY_SPH
    modular = False

    def cases(self):
        return [dict(dim=2), dict(dim=3)]

    def setup(self, run, case):
        from .structure import SFField
        grid = SRadGrid(run, case["dim"])
        data = SCell(run.input_bool("cell_is_set"), "cells", kind="bool")
        mask = SFField(grid, data)
        n = run.input_int("num_labels")
        run.assume(n >= 0)
        k = z3.Int("ok")
        # assumed find_objects / label facts for a 1-d image
        run.assume(z3.ForAll([k], z3.Implies(z3.And(k >= 0, k < n), z3.And(START(k) >= 0, START(k) < STOP(k), STOP(k) <= grid.n,
                                                                             z3.Implies(k + 1 < n, STOP(k) < START(k + 1))))))
        st = LState(run, 1, n, [grid.n])
        run.ghost["cart"] = dict(st=st, mask_data=data, cell_volume=z3.RealVal(1), relabels=[], shifts=[], done=[], grid=grid)
        run.ghost["sph"] = dict(n_obj=n, grid=grid)
        models.CONSTRUCTORS["Emulsion"] = _em_ctor
        models.CONSTRUCTORS["SphericalDroplet"] = _sd_ctor
        self.ctx = dict(run=run, grid=grid, n=n)
        return dict(mask=mask)

    def post(self, a, ret, case):
        c = self.ctx
        run, grid, n = c["run"], c["grid"], c["n"]
        if not isinstance(ret, EmRec):
            return [("returns an Emulsion", False)]
        at_origin = z3.And(n >= 1, START(0) == 0)
        if ret.kind == "empty":
            return [("an empty emulsion is returned exactly when no cluster starts at the origin", z3.Not(at_origin))]
        src = ret.source_seq
        ok = isinstance(src, list) and len(src) == 1
        out = [("a cluster that starts at the origin gives exactly one droplet", z3.And(z3.BoolVal(bool(ok)), at_origin))]
        if ok:
            d = src[0]
            if isinstance(d, MaybeDroplet):
                out.append(("its radius is the outer edge of the cluster's last cell: r_inner + stop * dr", d.radius == grid.r_in + z3.ToReal(STOP(0)) * grid.dr))
            elif isinstance(d, SObj) and "_ctor" in d.fields:
                args, kw = d.fields["_ctor"]
                out.append(("its radius is the outer edge of the cluster's last cell: r_inner + stop * dr",
                            to_real(kw.get("radius", args[1] if len(args) > 1 else 0)) == grid.r_in + z3.ToReal(STOP(0)) * grid.dr))
            else:
                out.append(("the member is the droplet built in the loop", False))
        return out


@register
class RadialHalfCell(Lemma):
    """consequences of `cell k is set <=> its centre (k + 1/2) dr lies inside the droplet` (C03 contract) for the located radius stop * dr"""
    name = "radial-extent-within-half-a-spacing"

    def obligations(self):
        R, dr = z3.Reals("R dr")
        stop, k = z3.Ints("stop k")
        covered = lambda j: (z3.ToReal(j) + z3.RealVal("1/2")) * dr < R     # noqa: E731
        # the rendered mask is {k : covered(k)}, an initial segment; its single object is [0, stop)
        yield ("|stop * dr - R| <= dr / 2 for the object [0, stop) of a centred droplet",
               [dr > 0, R > 0, stop >= 1, covered(stop - 1), z3.Not(covered(stop))],
               z3.And(z3.ToReal(stop) * dr - R <= dr / 2, R - z3.ToReal(stop) * dr <= dr / 2))
        a, b = z3.Reals("xa xb")
        c, h = z3.Reals("c h")
        yield ("1-d half-cell lemma: the midpoint of the covered run of cell centres x_a..x_b (spacing h) lies within h/2 of the centre",
               [h > 0, R > 0, a <= b, a > c - R, a - h <= c - R, b < c + R, b + h >= c + R],
               z3.And((a + b) / 2 - c < h / 2, c - (a + b) / 2 < h / 2))
        m1, m2, w1, w2 = z3.Reals("m1 m2 w1 w2")
        yield ("a weighted mean of two values within h/2 of c lies within h/2 of c (induction step for the centre of mass over rows)",
               [h > 0, w1 > 0, w2 > 0, m1 - c < h / 2, c - m1 < h / 2, m2 - c < h / 2, c - m2 < h / 2],
               z3.And((w1 * m1 + w2 * m2) - c * (w1 + w2) < h / 2 * (w1 + w2), c * (w1 + w2) - (w1 * m1 + w2 * m2) < h / 2 * (w1 + w2)))


# =====================================================================================================================
# locate_droplets_in_mask: grid-family dispatch
@register
class LocateInMaskDispatch(Contract):
    key = f"{IA}:locate_droplets_in_mask"
    variant = "dispatch"
    modular = False

    def cases(self):
        return [dict(grid=g) for g in ("cartesian", "spherical", "cylindrical", "other-grid", "not-a-grid")]

    def setup(self, run, case):
        from .structure import SFField

        class G:
            def __init__(self, kind):
                self.kind = kind

            def sym_isinstance(self, run2, t):
                names = {"cartesian": ("pde.grids.cartesian.CartesianGrid", "pde.grids.CartesianGrid", "pde.grids.base.GridBase"),
                         "spherical": ("pde.grids.spherical.SphericalSymGridBase", "pde.grids.base.GridBase"),
                         "cylindrical": ("pde.grids.cylindrical.CylindricalSymGrid", "pde.grids.CylindricalSymGrid", "pde.grids.base.GridBase"),
                         "other-grid": ("pde.grids.base.GridBase",), "not-a-grid": ()}[self.kind]
                return isinstance(t, SExternal) and t.name in names
        mask = SFField(G(case["grid"]), SCell(run.input_bool("cell_is_set"), "cells", kind="bool"))
        self.ctx = (run, mask)
        run.ghost["dispatch"] = []
        return dict(mask=mask)

    def raises(self, a, exc, case):
        want = {"other-grid": "NotImplementedError", "not-a-grid": "ValueError"}.get(case["grid"])
        return [(f"only unsupported grids raise, with the documented error (raised {exc.cls_name})", exc.cls_name == want)]

    def post(self, a, ret, case):
        run, mask = self.ctx
        calls = run.ghost["dispatch"]
        want = {"cartesian": KEY_CART, "spherical": KEY_SPH, "cylindrical": f"{IA}:_locate_droplets_in_mask_cylindrical"}.get(case["grid"])
        if want is None:
            return [("an unsupported grid must raise", False)]
        return [("the image is handed, unchanged, to the function for its grid family, whose result is returned",
                 len(calls) == 1 and calls[0][0] == want and calls[0][1] == [mask] and ret is calls[0][2])]


def _mk_dispatch_target(key):
    class T(Contract):
        variant = "dispatch-target"
        call_site = True

        def cases(self):
            return []

        def apply(self, engine, run, fi, args, kwargs):
            if "dispatch" not in run.ghost:
                return NotImplemented
            res = SOpaque("result of " + key)
            run.ghost["dispatch"].append((key, list(args), res))
            return res
    T.key = key
    T.__name__ = "DispatchTarget_" + key.rsplit("_", 1)[-1]
    return register(T)


for _k in (KEY_CART, KEY_SPH, f"{IA}:_locate_droplets_in_mask_cylindrical"):
    _mk_dispatch_target(_k)


# =====================================================================================================================
# cylindrical grids: _locate_droplets_in_mask_cylindrical_single and the periodic wrapper
KEY_CYS = f"{IA}:_locate_droplets_in_mask_cylindrical_single"
KEY_CYL = f"{IA}:_locate_droplets_in_mask_cylindrical"
SR0, SR1 = z3.Function("object_r_start", I, I), z3.Function("object_r_stop", I, I)
SZ0, SZ1 = z3.Function("object_z_start", I, I), z3.Function("object_z_stop", I, I)
ONCNT = z3.Function("on_axis_objects_among_first", I, I)       # j -> #{k < j : object k touches the axis}
ONELEM = z3.Function("pth_on_axis_object", I, I)               # p -> index k of the p-th on-axis object
COMZ = z3.Function("mean_z_index_of_object", I, Rl)
COMR = z3.Function("mean_r_index_of_object", I, Rl)
VOLSUM = z3.Function("summed_cell_volume_of_object", I, Rl)


def on_axis(k):
    return SR0(k) == 0


def on_axis_facts(n, at):
    out = [ONCNT(0) == 0]
    for j in at:
        out += [ONCNT(j + 1) == ONCNT(j) + z3.If(on_axis(j), 1, 0), ONCNT(j) >= 0,
                z3.Implies(z3.And(j >= 0, j <= n), ONCNT(j) <= ONCNT(n)),
                z3.Implies(z3.And(j >= 0, on_axis(j)), ONELEM(ONCNT(j)) == j)]
    return out


class SCylGrid:
    def __init__(self, run, periodic_z):
        self.dim = 3
        self.nr, self.nz = run.input_int("N_r"), run.input_int("N_z")
        self.dz, self.z0 = run.input_real("dz"), run.input_real("z_min")
        run.assume(z3.And(self.nr >= 1, self.nz >= 1, self.dz > 0))
        self.periodic_z = periodic_z
        self.calls = []

    def sym_isinstance(self, run, t):
        return isinstance(t, SExternal) and t.name in ("pde.grids.cylindrical.CylindricalSymGrid", "pde.grids.CylindricalSymGrid", "pde.grids.base.GridBase")

    def sym_getattr(self, run, attr):
        run.trust(f"A-PDE: CylindricalSymGrid.{attr}: axes (r, z); transform(cell -> cartesian) maps the z cell coordinate c to z_min + c * dz; "
                  "cell_volume_data = (r-dependent ring volumes, dz)")
        if attr == "dim":
            return 3
        if attr == "num_axes":
            return 2
        if attr == "shape":
            return (self.nr, self.nz)
        if attr == "periodic":
            return [False, self.periodic_z]
        if attr == "axes_bounds":
            return ((z3.RealVal(0), run.input_real("r_outer")), (self.z0, self.z0 + z3.ToReal(self.nz) * self.dz))
        if attr == "length":
            return z3.ToReal(self.nz) * self.dz
        if attr == "cell_volume_data":
            return (SOpaque("vol_r"), SOpaque("dz-array"))
        if attr == "transform":
            def tr(run2, a, k):
                src, tgt = (list(a[1:3]) + [None, None])[:2]
                src, tgt = k.get("source", src), k.get("target", tgt)
                self.calls.append(("transform", a[0], src, tgt))
                if isinstance(a[0], CylPos) and src == "cell" and tgt == "cartesian":
                    return CylPos(a[0].offset, transformed=self)
                raise Undecided(f"grid.transform({src} -> {tgt}) of {type(a[0]).__name__}")
            return SNative(tr, "grid.transform")
        return _MISSING


class CylPos:
    """center_of_mass(mask, labels, index=indices) (+ offset) (transformed): row p belongs to the p-th on-axis object"""

    def __init__(self, offset=0, transformed=None):
        self.offset, self.transformed = offset, transformed

    def sym_binop(self, run, op, other, reflected):
        if isinstance(op, ast.Add) and is_num(other) and self.transformed is None:
            return CylPos(ops.binop(run, ast.Add(), self.offset, other), None)
        return NotImplemented

    def row(self, p):
        k = ONELEM(to_z3(p))
        if self.transformed is None:
            return SArr([COMR(k) + to_real(self.offset), COMZ(k) + to_real(self.offset)])
        g = self.transformed
        # cartesian point of the cell coordinate: (x, y, z) with z = z_min + (z cell coordinate) * dz; x, y are not used by the code
        return SArr([z3.Real("cart_x"), z3.Real("cart_y"), g.z0 + (COMZ(k) + to_real(self.offset)) * g.dz])

    def sym_iter(self, run):
        n_on = run.ghost["cyl"]["n_on"]
        return SSeq(n_on, lambda p: self.row(p), "positions", "iter")


class CylVol:
    def sym_iter(self, run):
        n_on = run.ghost["cyl"]["n_on"]
        return SSeq(n_on, lambda p: VOLSUM(ONELEM(to_z3(p))), "volumes", "iter")


def _cyl(run):
    return run.ghost.get("cyl")


_cart_label, _cart_com, _cart_sum, _cart_find = (models.EXTERNALS[k_] for k_ in ("scipy.ndimage.label", "scipy.ndimage.center_of_mass", "scipy.ndimage.sum",
                                                                                   "scipy.ndimage.find_objects"))


@models.external("scipy.ndimage.label")
def _nd_label2(engine, run, a, k):
    g = _cyl(run)
    if g is None:
        return _cart_label(engine, run, a, k)
    ok = a[0] is g["mask"] and len(a) == 1 and not k
    run.oblige("the given image itself is labelled", z3.BoolVal(bool(ok)), kind="requires", assume_after=False)
    run.trust("ASSUMED (scipy.ndimage.label): labels the face-connected components 1..n")
    g["labels"] = SOpaque("labels")
    return (g["labels"], g["n"])


@models.external("scipy.ndimage.find_objects")
def _find_objects2(engine, run, a, k):
    g = _cyl(run)
    if g is None:
        return _cart_find(engine, run, a, k)
    run.trust("ASSUMED (scipy.ndimage.find_objects, 2-d): entry k is the bounding box (r-slice, z-slice) of the object with label k+1")

    class Sl:
        def __init__(self, lo, hi):
            self.lo, self.hi = lo, hi

        def sym_getattr(self, run2, attr):
            return {"start": self.lo, "stop": self.hi}.get(attr, _MISSING)
    return SSeq(g["n"], lambda i: (Sl(SR0(to_z3(i)), SR1(to_z3(i))), Sl(SZ0(to_z3(i)), SZ1(to_z3(i)))), "objects", "list")


@models.external("scipy.ndimage.center_of_mass")
def _nd_com2(engine, run, a, k):
    g = _cyl(run)
    if g is None:
        return _cart_com(engine, run, a, k)
    idx = k.get("index", a[2] if len(a) > 2 else None)
    ok = a[0] is g["mask"] and a[1] is g["labels"] and isinstance(idx, IndexList)
    run.oblige("the centre of mass is taken of the binary image, per on-axis label", z3.BoolVal(bool(ok)), kind="requires", assume_after=False)
    run.trust("ASSUMED (scipy.ndimage.center_of_mass): row p is the mean index of the cells with the p-th requested label")
    g["com"] = True
    return CylPos()


@models.external("scipy.ndimage.sum", "scipy.ndimage.sum_labels")
def _nd_sum2(engine, run, a, k):
    g = _cyl(run)
    if g is None:
        return _cart_sum(engine, run, a, k)
    idx = k.get("index", a[2] if len(a) > 2 else None)
    ok = a[0] is g.get("cell_volumes") and a[1] is g["labels"] and isinstance(idx, IndexList)
    run.oblige("the volume is the sum of the CELL VOLUMES (ring volume x dz) over the object's cells, per on-axis label", z3.BoolVal(bool(ok)),
               kind="requires", assume_after=False)
    run.trust("ASSUMED (scipy.ndimage.sum_labels): entry p is the sum of the input over the cells with the p-th requested label")
    g["sum"] = True
    return CylVol()


@models.external("numpy.outer")
def _np_outer(engine, run, a, k):
    g = _cyl(run)
    if g is None or not (isinstance(a[0], SOpaque) and a[0].tag == "vol_r" and isinstance(a[1], SOpaque) and a[1].tag == "dz-array"):
        raise Undecided("np.outer of something else than the cylindrical cell volume factors")
    g["cell_volumes"] = SOpaque("cell_volumes")
    return g["cell_volumes"]


class IndexList:
    """`indices`: the labels (k + 1) of the on-axis objects seen so far, in order"""

    def __init__(self, length):
        self.length = length
        self.appended = []

    def sym_len(self, run):
        return self.length

    def sym_truth(self, E):
        return to_z3(self.length) > 0

    def sym_getattr(self, run, attr):
        if attr == "append":
            def app(run2, a, k):
                self.appended.append(a[0])
                self.length = to_z3(self.length) + 1
            return SNative(app, "list.append")
        return _MISSING


class CylObjLoop(LoopSpec):
    force = True

    def init_ghost(self, run, env):
        pass

    def havoc(self, run, env):
        env["indices"] = IndexList(run.fresh_int("n_indices"))

    def invariant(self, run, env, j, seq):
        g = run.ghost["cyl"]
        for f in on_axis_facts(g["n"], [j, j - 1]):
            run.define(f, "filter count / enumeration facts (on-axis objects)")
        ind = env["indices"]
        if isinstance(ind, list):
            yield ("`indices` lists the on-axis objects seen so far", z3.And(z3.BoolVal(len(ind) == 0), ONCNT(j) == 0))
        elif isinstance(ind, IndexList):
            yield ("`indices` lists the on-axis objects seen so far", to_z3(ind.length) == ONCNT(j))
        else:
            yield ("`indices` is a list", z3.BoolVal(False))

    def before_body(self, run, env, j, seq):
        ind = env["indices"]
        if isinstance(ind, IndexList):
            ind.appended.clear()
        run.ghost["cyl"]["cur"] = j

    def after_body(self, run, env, j, seq):
        ind = env["indices"]
        apps = ind.appended if isinstance(ind, IndexList) else None
        if apps is None:
            return
        run.oblige("an object's label (its position + 1) is appended to `indices` exactly when its bounding box starts at the symmetry axis (r-index 0)",
                   z3.And(z3.BoolVal(len(apps) <= 1), z3.BoolVal(len(apps) == 1) == on_axis(j), *([to_z3(apps[0]) == j + 1] if len(apps) == 1 else [])),
                   kind="ensures", assume_after=False)


LOOPS[(KEY_CYS, 0)] = CylObjLoop()


@register
class LocateCylSingle(Contract):
    key = KEY_CYS
    modular = False

    def cases(self):
        return [dict()]

    def setup(self, run, case):
        grid = SCylGrid(run, False)
        mask = SOpaque("mask")
        n = run.input_int("num_features")
        run.assume(n >= 0)
        k = z3.Int("fk")
        run.assume(z3.ForAll([k], z3.And(SR0(k) >= 0, SR0(k) < SR1(k), SZ0(k) >= 0, SZ0(k) < SZ1(k))))
        n_on = run.input_int("n_on_axis")
        run.assume(n_on == ONCNT(n))
        run.ghost["cyl"] = dict(mask=mask, n=n, n_on=n_on, grid=grid)
        models.CONSTRUCTORS["Emulsion"] = _em_ctor
        models.CONSTRUCTORS["SphericalDroplet"] = _sd_ctor
        self.ctx = dict(run=run, grid=grid, n=n, n_on=n_on)
        return dict(grid=grid, mask=mask)

    def raises(self, a, exc, case):
        c = self.ctx
        run = c["run"]
        j = run.ghost["cyl"].get("cur")
        if exc.cls_name == "_SpanningDropletSignal" and j is not None:
            return [("the spanning signal is raised only for an on-axis object whose z-extent starts at 0 and reaches beyond the grid's z-length",
                     z3.And(on_axis(j), SZ0(j) == 0, SZ1(j) > c["grid"].nz))]
        return [(f"no other exception escapes (raised {exc.cls_name})", False)]

    def post(self, a, ret, case):
        c = self.ctx
        run, grid, n, n_on = c["run"], c["grid"], c["n"], c["n_on"]
        g = run.ghost["cyl"]
        for f in on_axis_facts(n, [n]):
            run.define(f, "filter facts")
        if not isinstance(ret, EmRec):
            return [("returns an Emulsion", False)]
        if ret.kind == "empty":
            return [("an empty emulsion is returned exactly when no object touches the symmetry axis (this includes the image without set cells)", n_on == 0)]
        out = [("with an on-axis object the result is not the empty-emulsion shortcut", n_on >= 1)]
        src = ret.source_seq
        ok = isinstance(src, SSeq)
        out.append(("one droplet per on-axis object, in label order", z3.And(z3.BoolVal(bool(ok)), to_z3(src.length) == n_on) if ok else False))
        if ok:
            p = z3.Int("sk_obj")
            v = src.at(p)
            good = isinstance(v, CandRec) and isinstance(v.position, (SArr, list)) and z3.is_expr(v.volume)
            out.append(("droplet p is SphericalDroplet.from_volume(position, volume) of the p-th on-axis object", bool(good)))
            if good:
                pos = v.position.elems if isinstance(v.position, SArr) else list(v.position)
                kk = ONELEM(p)
                out.append(("it lies on the symmetry axis: x = y = 0", z3.And(to_real(pos[0]) == 0, to_real(pos[1]) == 0) if len(pos) == 3 else False))
                out.append(("its z is the mean z of the cell CENTRES of the object: z_min + (mean z index + 1/2) * dz",
                            to_real(pos[2]) == grid.z0 + (COMZ(kk) + z3.RealVal("1/2")) * grid.dz if len(pos) == 3 else False))
                out.append(("its volume is the summed cell volume of the object", v.volume == VOLSUM(kk)))
        out.append(("centre of mass and volume sums are taken per on-axis label of the labelled image", bool(g.get("com") and g.get("sum"))))
        return out


_prev_nparray_lm = models.EXTERNALS["numpy.array"]


def _nparray_lm(engine, run, a, k):
    if run.ghost.get("cyl") is not None and a and isinstance(a[0], list) and len(a[0]) == 3 and not k:
        return SArr(list(a[0]))
    return _prev_nparray_lm(engine, run, a, k)


models.EXTERNALS["numpy.array"] = _nparray_lm
_prev_asarray_lm = models.EXTERNALS["numpy.asarray"]


def _asarray_lm(engine, run, a, k):
    if a and isinstance(a[0], (CylPos, CylVol)):
        return a[0]
    return _prev_asarray_lm(engine, run, a, k)


models.EXTERNALS["numpy.asarray"] = _asarray_lm


# ---- the wrapper: periodic z by padding, spanning fallback, overlap removal ---------------------------------------------------------
ZCAND = z3.Function("z_of_candidate", I, Rl)


class PaddedMask:
    def __init__(self, base, pad, mode, nr, nz):
        self.base, self.pad, self.mode, self.nr, self.nz = base, pad, mode, nr, nz

    def sym_getattr(self, run, attr):
        if attr == "shape":
            p = self.pad
            try:
                (r0, r1), (z0, z1) = p
                return (self.nr + to_z3(r0) + to_z3(r1), self.nz + to_z3(z0) + to_z3(z1))
            except Exception:   # noqa: BLE001
                raise Undecided("np.pad with another padding specification")
        return _MISSING


@models.external("numpy.pad")
def _np_pad(engine, run, a, k):
    g = run.ghost.get("cylw")
    if g is None:
        raise Undecided("np.pad outside the cylindrical wrapper contract")
    pm = PaddedMask(a[0], a[1] if len(a) > 1 else k.get("pad_width"), k.get("mode", a[2] if len(a) > 2 else "constant"), g["grid"].nr, g["grid"].nz)
    g["pads"].append(pm)
    run.trust("ASSUMED (numpy.pad, mode='wrap'): the image is continued periodically by the given number of cells on each side")
    return pm


class CandList(EmRec):
    """what _locate_droplets_in_mask_cylindrical_single returns (its own contract is verified separately): candidates on the axis"""

    def __init__(self, run, n):
        super().__init__(None, None, {}, kind="candidates")
        self.n = n
        self.cells = {}

    def cand(self, i):
        i = to_z3(i)
        key = i.get_id()
        if key not in self.cells:
            pos = SArr([z3.RealVal(0), z3.RealVal(0), ZCAND(i)])
            d = Sym(f"candidate[{i}]", term=i, attrs={"position": pos})
            d.index, d.pos = i, pos
            self.cells[key] = d
        return self.cells[key]

    def sym_iter(self, run):
        return SSeq(self.n, lambda i: self.cand(i), "candidates", "list")

    def sym_len(self, run):
        return self.n - self.n_removed if self.calls else self.n


from .io import Sym   # noqa: E402


@register
class CylSingleCall(Contract):
    key = KEY_CYS
    variant = "call"
    call_site = True

    def cases(self):
        return []

    def apply(self, engine, run, fi, args, kwargs):
        g = run.ghost.get("cylw")
        if g is None:
            return NotImplemented
        g["single_calls"].append(list(args))
        run.trust(f"contract:{KEY_CYS} (verified separately): one on-axis candidate per on-axis object of the given image, or the spanning signal")
        if g["spanning"] and len(g["single_calls"]) == 1 and isinstance(args[1], PaddedMask):
            raise SymRaise(SExc("_SpanningDropletSignal", ()))
        cl = CandList(run, run.fresh_int("n_candidates"))
        run.assume(cl.n >= 0)
        g["cand_lists"].append(cl)
        return cl


class CylKeepLoop(LoopSpec):
    force = True

    def invariant(self, run, env, i, seq):
        return []

    def before_body(self, run, env, i, seq):
        g = run.ghost["cylw"]
        em = env["droplets"]
        g["n_app0"] = len(em.calls) if isinstance(em, EmRec) else 0

    def after_body(self, run, env, i, seq):
        g = run.ghost["cylw"]
        grid = g["grid"]
        em = env["droplets"]
        d = seq.at(i)
        z_new = to_real(d.pos.elems[2])
        L = z3.ToReal(grid.nz) * grid.dz
        run.oblige("a candidate of the padded image is moved back by exactly one period (the left padding), once", z_new == ZCAND(d.index) - L,
                   kind="ensures", assume_after=False)
        apps = [c for c in (em.calls[g["n_app0"]:] if isinstance(em, EmRec) else []) if c[0] == "append"]
        inside = z3.And(z_new >= grid.z0, z_new < grid.z0 + L)
        run.oblige("the candidate is kept exactly when its centre lies in the half-open box [z_min, z_max) - every periodic image is represented once",
                   z3.And(z3.BoolVal(len(apps) <= 1 and all(c[1] == [d] and not c[2] for c in apps)), z3.BoolVal(len(apps) == 1) == inside),
                   kind="ensures", assume_after=False)


LOOPS[(KEY_CYL, 0)] = CylKeepLoop()


@register
class LocateCylWrapper(Contract):
    key = KEY_CYL
    variant = "wrapper"
    modular = False

    def cases(self):
        return [dict(periodic=False, spanning=False), dict(periodic=True, spanning=False), dict(periodic=True, spanning=True)]

    def setup(self, run, case):
        from .structure import SFField
        grid = SCylGrid(run, case["periodic"])
        data = SOpaque("mask.data")
        mask = SFField(grid, data)
        run.ghost["cylw"] = dict(grid=grid, data=data, pads=[], single_calls=[], cand_lists=[], spanning=case["spanning"])
        models.CONSTRUCTORS["Emulsion"] = _em_ctor
        self.ctx = dict(run=run, grid=grid, mask=mask, data=data)
        return dict(mask=mask)

    def post(self, a, ret, case):
        c = self.ctx
        run, grid, data = c["run"], c["grid"], c["data"]
        g = run.ghost["cylw"]
        sc = g["single_calls"]
        out = []
        if case["periodic"]:
            ok = len(g["pads"]) == 1 and g["pads"][0].base is data and g["pads"][0].mode == "wrap"
            out.append(("with periodic z the image is continued periodically (wrap) ...", bool(ok)))
            if ok:
                p = g["pads"][0].pad
                try:
                    (r0, r1), (z0_, z1_) = p
                    out.append(("... by one full period on both sides of the z-axis and not at all along r",
                                z3.And(to_z3(r0) == 0, to_z3(r1) == 0, to_z3(z0_) == grid.nz, to_z3(z1_) == grid.nz)))
                except Exception:   # noqa: BLE001
                    out.append(("... by one full period on both sides of the z-axis and not at all along r", False))
            out.append(("the padded image is analysed first, on the same grid", len(sc) >= 1 and sc[0][0] is grid and bool(g["pads"]) and sc[0][1] is g["pads"][0]))
        if case["periodic"] and not case["spanning"]:
            out.append(("no second analysis is made when the padded one succeeds", len(sc) == 1))
            ok = isinstance(ret, EmRec) and ret.kind == "ctor" and not ret.source_seq
            out.append(("the result is a new emulsion holding the kept candidates", bool(ok)))
            if ok:
                ro = [c_ for c_ in ret.calls if c_[0] != "append"]
                out.append(("overlapping kept candidates (duplicates) are removed once before returning", len(ro) == 1 and ro[0][0] == [] and not ro[0][1]))
        else:
            out.append(("the image itself (unpadded) is analysed on its grid" + (" after the spanning signal" if case["spanning"] else ""),
                        len(sc) == (2 if case["spanning"] else 1) and sc[-1][0] is grid and sc[-1][1] is data))
            ok = isinstance(ret, CandList) and g["cand_lists"] and ret is g["cand_lists"][-1]
            out.append(("its candidates are returned ...", bool(ok)))
            if ok:
                out.append(("... after overlapping ones have been removed, once", len(ret.calls) == 1 and ret.calls[0][0] == [] and not ret.calls[0][1]))
        return out
