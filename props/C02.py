"""C02 -- each located droplet is one connected component under the grid's topology."""
from contracts import emulsions as em, locmask as lm

LEVEL = "other"
LEVEL_TEXT = ("_locate_droplets_in_mask_cartesian is verified as a whole for dimensions 1-3 and every periodicity mask (14 cases; any image size, any "
              "number of clusters): against ASSUMED contracts of scipy.ndimage (label = face-connected components, center_of_mass = mean index, sum "
              "= cell count) the periodic stitching loop is cut by invariants over a symbolic labelling state with ghost counts and ghost means "
              "(quantifier-free: hypotheses instantiated at the current pair, Skolem cells / label / pair index; goals proved at the Skolem terms): "
              "labels stay in range; volume of a live label == cell volume * its number of cells; position of a live label == mean over its cells "
              "of (index + 1/2 + periods moved * cells per period); cells of one initial component keep one label and one shift; every scanned "
              "pair of facing boundary cells that are both set ends up with one label; after each merge the upper boundary cell lies exactly "
              "one cell below the lower one in unwrapped coordinates (the obligation that found defect F6); the nonlinear core of the merge "
              "(volume-weighted mean == count-weighted mean of the component means) is discharged separately from the array reasoning. Post: "
              "every periodic axis is scanned completely and once; one candidate per label still present, made by from_volume with the "
              "component's volume and its mean unwrapped cell centre in grid coordinates (wrapped by whole periods on periodic axes); overlap "
              "removal is called once with the grid's metric (its clauses are C10's contract, verified here too); an image without set cells "
              "gives the empty emulsion. Ghost update laws (counts add up, mean of a disjoint union is the count-weighted mean: A-SUM) are "
              "trusted mathematics. That the label classes are exactly the periodic connected components for NON-winding components at the "
              "skipped pairs is topology (not applicable to contracts); it, the ndimage contracts and the cylindrical variants are covered by "
              "the exhaustive small-image comparison with an independent periodic flood fill (bounded). Cylindrical grids: _locate_droplets_in_mask_cylindrical_single is verified as a whole (filter invariant: `indices` are the labels of the objects whose bounding box starts at the axis; none -> empty emulsion; one droplet per on-axis object at x = y = 0, z = z_min + (mean z index + 1/2) dz, volume = summed CELL volumes; the spanning signal only for an on-axis object reaching beyond the grid's z-length) and so is the periodic wrapper (wrap-padding by one period on both sides of z only, candidates moved back by exactly one period, kept exactly in the half-open box [z_min, z_max), duplicates removed once; spanning signal or non-periodic z: the unpadded image is analysed and overlapping candidates are removed once) - the obligations that fail when fixes F1, F2, F15, F16 are reverted. The two KNOWN findings of the periodic cylinder (spanning fallback, Euclidean overlap metric) are properties of that design, not of a single function contract, and show in the bounded comparison only. Hence level 'other'.")
LEVEL_NOTE = ("ASSUMED: scipy.ndimage.label / center_of_mass / sum on binary images; numpy masked assignment, np.unique, itertools.product order; "
              "A-SUM (finite sums over disjoint cell sets); A-PDE: transform(cell->grid) affine, normalize_point wraps by whole periods; contract of "
              "SphericalDroplet.from_volume (C12) and Emulsion.remove_overlapping (C10); induction over loop iterations from the invariants; "
              "numpy.pad(wrap), ndimage.find_objects / sum_labels contracts; A-FP; cylindrical grids: two KNOWN FINDINGS (spanning fallback, Euclidean overlap metric on periodic z)")
CONTRACTS = [lm.LocateCartesian().ident, lm.LocateCylSingle().ident, lm.LocateCylWrapper().ident, em.RemoveOverlapping().ident, em.Overlaps().ident]
LEMMAS = ["strictly-largest-droplet-survives"]
CLAUSES = {"droplets <-> connected components (faces + periodic boundaries), one-to-one": "merge invariants proved; equality with the periodic components "
           "for non-winding shapes: bounded (exhaustive <= 4x4, 3x2x2; 6000 random)",
           "volume == component's total cell volume": "proved (ghost counts)",
           "position == centre of mass of the unwrapped component (mod period)": "proved for the unwrapping the code constructs; consistency at skipped pairs: bounded",
           "returned droplets never overlap; a component is left out only for a larger overlapping one": "C10 contract (proved) + call-site clause (proved)",
           "cylindrical grids": "both functions proved (function level); equality with the periodic components bounded; known findings listed in known_findings.jsonl"}
BOUNDED = [lm.ImageEnumeration()]
