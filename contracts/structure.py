"""Contracts for get_structure_factor / get_length_scale (C16, C17).

Arrays over the grid are evaluated at ONE Skolem multi-index (i_0, ..., i_{d-1}) (A-arrays of DESIGN 2.3): an array is a value at
that index plus the name of its index space.  `x.flat[1:]` keeps the multi-index and adds `index != (0, ..., 0)` (C order: the
first flat entry is the all-zero multi-index).  The discrete Fourier transform is an ASSUMED contract (trusted analysis):

  F = fftn(f, norm="ortho") has the shape of f;  sum_k |F_k|^2 = sum_x f_x^2 (Parseval);  F_0 = sum_x f_x / sqrt(N);
  F is linear in f; fftfreq(n, d)[i] = i/(n d) for i <= (n-1)//2 and (i-n)/(n d) above.

Everything else (normalisation, which entry is paired with which wave number, the 2 pi, the zero mode, smoothing width, requested
wave numbers, add_zero) is verified from the source text."""
from __future__ import annotations

import ast
from fractions import Fraction

import z3

from pyvc import models, ops
from pyvc.contract import Contract, Lemma, register
from pyvc.engine import SymRaise, _MISSING
from pyvc.values import (SArr, SCell, SExc, SExternal, SNative, SOpaque, SSeq, Undecided, const_of, is_num, to_real, to_z3)

IA = "droplets.image_analysis"
CELLS = "sf:cells"          # index space: all multi-indices of the grid
FLAT1 = "sf:cells.flat[1:]"  # the same without the all-zero multi-index, in C order


def fq(i, n):
    """numpy.fft.fftfreq numerator: i for i <= (n-1)//2, else i - n"""
    return z3.If(2 * i <= n - 1, i, i - n)


class SFGrid:
    """Cartesian grid: dim concrete, shape / spacing / lower bounds symbolic"""

    def __init__(self, run, dim, periodic=True, kind="cartesian"):
        self.dim, self.kind = dim, kind
        self.n = [run.input_int(f"n{a}") for a in range(dim)]
        self.dx = [run.input_real(f"dx{a}") for a in range(dim)]
        self.lo = [run.input_real(f"lo{a}") for a in range(dim)]
        self.idx = [run.input_int(f"i{a}") for a in range(dim)]      # the Skolem multi-index
        for a in range(dim):
            run.assume(z3.And(self.n[a] >= 1, self.dx[a] > 0, self.idx[a] >= 0, self.idx[a] < self.n[a]))
        self.periodic = [periodic] * dim if isinstance(periodic, bool) else list(periodic)
        self.h = run.input_real("typical_discretization")
        run.assume(self.h > 0)

    def sym_isinstance(self, run, t):
        if isinstance(t, SExternal):
            if self.kind == "cartesian":
                return t.name in ("pde.grids.cartesian.CartesianGrid", "pde.grids.CartesianGrid", "pde.grids.base.GridBase")
            return t.name == "pde.grids.base.GridBase"
        return False

    def sym_getattr(self, run, attr):
        run.trust(f"A-PDE: CartesianGrid.{attr} (shape, per-axis spacing, bounds, periodicity) as modelled in contracts/structure.py")
        if attr == "dim" or attr == "num_axes":
            return self.dim
        if attr == "shape":
            return tuple(self.n)
        if attr == "discretization":
            return SArr(list(self.dx))
        if attr == "periodic":
            return list(self.periodic)
        if attr == "typical_discretization":
            return self.h
        if attr == "axes_bounds":
            return tuple((self.lo[a], self.lo[a] + z3.ToReal(self.n[a]) * self.dx[a]) for a in range(self.dim))
        if attr == "coordinate_constraints":
            return []
        if attr == "cuboid":
            g = self

            class Cub:
                def sym_getattr(self_inner, run2, attr2):
                    if attr2 == "size":
                        return SMaxable([z3.ToReal(g.n[a]) * g.dx[a] for a in range(g.dim)], "cuboid.size")
                    return _MISSING
            return Cub()
        return _MISSING


class SMaxable(SArr):
    """small concrete-length array with .max()"""

    def __init__(self, elems, name):
        super().__init__(elems)
        self.name = name

    def sym_getattr(self, run, attr):
        if attr == "max":
            def mx(run2, a, k):
                m = run2.fresh_real(f"max_{self.name}")
                run2.define(z3.And(*[m >= to_real(e) for e in self.elems], z3.Or(*[m == to_real(e) for e in self.elems])),
                            "max of a finite array is its largest entry")
                run2.ghost.setdefault("smax", []).append((self, m))
                return m
            return SNative(mx, "ndarray.max")
        return _MISSING


class SFData(SCell):
    """the field data: value at the Skolem multi-index"""


class SFField:
    def __init__(self, grid, data, is_field=True):
        self.grid, self.data, self.is_field = grid, data, is_field

    def sym_getattr(self, run, attr):
        if attr in ("grid", "data"):
            return getattr(self, attr)
        if attr == "__class__":
            class K:
                def sym_getattr(self_inner, run2, attr2):
                    return "ndarray" if attr2 == "__name__" else _MISSING
            return K()
        return _MISSING

    def sym_isinstance(self, run, t):
        return self.is_field and isinstance(t, SExternal) and t.name in ("pde.fields.ScalarField", "pde.fields.scalar.ScalarField")


def _sfctx(run):
    return run.ghost.get("sf")


# --- assumed DFT contract ---------------------------------------------------------------------------------------------
@models.external("numpy.fft.fftn", "pyfftw.interfaces.numpy_fft.fftn", "scipy.fft.fftn")
def _fftn(engine, run, a, k):
    g = _sfctx(run)
    if g is None or a[0] is not g["data"]:
        raise Undecided("fftn of something that is not the analysed field's data")
    g["fft_calls"].append(dict(norm=k.get("norm"), extra=[kk for kk in k if kk != "norm"] + list(a[1:])))
    run.trust("ASSUMED (DFT): fftn(f, norm='ortho') has the shape of f; Parseval; F_0 = sum(f)/sqrt(N); linearity")
    return SCell(models.SComplex(g["Fre"], g["Fim"]), CELLS)


@models.external("numpy.abs", "numpy.absolute")
def _npabs(engine, run, a, k):
    v = a[0]
    if isinstance(v, SCell) and isinstance(v.v, models.SComplex):
        c = v.v
        s = ops.binop(run, ast.Add(), ops.binop(run, ast.Mult(), c.re, c.re), ops.binop(run, ast.Mult(), c.im, c.im))
        return SCell(ops.real_sqrt(run, s, "abs of a complex number"), v.space)
    return models._lift(lambda run2, x: z3.If(to_real(x) >= 0, to_real(x), -to_real(x)))(run, v)


@models.external("numpy.dot")
def _npdot(engine, run, a, k):
    g = _sfctx(run)
    if g is None or not (a[0] is g["data"] and a[1] is g["data"]):
        raise Undecided("np.dot of something other than (field data, field data)")
    g["dot_calls"] += 1
    run.trust("numpy: dot(x.flat, x.flat) = sum of squares of all entries")
    return g["S2"]


@models.external("numpy.fft.fftfreq")
def _fftfreq(engine, run, a, k):
    g = _sfctx(run)
    n = a[0]
    d = k.get("d", a[1] if len(a) > 1 else 1)
    axis = next((ax for ax in range(g["grid"].dim) if n is g["grid"].n[ax]), None) if g else None
    if axis is None:
        raise Undecided("fftfreq with a length that is not an axis length of the grid")
    run.trust("ASSUMED (numpy): fftfreq(n, d)[i] = i/(n d) for i <= (n-1)//2, (i-n)/(n d) above")
    i = g["grid"].idx[axis]
    val = ops.real_div(run, z3.ToReal(fq(i, n)), ops.binop(run, ast.Mult(), z3.ToReal(n), d), "fftfreq")
    return SAxisArr(axis, val)


class SAxisArr:
    """1-d array along one grid axis, evaluated at the Skolem index of that axis"""

    def __init__(self, axis, v):
        self.axis, self.v = axis, v

    def sym_binop(self, run, op, other, reflected):
        if isinstance(other, SAxisArr):
            return NotImplemented
        a, b = (other, self.v) if reflected else (self.v, other)
        return SAxisArr(self.axis, ops.binop(run, op, a, b))


class _AddOuter:
    pass


@models.external("functools.reduce")
def _reduce(engine, run, a, k):
    f, items = a[0], a[1]
    if not isinstance(f, _AddOuter) or len(a) != 2:
        raise Undecided("functools.reduce of something other than np.add.outer over a list")
    items = engine.iterate(run, items)
    if not isinstance(items, list) or not all(isinstance(x, SAxisArr) for x in items):
        raise Undecided("reduce(np.add.outer, ...) over non axis arrays")
    g = _sfctx(run)
    # np.add.outer(A, B)[i..., j...] = A[i...] + B[j...]: the axes of the result are the axes of the operands, in order
    if [x.axis for x in items] != list(range(g["grid"].dim)):
        run.oblige("the outer sum runs over the grid axes in their order (entry (i0, i1, ...) pairs with data entry (i0, i1, ...))", False,
                   kind="ensures", assume_after=False)
        raise run.PathEnd()
    run.trust("numpy: reduce(np.add.outer, [a0, a1, ...])[i0, i1, ...] = a0[i0] + a1[i1] + ...")
    s = items[0].v
    for x in items[1:]:
        s = ops.binop(run, ast.Add(), s, x.v)
    return SCell(s, CELLS)


_old_eav = models.external_attr_value


def _eav(name):
    if name == "numpy.add.outer":
        return _AddOuter()
    return _old_eav(name)


models.external_attr_value = _eav
_old_external_attr = None


def _patch_engine():
    from pyvc import engine as E
    global _old_external_attr
    if _old_external_attr is not None:
        return
    _old_external_attr = E.Engine.getattr

    def getattr2(self, run, obj, attr, fr=None):
        if isinstance(obj, SExternal) and obj.name == "numpy.add" and attr == "outer":
            return _AddOuter()
        if isinstance(obj, SCell) and obj.space == CELLS and attr == "flat":
            return SFlat(obj)
        return _old_external_attr(self, run, obj, attr, fr)
    E.Engine.getattr = getattr2


_patch_engine()


class SFlat:
    """x.flat of an array over the grid"""

    def __init__(self, cell):
        self.cell = cell

    def sym_getitem(self, run, idx):
        if isinstance(idx, slice) and idx.stop is None and idx.step is None and const_of(idx.start) == 1:
            g = _sfctx(run)
            if not g.get("nonzero_assumed"):
                run.assume(z3.Or(*[i != 0 for i in g["grid"].idx]))
                g["nonzero_assumed"] = True
            return SCell(self.cell.v, FLAT1, self.cell.kind)
        raise Undecided(f"x.flat[{idx!r}]")


_old_dot = None


def _flat_identity(v):
    return v.cell if isinstance(v, SFlat) else v


_dot_inner = models.EXTERNALS["numpy.dot"]


def _npdot2(engine, run, a, k):
    return _dot_inner(engine, run, [_flat_identity(x) for x in a], k)


models.EXTERNALS["numpy.dot"] = _npdot2


# --- SmoothData1D (assumed: a function of (x, y, sigma); its evaluation returns one value per requested abscissa) ---------
class SSmooth:
    def __init__(self, x, y, sigma):
        self.x, self.y, self.sigma = x, y, sigma
        self.calls = []

    def sym_call(self, run, args, kwargs):
        self.calls.append(args[0])
        q = args[0]
        space = q.space if isinstance(q, SCell) else (f"points:{id(q)}")
        r = SCell(run.fresh_real("smoothed"), space)
        r.smooth_of = (self, q)
        return r


@models.external("pde.tools.math.SmoothData1D")
def _smooth(engine, run, a, k):
    g = _sfctx(run)
    s = SSmooth(a[0], a[1], k.get("sigma", a[2] if len(a) > 2 else None))
    if g is not None:
        g["smooth"].append(s)
    run.trust("A-PDE: SmoothData1D(x, y, sigma) is a kernel smoother determined by (x, y, sigma); evaluating it at points p returns one "
              "value per point")
    return s


class SRequested:
    """user-supplied wave numbers"""

    def __init__(self, run):
        self.cell = SCell(run.input_real("requested_k"), "requested")


@models.external("numpy.array")
def _nparray(engine, run, a, k):
    if a and isinstance(a[0], SRequested):
        run.trust("numpy: np.array(seq) has the values of seq, in order")
        return a[0].cell
    return _old_array(engine, run, a, k)


_old_array = models.EXTERNALS["numpy.asarray"]


def _minmax_cell(is_min):
    def f(engine, run, a, k):
        if len(a) != 2 or k:
            raise Undecided("np.minimum / np.maximum with options")
        x, y = [v.cell if isinstance(v, SRequested) else v for v in a]
        if isinstance(y, SCell) and not isinstance(x, SCell):
            x, y = y, x
        if isinstance(x, SCell) and not isinstance(y, SCell):
            xv, yv = to_real(x.v), to_real(y)
            run.trust("numpy: np.minimum / np.maximum(array, scalar) is element-wise")
            return SCell(z3.If((xv <= yv) if is_min else (xv >= yv), xv, yv), x.space)
        raise Undecided("np.minimum / np.maximum of these operands")
    return f


models.EXTERNALS["numpy.minimum"] = _minmax_cell(True)
models.EXTERNALS["numpy.maximum"] = _minmax_cell(False)


class SPrepended:
    """np.r_[c, arr]"""

    def __init__(self, first, rest):
        self.first, self.rest = first, rest


def _cell_r_concat(self, run, items):
    if len(items) == 2 and is_num(items[0]) and items[1] is self:
        return SPrepended(items[0], self)
    raise Undecided("np.r_ of a cell-wise array in another form than np.r_[number, array]")


SCell.sym_r_concat = _cell_r_concat


def _cell_contains(self, E, item):
    """`x in array`: whether some entry equals x is not determined by the entry at the Skolem index: an unconstrained Bool that is
    implied by equality at that index (sound over-approximation)"""
    b = E.fresh_bool("member")
    if is_num(item) and is_num(self.v):
        E.assume(z3.Implies(to_real(self.v) == to_real(item), b))
    return b


SCell.sym_contains = _cell_contains


# =====================================================================================================================
def k_spec(grid):
    """|k|^2 at the Skolem multi-index: sum_a (2 pi fq(i_a, n_a) / (n_a dx_a))^2  (as a multiplication-only relation)"""
    comps = []
    for a in range(grid.dim):
        comps.append((z3.ToReal(fq(grid.idx[a], grid.n[a])), z3.ToReal(grid.n[a]) * grid.dx[a]))
    return comps


@register
class StructureFactor(Contract):
    key = f"{IA}:get_structure_factor"
    modular = False
    max_paths = 200

    def cases(self):
        out = []
        for dim in (1, 2, 3):
            out.append(dict(dim=dim, smoothing="none", wave_numbers="auto", add_zero=False))
        out.append(dict(dim=2, smoothing="none", wave_numbers="auto", add_zero=True))
        out.append(dict(dim=2, smoothing="zero", wave_numbers="auto", add_zero=False))
        out.append(dict(dim=2, smoothing="none-str", wave_numbers="auto", add_zero=False))
        for sm in ("auto", "number"):
            for wn in ("auto", "none", "given"):
                for az in (False, True):
                    out.append(dict(dim=2, smoothing=sm, wave_numbers=wn, add_zero=az))
        out.append(dict(dim=1, smoothing="auto", wave_numbers="given", add_zero=True))
        out.append(dict(dim=3, smoothing="number", wave_numbers="auto", add_zero=False))
        out.append(dict(dim=2, smoothing="none", wave_numbers="auto", add_zero=False, invalid="not-a-field"))
        out.append(dict(dim=2, smoothing="none", wave_numbers="auto", add_zero=False, invalid="not-cartesian"))
        out.append(dict(dim=2, smoothing="none", wave_numbers="auto", add_zero=False, nonperiodic=True))
        return out

    def setup(self, run, case):
        dim = case["dim"]
        grid = SFGrid(run, dim, periodic=not case.get("nonperiodic"), kind="other" if case.get("invalid") == "not-cartesian" else "cartesian")
        data = SFData(run.input_real("f_at_index"), CELLS)
        field = SFField(grid, data, is_field=case.get("invalid") != "not-a-field")
        S2, Fre, Fim = run.input_real("sum_f_squared"), run.input_real("F_re_at_index"), run.input_real("F_im_at_index")
        run.assume(S2 > 0)        # the field is not identically zero
        run.ghost["sf"] = dict(grid=grid, data=data, S2=S2, Fre=Fre, Fim=Fim, fft_calls=[], dot_calls=0, smooth=[])
        sm = {"none": None, "auto": "auto", "zero": 0, "none-str": "none"}.get(case["smoothing"], None)
        if case["smoothing"] == "number":
            sm = run.input_real("smoothing")
            run.assume(sm > 0)
        wn = {"auto": "auto", "none": None}.get(case["wave_numbers"], None)
        if case["wave_numbers"] == "given":
            wn = SRequested(run)
        self.ctx = dict(run=run, grid=grid, data=data, S2=S2, Fre=Fre, Fim=Fim, sm=sm, wn=wn)
        return dict(scalar_field=field, smoothing=sm, wave_numbers=wn, add_zero=case["add_zero"])

    def raises(self, a, exc, case):
        want = {"not-a-field": "TypeError", "not-cartesian": "NotImplementedError"}.get(case.get("invalid"))
        if want:
            return [(f"the unsupported request raises {want} (raised {exc.cls_name})", exc.cls_name == want)]
        return [(f"a valid request raises nothing (raised {exc.cls_name})", False)]

    def post(self, a, ret, case):
        c = self.ctx
        run, grid = c["run"], c["grid"]
        g = run.ghost["sf"]
        if case.get("invalid"):
            return [("the unsupported request must raise", False)]
        if not (isinstance(ret, tuple) and len(ret) == 2):
            return [("returns the pair (wave numbers, structure factor)", False)]
        k_out, sf_out = ret
        out = []
        if case["add_zero"]:
            ok = isinstance(k_out, SPrepended) and isinstance(sf_out, SPrepended)
            out.append(("add_zero prepends exactly one entry to both arrays", ok))
            if not ok:
                return out
            out.append(("the prepended pair is (k, S) = (0, 1)", z3.And(to_real(k_out.first) == 0, to_real(sf_out.first) == 1)))
            k_out, sf_out = k_out.rest, sf_out.rest
        else:
            out.append(("without add_zero nothing is prepended", not isinstance(k_out, SPrepended) and not isinstance(sf_out, SPrepended)))
            if isinstance(k_out, SPrepended) or isinstance(sf_out, SPrepended):
                return out
        out.append(("the transform is the orthonormal n-dimensional DFT of the field data, computed once",
                    len(g["fft_calls"]) == 1 and g["fft_calls"][0]["norm"] == "ortho" and not g["fft_calls"][0]["extra"]))
        P = c["Fre"] * c["Fre"] + c["Fim"] * c["Fim"]
        comps = k_spec(grid)
        two_pi = 2 * ops.PI()

        def raw_clauses(kc, sc, tag):
            cl = []
            ok = isinstance(kc, SCell) and isinstance(sc, SCell) and kc.space == FLAT1 and sc.space == FLAT1
            cl.append((f"{tag}wave numbers and structure factor are aligned arrays over all grid modes except the zero mode (C order)", ok))
            if not ok:
                return cl
            kv, sv = to_real(kc.v), to_real(sc.v)
            # k^2 * prod (n_a dx_a)^2 == (2 pi)^2 * sum_a fq_a^2 * prod_{b != a} (n_b dx_b)^2   (division-free)
            ks = [run.fresh_real(f"kspec{a_}") for a_ in range(grid.dim)]
            defs = [ks[a_] * comps[a_][1] == two_pi * comps[a_][0] for a_ in range(grid.dim)]
            cl.append((f"{tag}the wave number of mode (i0, i1, ...) is |k| with k_a = 2 pi fftfreq(n_a)[i_a] / dx_a (the grid's discrete Fourier wave numbers)",
                       z3.Implies(z3.And(*defs), z3.And(kv >= 0, kv * kv == sum(k_ * k_ for k_ in ks)))))
            cl.append((f"{tag}S(mode) * sum(f^2) == |F(mode)|^2 for the same mode (normalised power; no other factor or offset)", sv * c["S2"] == P))
            cl.append((f"{tag}the structure factor is non-negative", sv >= 0))
            return cl

        if case["smoothing"] in ("none", "zero", "none-str"):
            out += raw_clauses(k_out, sf_out, "")
            out.append(("no smoothing is applied", not g["smooth"]))
            return out
        # smoothed variant
        if len(g["smooth"]) != 1:
            return out + [("the smoothed variant builds exactly one smoother", False)]
        s = g["smooth"][0]
        out += raw_clauses(s.x, s.y, "smoother input: ")
        if case["smoothing"] == "auto":
            kmax = next((r for (cell, attr, r) in run.ghost.get("cell_reduction_list", []) if cell is s.x and attr == "max"), None)
            out.append(("automatic smoothing width is max|k| / 128 (scales like the wave numbers)",
                        kmax is not None and z3.is_expr(s.sigma) and to_real(s.sigma) * 128 == kmax))
        else:
            out.append(("a numeric smoothing width is used as given", z3.is_expr(s.sigma) and to_real(s.sigma) == c["sm"]))
        ok = isinstance(sf_out, SCell) and getattr(sf_out, "smooth_of", (None, None))[0] is s and len(s.calls) == 1
        out.append(("the returned structure factor is the smoother evaluated at the returned wave numbers",
                    bool(ok and sf_out.smooth_of[1] is k_out)))
        if case["wave_numbers"] == "given":
            out.append(("requested wave numbers are returned exactly", isinstance(k_out, SCell) and k_out.space == "requested" and
                        z3.And(to_real(k_out.v) == c["wn"].cell.v)))
        else:
            ls = [l for l in run.ghost.get("linspace", []) if l["cell"] is k_out]
            ok = len(ls) == 1
            out.append(("automatic wave numbers are an equidistant grid of 128 points", ok and const_of(ls[0]["num"]) == 128 and ls[0]["endpoint"] is True))
            if ok:
                size_max = next((m for (arr, m) in run.ghost.get("smax", []) if arr.name == "cuboid.size"), None)
                kmax = next((r for (cell, attr, r) in run.ghost.get("cell_reduction_list", []) if cell is s.x and attr == "max"), None)
                out.append(("... from 2 / (largest box length) to max|k| (both scale inversely with the grid size)",
                            size_max is not None and kmax is not None and
                            z3.And(to_real(ls[0]["lo"]) * size_max == 2, to_real(ls[0]["hi"]) == kmax)))
        return out


@register
class StructureFactorLemmas(Lemma):
    """consequences of the element-wise contract  S_k = |F_k|^2 / sum f^2 (k != 0)  and the assumed DFT facts"""
    name = "structure-factor-normalisation-and-invariances"
    trusted = ("DFT facts (Parseval, F_0 = sum f / sqrt N, linearity, shift theorem |F_k| invariant under whole-cell translations, "
               "reflection / axis permutation permute the modes together with their wave vectors)",
               "sum over modes is linear: sum_k (a_k / c) = (sum_k a_k) / c; sum_{k != 0} a_k = sum_k a_k - a_0")

    def obligations(self):
        S1, S2, N, tot, p0, tail, sfsum = z3.Reals("S1 S2 N tot p0 tail sfsum")
        yield ("sum of the structure factor is 1 - (sum f)^2 / (N sum f^2)",
               [S2 > 0, N >= 1, tot == S2, p0 * N == S1 * S1, tail == tot - p0, sfsum * S2 == tail],
               sfsum * (N * S2) == N * S2 - S1 * S1)
        c, p, s, sf, sf2 = z3.Reals("c p s sf sf2")
        yield ("multiplying the field by a non-zero constant leaves every entry unchanged",
               [c != 0, s > 0, sf * s == p, sf2 * (c * c * s) == c * c * p], sf == sf2)
        lam, k, k2, nd, f = z3.Reals("lam k k2 nd f")
        yield ("stretching the grid by lam divides every wave number by lam",
               [lam > 0, nd > 0, k * nd == f, k2 * (lam * nd) == f], k2 * lam == k)
        pa, pb, sa, sb = z3.Reals("pa pb sa sb")
        yield ("a symmetry that preserves |F_k| of every mode and sum f^2 preserves the structure factor of that mode",
               [s > 0, pa == pb, sa * s == pa, sb * s == pb], sa == sb)


# ---- concrete side ----------------------------------------------------------------------------------------------------
def brute_dft_power(data):
    """|F_k|^2 of the orthonormal DFT straight from the definition (O(N^2), small arrays only)"""
    import numpy as np
    shp = data.shape
    N = data.size
    idx = np.indices(shp).reshape(len(shp), -1)          # (d, N)
    out = np.empty(N)
    flat = data.reshape(-1)
    for m in range(N):
        km = idx[:, m]
        phase = np.zeros(N)
        for a_, n in enumerate(shp):
            phase += km[a_] * idx[a_] / n
        out[m] = abs(np.sum(flat * np.exp(-2j * np.pi * phase))) ** 2 / N
    return out.reshape(shp)


def make_sf_input(t, seed):
    import numpy as np
    rng = np.random.default_rng(seed * 1000 + t)
    dim = 1 + t % 3
    # equal cell counts along different axes (with unequal spacings) come first: the wave numbers of an axis depend on its LENGTH, not only on its count
    # ... and a cell count with a large prime factor (13): FFT implementations that pad to `fast` lengths change the mode set
    shapes = {1: [(13,), (8,), (7,), (12,)], 2: [(4, 4), (13, 3), (6, 4), (3, 8)], 3: [(3, 2, 3), (3, 2, 5), (4, 3, 2), (2, 2, 3)]}[dim]
    shape = shapes[(t // 3) % 4]
    dx = [float(x) for x in rng.choice([0.05, 0.1, 0.5, 1.0, 2.0, 10.0], size=dim, replace=False)]      # pairwise different spacings
    lo = [float(x) for x in rng.choice([-3.0, 0.0, 2.5], size=dim)]
    scale = [1.0, 1e-9, 1e6, -2.5, 1e-3][t % 5]
    offset = [0.0, 1.0, -0.3][t % 3]
    return dict(shape=list(shape), dx=dx, lo=lo, scale=scale, offset=offset, seed=int(seed * 1000 + t))


def _conc_sf(self, case, inputs):
    import numpy as np
    import pde
    from droplets.image_analysis import get_structure_factor
    if case.get("invalid") == "not-a-field":
        try:
            get_structure_factor(np.zeros((4, 4)))
        except TypeError:
            return dict(violated=[])
        except Exception as e:   # noqa: BLE001
            return dict(violated=[f"the unsupported request raises TypeError (raised {type(e).__name__})"])
        return dict(violated=["the unsupported request must raise"])
    if case.get("invalid") == "not-cartesian":
        try:
            get_structure_factor(pde.ScalarField(pde.PolarSymGrid(3, 6), 1.0))
        except NotImplementedError:
            return dict(violated=[])
        except Exception as e:   # noqa: BLE001
            return dict(violated=[f"the unsupported request raises NotImplementedError (raised {type(e).__name__})"])
        return dict(violated=["the unsupported request must raise"])
    shape, dx, lo = inputs["shape"], inputs["dx"], inputs["lo"]
    dim = case["dim"]
    shape, dx, lo = (shape * 3)[:dim], (dx * 3)[:dim], (lo * 3)[:dim]
    rng = np.random.default_rng(inputs["seed"])
    grid = pde.CartesianGrid([(l, l + n * d) for l, n, d in zip(lo, shape, dx)], shape, periodic=not case.get("nonperiodic"))
    base = rng.standard_normal(shape) + inputs["offset"]
    data = inputs["scale"] * base
    f = pde.ScalarField(grid, data)
    sm = {"none": None, "auto": "auto", "zero": 0, "none-str": "none", "number": 0.37 / max(dx)}[case["smoothing"]]
    kreq = None
    kw = dict(smoothing=sm, add_zero=case["add_zero"])
    if case["wave_numbers"] == "given":
        # unsorted, with 0, and with a value beyond the largest wave number of the grid
        kreq = np.array([0.0, 0.9, 0.31, 2.0, 40.0 / min(dx)]) / 1.0 if inputs["seed"] % 2 else np.array([0.4, 0.1, 1.7]) / max(dx)
        if inputs["seed"] % 2:
            kreq[:4] /= max(dx)
        kw["wave_numbers"] = kreq
    elif case["wave_numbers"] == "none":
        kw["wave_numbers"] = None
    bad = []
    if dim >= 2 and len(set(dx)) > 1:
        # no hidden state: an earlier call on a grid of the same shape and volume but other spacings must not influence this one
        dxp = dx[1:] + dx[:1]
        decoy = pde.CartesianGrid([(l, l + n * d) for l, n, d in zip(lo, shape, dxp)], shape, periodic=not case.get("nonperiodic"))
        try:
            get_structure_factor(pde.ScalarField(decoy, base), **kw)
        except Exception:   # noqa: BLE001
            pass
    try:
        k, s = get_structure_factor(f, **kw)
    except Exception as e:   # noqa: BLE001
        return dict(violated=[f"a valid request raises nothing (raised {type(e).__name__}: {e})"], inputs=inputs)
    k, s = np.asarray(k), np.asarray(s)
    if case["add_zero"]:
        if len(k) < 1 or k[0] != 0 or s[0] != 1:
            bad.append("the prepended pair is (k, S) = (0, 1)")
        k0, s0 = get_structure_factor(f, **{**kw, "add_zero": False})
        if len(k) != len(k0) + 1 or len(s) != len(s0) + 1 or not (np.array_equal(k[1:], k0) and np.array_equal(s[1:], s0, equal_nan=True)):
            bad.append("add_zero prepends exactly one entry to both arrays")
        k, s = k[1:], s[1:]
    N = int(np.prod(shape))
    P = brute_dft_power(data / np.abs(data).max())        # normalised copy: the oracle itself must not under/overflow
    S2 = float(np.sum((data / np.abs(data).max()) ** 2))
    want_s = (P / S2).reshape(-1)[1:]
    kk = np.zeros(shape)
    for a_, (n, d) in enumerate(zip(shape, dx)):
        i = np.arange(n)
        fqv = np.where(2 * i <= n - 1, i, i - n) * (2 * np.pi / (n * d))
        sl = [None] * dim
        sl[a_] = slice(None)
        kk = kk + (fqv ** 2)[tuple(sl)]
    want_k = np.sqrt(kk).reshape(-1)[1:]
    if case["smoothing"] in ("none", "zero", "none-str"):
        if k.shape != want_k.shape or not np.allclose(k, want_k, rtol=1e-12, atol=0):
            bad.append("the wave number of mode (i0, i1, ...) is |k| with k_a = 2 pi fftfreq(n_a)[i_a] / dx_a")
        if s.shape != want_s.shape or not np.allclose(s, want_s, rtol=1e-8, atol=1e-12):
            bad.append("S(mode) * sum(f^2) == |F(mode)|^2 for the same mode (normalised power; no other factor or offset)")
        elif abs(s.sum() - (1 - data.sum() ** 2 / (N * np.sum(data ** 2)))) > 1e-9:
            bad.append("sum of the structure factor is 1 - (sum f)^2 / (N sum f^2)")
        if np.any(s < 0):
            bad.append("the structure factor is non-negative")
    else:
        from pde.tools.math import SmoothData1D
        sigma = want_k.max() / 128 if case["smoothing"] == "auto" else sm
        ref = SmoothData1D(want_k, want_s, sigma=sigma)
        if kreq is not None:
            if k.shape != kreq.shape or not np.array_equal(k, kreq):
                bad.append("requested wave numbers are returned exactly")
        else:
            wantk = np.linspace(2 / max(n * d for n, d in zip(shape, dx)), want_k.max(), 128)
            if k.shape != wantk.shape or not np.allclose(k, wantk, rtol=1e-12, atol=0):
                bad.append("automatic wave numbers: 128 equidistant points from 2 / (largest box length) to max|k|")
        if not bad:
            with np.errstate(all="ignore"):
                exp = ref(k)
            if s.shape != exp.shape or not np.allclose(s, exp, rtol=1e-7, atol=1e-12, equal_nan=True):
                bad.append("the returned structure factor is the smoother (built from the exact spectrum, documented width) evaluated at the returned wave numbers")
    return dict(violated=sorted(set(bad)), inputs=inputs, observed=f"{len(k)} modes")


def _sf_inputs(self, case, tier, seed):
    for t in range(6 if tier == "quick" else 40):
        yield make_sf_input(t, seed)


StructureFactor.concrete_run = _conc_sf
StructureFactor.bounded_inputs = _sf_inputs
StructureFactor.realise = lambda self, case, model: None
