"""C20 -- collections stay aligned and own their droplets under any sequence of edits."""
from contracts import collections as co, collmodel, emulsions as em, tracks as tk
from pyvc.bounded import Bounded, ContractSampling

LEVEL = "other"
LEVEL_TEXT = ("Per-operation heap contracts (pre/post over the whole view + frame 'nothing that existed before is modified') are verified on a "
              "Boogie-style heap for collections of ANY length: DropletBase.copy, Emulsion.append (copy/no copy, dtype adoption, rejection "
              "with unchanged state, argument aliasing a member), Emulsion.extend and remove_small (cut loops with inductive invariants and "
              "ghost index maps), remove_overlapping (C10), interface_width (partial-sum invariant), DropletTrack.append/duration, "
              "EmulsionTimeCourse.append/clear. 'Any sequence of operations' then follows by induction over the sequence (meta-argument). "
              "Not yet under contract (bounded stand-in only): copy/slice/+ of emulsions, linked data, merge of members, size statistics, "
              "bounding box, trajectories, nearest-time lookup - hence level 'other', not 'proof'.")
LEVEL_NOTE = ("A-FP; heap model (references, records, python lists as length + element map; numpy record copy = new storage with equal "
              "values and dtype; dtype equality by tag) validated only by the run-time monitors of the bounded tier; Emulsion(...) and "
              "Emulsion.copy() are uninterpreted in the EmulsionTimeCourse.append contract; induction over operation sequences is a "
              "meta-argument; list.append/pop semantics")
CONTRACTS = [c.ident for c in (co.DropletCopy(), co.EmulsionAppend(), co.EmulsionExtend(), co.RemoveSmall(), co.TrackAppend(),
                               co.TrackDuration(), co.ETCAppend(), co.ETCClear(), co.EmulsionInterfaceWidth(),
                               em.RemoveOverlapping(), em.RemoveOverlappingIdempotent(), tk.TrackInit())]
LEMMAS = []
BOUNDED = [collmodel.CollectionModel(), ContractSampling("collection-contracts-on-real-objects", CONTRACTS,
                            "each operation contract on 8 (quick) / 80 (thorough) seeded collections of 0-5 droplets incl. time 0, width 0/None, "
                            "radius equal to the threshold, aliasing of argument and member")]
