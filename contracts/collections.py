"""Contracts for the collection classes (C20, and the per-operation part of C06/C14): heap contracts with frames.

View of a collection = sequence of object references + the heap restricted to the records they point to.
`fresh(ref)` means ref >= alloc0, i.e. allocated during the call (distinct from everything in the pre-state).
"""
from __future__ import annotations

import z3

from pyvc import heap as H, models, ops, source, spec as S
from pyvc.contract import Contract, Lemma, loop, register
from pyvc.engine import LoopSpec, SymRaise, _MISSING
from pyvc.values import SArr, SClassRef, SExc, SMaybeNaN, SNative, SObj, SOpaque, Undecided, const_of, to_real, to_z3

from .emulsions import EmView, sym_emulsion

EM = "droplets.emulsions"
TR = "droplets.droplet_tracks"
DM = "droplets.droplets"
I, Rl, B = z3.IntSort(), z3.RealSort(), z3.BoolSort()

CLASSES = ("SphericalDroplet", "DiffuseDroplet")


DTYPE_DIM = z3.Function("dtype_dim", I, I)      # space dimension encoded in a droplet dtype


class SDt:
    """numpy dtype value, identified by an integer tag (two dtypes are equal iff their tags are)"""

    def __init__(self, tag, rec=None):
        self.tag = tag
        self.rec = rec

    def sym_eq(self, E, other):
        if isinstance(other, SDt):
            return self.tag == other.tag
        return False

    def sym_truth(self, E):
        return True

    def sym_isinstance(self, run, t):
        return getattr(t, "name", None) == "numpy.dtype"

    def sym_getitem(self, run, idx):
        if idx == "position":
            return SOpaque("subdtype", attrs={"shape": (DTYPE_DIM(self.tag),)})
        raise Undecided("dtype item")

    def sym_getattr(self, run, attr):
        if attr == "fields":
            d = {"position": (SOpaque("subdtype", attrs={"shape": (DTYPE_DIM(self.tag),)}), None)}
            if self.rec is not None and "amplitudes" in self.rec.layout:
                d["amplitudes"] = (SOpaque("subdtype", attrs={"shape": (self.rec.layout["amplitudes"][1],)}), None)
            return d
        if attr == "names" and self.rec is not None:
            return tuple(self.rec.names())
        return _MISSING


def _dtype_attr(engine, run, obj, attr):
    if attr == "dtype" and isinstance(obj, H.SRecRef):
        return SDt(H.heap_of(run).read("dtype_tag", obj.ref, sort=I))
    return _MISSING


models.NATIVE_ATTRS.insert(0, _dtype_attr)
_engine_getattr_patch_done = False


def _patch_engine_getattr():
    """records on the heap answer `.dtype` with their dtype tag (the engine's generic SRec branch returns a structural dtype)"""
    global _engine_getattr_patch_done
    if _engine_getattr_patch_done:
        return
    from pyvc import engine as E
    orig = E.Engine.getattr

    def getattr2(self, run, obj, attr, fr=None):
        if isinstance(obj, H.SRecRef) and attr == "dtype":
            return SDt(H.heap_of(run).read("dtype_tag", obj.ref, sort=I), obj)
        return orig(self, run, obj, attr, fr)
    E.Engine.getattr = getattr2
    _engine_getattr_patch_done = True


_patch_engine_getattr()


def layout_of(cls_name, dim):
    return H.droplet_layout(cls_name, dim)


def sym_heap_droplet(run, name, dim, cls_name):
    """a droplet object of the pre-state: allocated object reference and data record"""
    h = H.heap_of(run)
    ref = run.input_int(f"{name}_ref")
    rec = h.read("data", ref, sort=I)
    run.assume(z3.And(h.allocated(ref), h.allocated(rec)))
    run.assume(DTYPE_DIM(h.read("dtype_tag", rec, sort=I)) == dim)
    cls = source.get_class(DM, cls_name)
    return H.SRefObj(run, cls, ref, layout_of(cls_name, dim), tag=name)


def snapshot(run):
    return dict(H.heap_of(run).arr)


def rec_fields_equal(lay, arrs_a, ra, arrs_b, rb, dim):
    """value equality of two records (possibly in different heap states)"""
    out = []
    for k, kind in lay.items():
        if kind == "real":
            out.append(z3.Select(arrs_a[k], ra) == z3.Select(arrs_b[k], rb))
        elif kind == "maybe_nan":
            na, nb = z3.Select(arrs_a[k + "__nan"], ra), z3.Select(arrs_b[k + "__nan"], rb)
            out.append(na == nb)
            out.append(z3.Implies(z3.Not(na), z3.Select(arrs_a[k], ra) == z3.Select(arrs_b[k], rb)))
        elif kind[0] == "vec":
            for j in range(kind[1]):
                out.append(z3.Select(arrs_a[k], ra * H.Heap.VEC + j) == z3.Select(arrs_b[k], rb * H.Heap.VEC + j))
    out.append(z3.Select(arrs_a["dtype_tag"], ra) == z3.Select(arrs_b["dtype_tag"], rb))
    return z3.And(*out)


def touch_layout(run, lay):
    """make sure every heap array of the layout exists before the snapshot"""
    h = H.heap_of(run)
    h.array("data", 1, I)
    h.array("dtype_tag", 1, I)
    for k, kind in lay.items():
        if kind == "real":
            h.array(k)
        elif kind == "maybe_nan":
            h.array(k)
            h.array(k + "__nan", 1, B)
        elif kind[0] == "vec":
            h.array(k, 1)


def frame_old_records(run, arrs0, lay):
    """every record of the pre-state keeps its field values (nothing that existed before is written)"""
    h = H.heap_of(run)
    r = z3.Int("fr")
    parts = []
    for k, kind in lay.items():
        if kind in ("real", "maybe_nan"):
            parts.append(z3.Select(h.arr[k], r) == z3.Select(arrs0[k], r))
            if kind == "maybe_nan":
                parts.append(z3.Select(h.arr[k + "__nan"], r) == z3.Select(arrs0[k + "__nan"], r))
        elif kind[0] == "vec":
            for j in range(kind[1]):
                parts.append(z3.Select(h.arr[k], r * H.Heap.VEC + j) == z3.Select(arrs0[k], r * H.Heap.VEC + j))
    parts.append(z3.Select(h.arr["dtype_tag"], r) == z3.Select(arrs0["dtype_tag"], r))
    parts.append(z3.Select(h.arr["data"], r) == z3.Select(arrs0["data"], r))
    return z3.ForAll([r], z3.Implies(z3.And(r >= 0, r < h.alloc0), z3.And(*parts)))


# ===================================================================================================
@register
class DropletCopy(Contract):
    """DropletBase.copy() without arguments: a new object with a new data record holding equal values"""
    key = f"{DM}:DropletBase.copy"

    def cases(self):
        return [dict(cls=c, dim=d) for c in CLASSES for d in (1, 2, 3)]

    def setup(self, run, case):
        lay = layout_of(case["cls"], case["dim"])
        touch_layout(run, lay)
        d = sym_heap_droplet(run, "self", case["dim"], case["cls"])
        self.ctx = (run, d, lay, snapshot(run))
        return dict(self=d)

    def post(self, a, ret, case):
        run, d, lay, arrs0 = self.ctx
        h = H.heap_of(run)
        if not isinstance(ret, SObj) or ret.cls.name != case["cls"]:
            return [("returns a droplet of the same class", False)]
        rr = H.promote_object(run, ret, lay) if not isinstance(ret, H.SRefObj) else ret
        rec_new = h.read("data", rr.ref, sort=I)
        rec_old = z3.Select(arrs0["data"], d.ref)
        return [("the copy is a new object", rr.ref >= h.alloc0),
                ("the copy owns a new data record", rec_new >= h.alloc0),
                ("the copy holds equal values (same dtype)", rec_fields_equal(lay, h.arr, rec_new, arrs0, rec_old, case["dim"])),
                ("nothing that existed before is modified", frame_old_records(run, arrs0, lay))]

    def apply(self, engine, run, fi, args, kwargs):
        me = args[0]
        if kwargs or len(args) > 1 or not isinstance(me, H.SRefObj):
            return NotImplemented          # local objects / copy with arguments: the body is executed instead
        h = H.heap_of(run)
        rec = me.fields["data"].copy()
        h.write("dtype_tag", h.read("dtype_tag", me.fields["data"].ref, sort=I), rec.ref, sort=I)
        r = h.new_ref()
        h.write("data", rec.ref, r, sort=I)
        run.trust(f"contract:{self.key} (verified separately)")
        return H.SRefObj(run, me.cls, r, me.layout)


def copy_dtype_on_record_copy():
    """SRecRef.copy must also carry the dtype tag (numpy: a copied record has the same dtype)"""
    orig = H.SRecRef.copy

    def copy(self):
        out = orig(self)
        self.heap.write("dtype_tag", self.heap.read("dtype_tag", self.ref, sort=I), out.ref, sort=I)
        return out
    H.SRecRef.copy = copy


copy_dtype_on_record_copy()


# ---------------------------------------------------------------------------------------------------
def sym_em(run, name, dim, cls_name, dtype_none=False):
    em = sym_emulsion(run, name, dim, cls_name)
    h = H.heap_of(run)
    touch_layout(run, layout_of(cls_name, dim))
    kk = z3.Int("dk")
    run.assume(z3.ForAll([kk], DTYPE_DIM(z3.Select(h.arr["dtype_tag"], z3.Select(h.arr["data"], z3.Select(em.elems, kk)))) == dim))
    if dtype_none:
        em.fields["dtype"] = None
    else:
        em.fields["dtype"] = SDt(run.input_int(f"{name}_dtype"))
    return em


@register
class EmulsionAppend(Contract):
    key = f"{EM}:Emulsion.append"

    def cases(self):
        out = []
        for cls in CLASSES:
            for copy in (True, False):
                for fc in (False, True):
                    for dt in ("set", "none"):
                        out.append(dict(cls=cls, dim=2, copy=copy, force_consistency=fc, dtype=dt))
        out.append(dict(cls="SphericalDroplet", dim=3, copy=True, force_consistency=True, dtype="set", alias="member"))
        return out

    def setup(self, run, case):
        lay = layout_of(case["cls"], case["dim"])
        touch_layout(run, lay)
        em = sym_em(run, "self", case["dim"], case["cls"], dtype_none=case["dtype"] == "none")
        if case.get("alias") == "member":
            j = run.input_int("member_index")
            run.assume(z3.And(j >= 0, j < to_z3(em.length)))
            d = em.at(j)
        else:
            d = sym_heap_droplet(run, "droplet", case["dim"], case["cls"])
        self.ctx = (run, em, d, lay, snapshot(run), em.elems, to_z3(em.length), em.fields["dtype"])
        return dict(self=em, droplet=d, copy=case["copy"], force_consistency=case["force_consistency"])

    def _mismatch(self, case):
        run, em, d, lay, arrs0, E0, L0, dt0 = self.ctx
        if dt0 is None:
            return z3.BoolVal(False)
        return z3.And(z3.BoolVal(case["force_consistency"]), dt0.tag != z3.Select(arrs0["dtype_tag"], z3.Select(arrs0["data"], d.ref)))

    def post(self, a, ret, case):
        run, em, d, lay, arrs0, E0, L0, dt0 = self.ctx
        h = H.heap_of(run)
        k = z3.Int("k")
        new = z3.Select(em.elems, L0)
        drec0 = z3.Select(arrs0["data"], d.ref)
        out = [("a droplet of another data layout is rejected when consistency is requested (no normal return)", z3.Not(self._mismatch(case))),
               ("length grows by one", to_z3(em.length) == L0 + 1),
               ("earlier members stay in place", z3.ForAll([k], z3.Implies(z3.And(k >= 0, k < L0), z3.Select(em.elems, k) == z3.Select(E0, k)))),
               ("nothing that existed before is modified (the caller's droplet included)", frame_old_records(run, arrs0, lay))]
        if case["copy"]:
            nrec = h.read("data", new, sort=I)
            out += [("the stored droplet is a new object (independent of the caller's)", new >= h.alloc0),
                    ("the stored droplet owns a new data record", nrec >= h.alloc0),
                    ("the stored droplet holds the caller's values", rec_fields_equal(lay, h.arr, nrec, arrs0, drec0, case["dim"]))]
        else:
            out.append(("copy=False stores the caller's object itself (documented sharing)", new == d.ref))
        dt = em.fields.get("dtype")
        if dt0 is None:
            out.append(("an emulsion without dtype adopts the droplet's dtype",
                        isinstance(dt, SDt) and dt.tag == z3.Select(arrs0["dtype_tag"], drec0)))
        else:
            out.append(("the emulsion keeps its dtype", isinstance(dt, SDt) and z3.eq(dt.tag, dt0.tag)))
        return out

    def raises(self, a, exc, case):
        run, em, d, lay, arrs0, E0, L0, dt0 = self.ctx
        h = H.heap_of(run)
        return [("only a data-layout mismatch under force_consistency raises, and it raises ValueError",
                 z3.And(self._mismatch(case), z3.BoolVal(exc.cls_name == "ValueError"))),
                ("a rejected droplet leaves the emulsion unchanged",
                 z3.And(to_z3(em.length) == L0, z3.BoolVal(z3.eq(em.elems, E0)), frame_old_records(run, arrs0, lay)))]

    def apply(self, engine, run, fi, args, kwargs):
        me, d = args[0], args[1]
        copy = kwargs.get("copy", True)
        fc = kwargs.get("force_consistency", False)
        if not isinstance(me, H.SListObj) or not isinstance(copy, bool):
            raise Undecided("Emulsion.append on a concrete emulsion")
        h = H.heap_of(run)
        if not isinstance(d, H.SRefObj):
            d = H.promote_object(run, d, me.elem_layout)
        dt = me.fields.get("dtype")
        ddt = h.read("dtype_tag", h.read("data", d.ref, sort=I), sort=I)
        if dt is None:
            me.fields["dtype"] = SDt(ddt)
        elif not (isinstance(fc, bool) and fc is False):
            mism = z3.And(to_z3(fc) if not isinstance(fc, bool) else z3.BoolVal(fc), dt.tag != ddt)
            if run.branch(mism):
                raise SymRaise(SExc("ValueError", ("Expected type",)))
        if copy:
            d = DropletCopy.apply(REG_COPY, engine, run, None, [d], {})
        me.raw_append(run, d)
        run.trust(f"contract:{self.key} (verified separately)")
        return None


REG_COPY = DropletCopy()


@loop(f"{EM}:Emulsion.extend", 0)
class ExtendLoop(LoopSpec):
    def init_ghost(self, run, env):
        me = env["self"]
        run.ghost["ext"] = dict(E0=me.elems, L0=to_z3(me.length), arrs0=snapshot(run), dt0=me.fields.get("dtype"))

    def havoc(self, run, env):
        me = env["self"]
        me.length = run.fresh_int("len")
        me.elems = z3.Const(f"elems!{next(run.counter)}", me.elems.sort())
        h = H.heap_of(run)
        h.havoc(list(h.arr))
        h.havoc_ptr()
        g = run.ghost["ext"]
        g["phase"] = 1

    def invariant(self, run, env, i, seq):
        me = env["self"]
        g = run.ghost["ext"]
        h = H.heap_of(run)
        src = env["droplets"]
        lay = me.elem_layout
        k = z3.Int("xk")
        copy = env["copy"]
        if g["dt0"] is None:
            # an emulsion that starts without dtype has none before the first droplet and, from then on, the data layout of the FIRST droplet added
            first = z3.Select(g["arrs0"]["dtype_tag"], z3.Select(g["arrs0"]["data"], z3.Select(src.elems, 0)))
            ph = g.get("phase", 0)
            if ph == 0:
                yield ("an emulsion without dtype still has none before the first droplet is added", z3.BoolVal(me.fields.get("dtype") is None))
            elif ph == 1:
                g["phase"] = 2          # assume phase: the state after i steps
                if run.branch(i == 0):
                    me.fields["dtype"] = None
                else:
                    me.fields["dtype"] = SDt(first)
            else:
                dt = me.fields.get("dtype")
                yield ("after the first droplet the emulsion has adopted that droplet's data layout (and keeps it)",
                       (dt.tag == first) if isinstance(dt, SDt) else z3.BoolVal(False))
        yield ("length == old length + number of processed droplets", to_z3(me.length) == g["L0"] + i)
        yield ("old members stay in place", z3.ForAll([k], z3.Implies(z3.And(k >= 0, k < g["L0"]), z3.Select(me.elems, k) == z3.Select(g["E0"], k))))
        yield ("pre-state records are unchanged", frame_old_records(run, g["arrs0"], lay))
        yield ("every member (and its record) lies below the allocation pointer",
               z3.ForAll([k], z3.Implies(z3.And(k >= 0, k < to_z3(me.length)), z3.And(
                   z3.Select(me.elems, k) < h.ptr, z3.Select(h.arr["data"], z3.Select(me.elems, k)) < h.ptr))))
        sref = lambda kk: z3.Select(src.elems, kk)
        if copy is True:
            yield ("member L0+k is a new object with a new record holding the values of source droplet k",
                   z3.ForAll([k], z3.Implies(z3.And(k >= 0, k < i), z3.And(
                       z3.Select(me.elems, g["L0"] + k) >= h.alloc0,
                       z3.Select(h.arr["data"], z3.Select(me.elems, g["L0"] + k)) >= h.alloc0,
                       rec_fields_equal(lay, h.arr, z3.Select(h.arr["data"], z3.Select(me.elems, g["L0"] + k)), g["arrs0"],
                                        z3.Select(g["arrs0"]["data"], sref(k)), me.dim)))))
        else:
            yield ("member L0+k is source droplet k itself",
                   z3.ForAll([k], z3.Implies(z3.And(k >= 0, k < i), z3.Select(me.elems, g["L0"] + k) == sref(k))))


@register
class EmulsionExtend(Contract):
    key = f"{EM}:Emulsion.extend"
    modular = False

    def cases(self):
        return [dict(cls=c, dim=2, copy=cp) for c in CLASSES for cp in (True, False)] + \
               [dict(cls="SphericalDroplet", dim=2, copy=cp, src="emulsion", dtype="none") for cp in (True, False)]

    def setup(self, run, case):
        lay = layout_of(case["cls"], case["dim"])
        touch_layout(run, lay)
        em = sym_em(run, "self", case["dim"], case["cls"], dtype_none=case.get("dtype") == "none")
        src = sym_em(run, "src", case["dim"], case["cls"])
        if case.get("src") != "emulsion":
            src.cls = None     # a plain list of droplets (else: another Emulsion - it must be treated like any other iterable of droplets)
        self.ctx = (run, em, src, lay, snapshot(run), em.elems, to_z3(em.length))
        return dict(self=em, droplets=src, copy=case["copy"], force_consistency=False)

    def post(self, a, ret, case):
        run, em, src, lay, arrs0, E0, L0 = self.ctx
        h = H.heap_of(run)
        k = z3.Int("pk")
        n = to_z3(src.length)
        out = [("length grows by the number of added droplets", to_z3(em.length) == L0 + n),
               ("old members stay in place", z3.ForAll([k], z3.Implies(z3.And(k >= 0, k < L0), z3.Select(em.elems, k) == z3.Select(E0, k)))),
               ("nothing that existed before is modified", frame_old_records(run, arrs0, lay))]
        if case.get("dtype") == "none":
            dt = em.fields.get("dtype")
            first = z3.Select(arrs0["dtype_tag"], z3.Select(arrs0["data"], z3.Select(src.elems, 0)))
            out.append(("an emulsion without dtype adopts the data layout of the first droplet added (whatever kind of iterable the droplets come in), so "
                        "that later droplets of another layout can be rejected", z3.Implies(n > 0, z3.And(z3.BoolVal(isinstance(dt, SDt)), dt.tag == first)) if isinstance(dt, SDt)
                        else n == 0))
        if case["copy"]:
            out.append(("added members are independent copies, in order", z3.ForAll([k], z3.Implies(z3.And(k >= 0, k < n), z3.And(
                z3.Select(em.elems, L0 + k) >= h.alloc0, z3.Select(h.arr["data"], z3.Select(em.elems, L0 + k)) >= h.alloc0,
                rec_fields_equal(lay, h.arr, z3.Select(h.arr["data"], z3.Select(em.elems, L0 + k)), arrs0,
                                 z3.Select(arrs0["data"], z3.Select(src.elems, k)), case["dim"]))))))
        else:
            out.append(("added members are the given objects, in order",
                        z3.ForAll([k], z3.Implies(z3.And(k >= 0, k < n), z3.Select(em.elems, L0 + k) == z3.Select(src.elems, k)))))
        return out


# ---------------------------------------------------------------------------------------------------
KEY_RS = f"{EM}:Emulsion.remove_small"


@loop(KEY_RS, 0)
class RemoveSmallLoop(LoopSpec):
    """for i in reversed(range(len(self))): indices below the cursor are untouched, the tail is the filtered tail"""

    threshold_name = "min_radius"

    def measure(self, run, me, g):
        """the quantity compared with the threshold, as a function of the ORIGINAL index"""
        view = EmView(run, me.dim, me.cls_name, g["E0"])
        return view.radius

    def init_ghost(self, run, env):
        me = env["self"]
        c = next(run.counter)
        run.ghost["rs"] = dict(E0=me.elems, L0=to_z3(me.length), idx=z3.Function(f"rsidx!{c}", I, I))
        j = z3.Int("rj")
        run.assume(z3.ForAll([j], run.ghost["rs"]["idx"](j) == j))

    def havoc(self, run, env):
        me = env["self"]
        me.length = run.fresh_int("len")
        me.elems = z3.Const(f"elems!{next(run.counter)}", me.elems.sort())
        g = run.ghost["rs"]
        g["idx"] = z3.Function(f"rsidx!{next(run.counter)}", I, I)

    def invariant(self, run, env, it, seq):
        me = env["self"]
        g = run.ghost["rs"]
        size = self.measure(run, me, g)
        thr = env[self.threshold_name]
        mr = to_real(thr) if not hasattr(thr, "sign") else None
        L0, n = g["L0"], to_z3(me.length)
        cur = L0 - it            # originals with index >= cur have been processed
        k, l = z3.Ints("sk sl")
        idx = g["idx"]
        keep = (lambda j: size(j) > mr) if mr is not None else (lambda j: z3.BoolVal(True))
        yield ("cursor and length", z3.And(it >= 0, it <= L0, n >= cur, n <= L0))
        if mr is not None:
            la = z3.Int("la")
            allkeep = z3.ForAll([la], z3.Implies(z3.And(la >= 0, la < L0), keep(la)))
            yield ("if every member is above the threshold nothing has been removed",
                   z3.Implies(allkeep, z3.And(n == L0, z3.ForAll([k], z3.Implies(z3.And(k >= 0, k < n), idx(k) == k)))))
        yield ("members below the cursor are untouched", z3.ForAll([k], z3.Implies(z3.And(k >= 0, k < cur), z3.And(
            z3.Select(me.elems, k) == z3.Select(g["E0"], k), idx(k) == k))))
        yield ("members from the cursor on are exactly the kept originals, in order",
               z3.And(z3.ForAll([k], z3.Implies(z3.And(k >= cur, k < n), z3.And(idx(k) >= cur, idx(k) < L0, keep(idx(k)),
                                                                             z3.Select(me.elems, k) == z3.Select(g["E0"], idx(k))))),
                      z3.ForAll([k, l], z3.Implies(z3.And(k >= cur, k < l, l < n), idx(k) < idx(l))),
                      # every kept original at or after the cursor is present: count argument via the inverse map
                      z3.ForAll([l], z3.Implies(z3.And(l >= cur, l < L0, keep(l)),
                                                z3.And(g["inv"](l) >= cur, g["inv"](l) < n, idx(g["inv"](l)) == l))) if "inv" in g else z3.BoolVal(True)))

    def before_body(self, run, env, it, seq):
        g = run.ghost["rs"]
        g["old_idx"] = g["idx"]
        g["old_n"] = to_z3(env["self"].length)

    def after_body(self, run, env, it, seq):
        me = env["self"]
        g = run.ghost["rs"]
        i = to_z3(env["i"])
        popped = to_z3(me.length) < g["old_n"]
        nidx = z3.Function(f"rsidx!{next(run.counter)}", I, I)
        k = z3.Int("uk")
        run.define(z3.ForAll([k], nidx(k) == z3.If(popped, z3.If(k < i, g["old_idx"](k), g["old_idx"](k + 1)), g["old_idx"](k))),
                   "ghost update (definition)")
        g["idx"] = nidx


@register
class RemoveSmall(Contract):
    key = KEY_RS
    modular = False

    def cases(self):
        return [dict(cls=c, dim=2) for c in CLASSES]

    def setup(self, run, case):
        lay = layout_of(case["cls"], case["dim"])
        touch_layout(run, lay)
        em = sym_em(run, "self", case["dim"], case["cls"])
        mr = run.input_real("min_radius")
        self.ctx = (run, em, mr, lay, snapshot(run), em.elems, to_z3(em.length))
        return dict(self=em, min_radius=mr)

    def post(self, a, ret, case):
        run, em, mr, lay, arrs0, E0, L0 = self.ctx
        g = run.ghost.get("rs")
        if g is None:
            return [("the filter loop ran", False)]
        view0 = EmView(run, case["dim"], case["cls"], E0, arrs0)
        n = to_z3(em.length)
        k, l = z3.Ints("fk fl")
        idx = g["idx"]
        return [("every remaining droplet is larger than min_radius and is an original object; order is kept",
                 z3.And(z3.ForAll([k], z3.Implies(z3.And(k >= 0, k < n), z3.And(idx(k) >= 0, idx(k) < L0, view0.radius(idx(k)) > mr,
                                                                              z3.Select(em.elems, k) == z3.Select(E0, idx(k))))),
                        z3.ForAll([k, l], z3.Implies(z3.And(k >= 0, k < l, l < n), idx(k) < idx(l))))),
                ("if every member is above the threshold the emulsion is unchanged",
                 z3.Implies(z3.ForAll([l], z3.Implies(z3.And(l >= 0, l < L0), view0.radius(l) > mr)),
                            z3.And(n == L0, z3.ForAll([k], z3.Implies(z3.And(k >= 0, k < n), z3.Select(em.elems, k) == z3.Select(E0, k)))))),
                ("droplet data is not modified", frame_old_records(run, arrs0, lay)),
                ("returns None", ret is None)]


# ---------------------------------------------------------------------------------------------------
def sym_real_list(run, name):
    L = run.input_int(f"{name}_len")
    run.assume(L >= 0)
    arr = z3.Array(f"{name}_vals", I, Rl)
    lst = H.SListObj(run, None, L, arr, lambda v: v, tag=name)
    lst.unwrap = lambda run, v: to_real(v)
    return lst


def sym_track(run, name, dim, cls_name):
    lay = layout_of(cls_name, dim)
    touch_layout(run, lay)
    drops = sym_emulsion(run, f"{name}_droplets", dim, cls_name)
    drops.cls = None
    drops.fields = {}
    times = sym_real_list(run, f"{name}_times")
    run.assume(to_z3(times.length) == to_z3(drops.length))      # representation invariant
    h = H.heap_of(run)
    kk = z3.Int("dk")
    run.assume(z3.ForAll([kk], DTYPE_DIM(z3.Select(h.arr["dtype_tag"], z3.Select(h.arr["data"], z3.Select(drops.elems, kk)))) == dim))
    tcls = source.get_class(TR, "DropletTrack")
    return SObj(tcls, {"droplets": drops, "times": times}, tag=name)


@register
class TrackAppend(Contract):
    """DropletTrack.append(droplet, time): stores an independent copy, stamped with `time` (also for time == 0)"""
    key = f"{TR}:DropletTrack.append"

    def cases(self):
        out = [dict(cls=c, dim=2, time=t) for c in CLASSES for t in ("given", "none")]
        out.append(dict(cls="SphericalDroplet", dim=2, time="given", other_dim=3))
        return out

    def setup(self, run, case):
        tr = sym_track(run, "self", case["dim"], case["cls"])
        ddim = case.get("other_dim", case["dim"])
        touch_layout(run, layout_of(case["cls"], ddim))
        d = sym_heap_droplet(run, "droplet", ddim, case["cls"])
        t = run.input_real("time") if case["time"] == "given" else None
        drops, times = tr.fields["droplets"], tr.fields["times"]
        if case.get("other_dim"):
            run.assume(to_z3(drops.length) > 0)
        self.ctx = (run, tr, d, t, layout_of(case["cls"], case["dim"]), snapshot(run), drops.elems, to_z3(drops.length), times.elems)
        return dict(self=tr, droplet=d, time=t)

    def post(self, a, ret, case):
        run, tr, d, t, lay, arrs0, E0, L0, T0 = self.ctx
        if case.get("other_dim"):
            return [("a droplet of another space dimension is rejected (ValueError)", False)]
        h = H.heap_of(run)
        drops, times = tr.fields["droplets"], tr.fields["times"]
        if not (isinstance(drops, H.SListObj) and isinstance(times, H.SListObj)):
            return [("track keeps its two lists", False)]
        k = z3.Int("tk")
        new = z3.Select(drops.elems, L0)
        nrec = h.read("data", new, sort=I)
        drec0 = z3.Select(arrs0["data"], d.ref)
        exp_t = t if t is not None else z3.If(L0 == 0, z3.RealVal(0), z3.Select(T0, L0 - 1) + 1)
        return [("times and droplets grow together by one", z3.And(to_z3(drops.length) == L0 + 1, to_z3(times.length) == L0 + 1)),
                ("earlier entries stay in place", z3.ForAll([k], z3.Implies(z3.And(k >= 0, k < L0), z3.And(
                    z3.Select(drops.elems, k) == z3.Select(E0, k), z3.Select(times.elems, k) == z3.Select(T0, k))))),
                ("the stored droplet is a new object with a new data record", z3.And(new >= h.alloc0, nrec >= h.alloc0)),
                ("the stored droplet holds the values of the given droplet (unchanged copy)", rec_fields_equal(lay, h.arr, nrec, arrs0, drec0, case["dim"])),
                ("the entry is stamped with the given time (default: previous + 1, or 0 for the first)", z3.Select(times.elems, L0) == exp_t),
                ("nothing that existed before is modified (the given droplet included)", frame_old_records(run, arrs0, lay))]

    def raises(self, a, exc, case):
        if case.get("other_dim"):
            return [("raises ValueError", exc.cls_name == "ValueError")]
        return [(f"no exception escapes (raised {exc.cls_name})", False)]


@register
class TrackDuration(Contract):
    key = f"{TR}:DropletTrack.duration"
    modular = False

    def setup(self, run, case):
        tr = sym_track(run, "self", 2, "SphericalDroplet")
        self.ctx = tr
        return dict(self=tr)

    def call(self, engine, run, fi, a, case):
        return engine.call_function(run, fi, [a["self"]], {})

    def post(self, a, ret, case):
        times = self.ctx.fields["times"]
        L = to_z3(times.length)
        return [("duration == last time - first time (0 for an empty track)",
                 to_real(ret) == z3.If(L > 0, z3.Select(times.elems, L - 1) - z3.Select(times.elems, 0), z3.RealVal(0)))]


KEY_RST = f"{TR}:DropletTrackList.remove_short_tracks"


@register
class ETCAppend(Contract):
    key = f"{EM}:EmulsionTimeCourse.append"
    modular = False

    def cases(self):
        return [dict(time=t, copy=c) for t in ("given", "none") for c in (True, False)]

    def setup(self, run, case):
        # the time course: two aligned python lists (emulsions are opaque references here)
        n = run.input_int("n")
        run.assume(n >= 0)
        ems = H.SListObj(run, None, n, z3.Array("etc_ems", I, I), lambda r: SOpaque("emulsion", term=r), tag="emulsions")
        ems.unwrap = lambda run, v: v.term if isinstance(v, SOpaque) else (_ for _ in ()).throw(Undecided("non-emulsion stored"))
        times = sym_real_list(run, "etc_times")
        run.assume(to_z3(times.length) == n)
        cls = source.get_class(EM, "EmulsionTimeCourse")
        me = SObj(cls, {"emulsions": ems, "times": times})
        t = run.input_real("time") if case["time"] == "given" else None
        arg = SOpaque("emulsion-arg", term=z3.Int("arg_em"))
        self.ctx = (run, me, ems.elems, times.elems, n, t, arg)
        return dict(self=me, emulsion=arg, time=t, copy=case["copy"])

    def call(self, engine, run, fi, a, case):
        # Emulsion(emulsion) and emulsion.copy() are modelled as uninterpreted functions of the argument (their
        # own contracts: EmulsionInit / EmulsionCopy); what is verified here is the pairing of members and times.
        mk = z3.Function("Emulsion_of", I, I)
        cp = z3.Function("copy_of", I, I)
        copies = self.copies = []

        def em_ctor(run2, args, kw):
            v = args[0]
            r = SOpaque("emulsion", term=mk(v.term))
            def do_copy(run3, a3, k3):
                mr = a3[0] if a3 else k3.get("min_radius")
                copies.append((list(a3), dict(k3)))
                return SOpaque("emulsion", term=cp(mk(v.term)))
            r.attrs["copy"] = SNative(do_copy, "Emulsion.copy")
            return r
        clo_mod = source.load_module(fi.module)
        from pyvc.engine import Frame
        clo = Frame(None, {"Emulsion": SNative(em_ctor, "Emulsion")}, None, clo_mod)
        self.fns = (mk, cp)
        args = [a["self"], a["emulsion"]]
        return engine.call_function(run, fi, args, dict(time=a["time"], copy=a["copy"]), closure=clo)

    def post(self, a, ret, case):
        run, me, E0, T0, n, t, arg = self.ctx
        mk, cp = self.fns
        ems, times = me.fields["emulsions"], me.fields["times"]
        if not (isinstance(ems, H.SListObj) and isinstance(times, H.SListObj)):
            return [("time course keeps its two lists", False)]
        k = z3.Int("ek")
        exp_t = t if t is not None else z3.If(n == 0, z3.RealVal(0), z3.Select(T0, n - 1) + 1)
        exp_e = cp(mk(arg.term)) if case["copy"] else mk(arg.term)
        return [("times and emulsions grow together by one", z3.And(to_z3(ems.length) == n + 1, to_z3(times.length) == n + 1)),
                ("earlier entries stay paired and in place", z3.ForAll([k], z3.Implies(z3.And(k >= 0, k < n), z3.And(
                    z3.Select(ems.elems, k) == z3.Select(E0, k), z3.Select(times.elems, k) == z3.Select(T0, k))))),
                ("the new member is (a copy of) Emulsion(argument)", z3.Select(ems.elems, n) == exp_e),
                ("the copy keeps EVERY member: copy() is called at most once and without a radius filter (vanished droplets of radius 0 are members too)",
                 len(self.copies) == (1 if case["copy"] else 0) and all(not a_ and (not k_ or (set(k_) == {"min_radius"} and isinstance(const_of(k_["min_radius"]), (int, float, __import__("fractions").Fraction)) and const_of(k_["min_radius"]) < 0)) for a_, k_ in self.copies)),
                ("the new member is paired with the given time, also when it is 0 (default: previous + 1, or 0 first)",
                 z3.Select(times.elems, n) == exp_t)]


@register
class ETCClear(Contract):
    key = f"{EM}:EmulsionTimeCourse.clear"
    modular = False

    def setup(self, run, case):
        cls = source.get_class(EM, "EmulsionTimeCourse")
        me = SObj(cls, {"emulsions": sym_real_list(run, "e"), "times": sym_real_list(run, "t")})
        self.me = me
        return dict(self=me)

    def post(self, a, ret, case):
        e, t = self.me.fields["emulsions"], self.me.fields["times"]
        return [("both lists are emptied (they stay aligned)", isinstance(e, list) and isinstance(t, list) and e == [] and t == [] and e is not t)]


@register
class EmulsionInterfaceWidth(Contract):
    """Emulsion.interface_width: surface-area weighted mean of the set widths (None if there is none)"""
    key = f"{EM}:Emulsion.interface_width"
    modular = False

    def cases(self):
        return [dict(cls="DiffuseDroplet", dim=d) for d in (1, 2, 3)] + [dict(cls="SphericalDroplet", dim=2)]

    def setup(self, run, case):
        lay = layout_of(case["cls"], case["dim"])
        touch_layout(run, lay)
        em = sym_em(run, "self", case["dim"], case["cls"])
        h = H.heap_of(run)
        view = EmView(run, case["dim"], case["cls"], em.elems)
        k = z3.Int("wk")
        run.assume(z3.ForAll([k], view.radius(k) >= 0))
        self.ctx = (run, em, view)
        return dict(self=em)

    def call(self, engine, run, fi, a, case):
        return engine.call_function(run, fi, [a["self"]], {})

    def post(self, a, ret, case):
        run, em, view = self.ctx
        g = run.ghost.get("iw")
        if case["cls"] == "SphericalDroplet":
            return [("droplets without an interface width give None", ret is None)]
        if g is None:
            return [("the averaging loop ran", False)]
        n = to_z3(em.length)
        W, A = g["W"](n), g["A"](n)
        if ret is None:
            return [("None is returned exactly when no member contributes interface area", A == 0)]
        return [("result * (sum of areas of members with a width) == sum of width * area over those members", to_real(ret) * A == W),
                ("a value is returned only if the total contributing area is non-zero", A != 0)]


@loop(f"{EM}:Emulsion.interface_width", 0)
class WidthLoop(LoopSpec):
    """width == sum_{k<i, width_k set} w_k * S(r_k),   area == sum_{k<i, width_k set} S(r_k)"""

    def init_ghost(self, run, env):
        c = next(run.counter)
        W, A = z3.Function(f"Wsum!{c}", I, Rl), z3.Function(f"Asum!{c}", I, Rl)
        run.ghost["iw"] = dict(W=W, A=A)
        run.define(z3.And(W(0) == 0, A(0) == 0), "series base")

    def havoc(self, run, env):
        env["width"] = run.fresh_real("width")
        env["area"] = run.fresh_real("area")

    def invariant(self, run, env, i, seq):
        g = run.ghost["iw"]
        yield ("width == partial sum of width_k * area_k", to_real(env["width"]) == g["W"](i))
        yield ("area == partial sum of area_k", to_real(env["area"]) == g["A"](i))
        if "interface_width" not in env["self"].elem_layout:
            yield ("without interface widths nothing is accumulated", z3.And(g["A"](i) == 0, g["W"](i) == 0))

    def before_body(self, run, env, i, seq):
        me = env["self"]
        g = run.ghost["iw"]
        h = H.heap_of(run)
        rec = h.read("data", z3.Select(me.elems, i), sort=I)
        if "interface_width" in me.elem_layout:
            isnan = h.read("interface_width__nan", rec, sort=B)
            w = h.read("interface_width", rec)
            area = S.S(me.dim, h.read("radius", rec))
            area = area if isinstance(area, z3.ExprRef) else z3.RealVal(area)
            run.define(z3.And(g["W"](i + 1) == g["W"](i) + z3.If(isnan, z3.RealVal(0), w * area),
                              g["A"](i + 1) == g["A"](i) + z3.If(isnan, z3.RealVal(0), area)), "series unfolding")
        else:
            run.define(z3.And(g["W"](i + 1) == g["W"](i), g["A"](i + 1) == g["A"](i)), "series unfolding")


# ===================================================================================================
# concrete side (replay + bounded tier): the same clauses checked natively on small real collections
def _mk_droplets(cls_name, dim, n, seed, special=0):
    import numpy as np
    import droplets.droplets as dd
    rng = np.random.default_rng(seed)
    out = []
    for k in range(n):
        pos = rng.uniform(-3, 3, dim)
        r = [1.0, 0.5, 2.0, 1.0, 0.0][(k + special) % 5]
        if cls_name == "SphericalDroplet":
            out.append(dd.SphericalDroplet(pos, r))
        else:
            w = [0.0, 1.0, None, 0.5][(k + special) % 4]
            out.append(dd.DiffuseDroplet(pos, r, w))
    return out


def _vals(d):
    import numpy as np
    from numpy.lib.recfunctions import structured_to_unstructured as s2u
    return (type(d).__name__, tuple(np.nan_to_num(s2u(d.data), nan=-12345.0).tolist()), d.data.dtype)


def _independent(a, b):
    """two droplets do not share their data storage"""
    import numpy as np
    return a is not b and not np.shares_memory(np.asarray(a.data), np.asarray(b.data))


def _seeds(self, case, tier, seed, n=8):
    for t in range(n if tier == "quick" else 10 * n):
        yield dict(seed=seed * 1000 + t, n=[0, 1, 2, 3, 5][t % 5], special=t % 5)


def _conc_copy(self, case, inputs):
    d = _mk_droplets(case["cls"], case["dim"], 1, inputs["seed"], inputs["special"])[0]
    before = _vals(d)
    c = d.copy()
    bad = []
    if type(c) is not type(d) or _vals(c) != before:
        bad.append("the copy holds equal values (same dtype)")
    if not _independent(c, d):
        bad.append("the copy owns a new data record")
    c.radius = c.radius + 1
    if _vals(d) != before:
        bad.append("nothing that existed before is modified")
    return dict(violated=bad, observed=repr(c), inputs=inputs)


DropletCopy.bounded_inputs = _seeds
DropletCopy.concrete_run = _conc_copy


def _conc_em_append(self, case, inputs):
    import droplets
    ds = _mk_droplets(case["cls"], case["dim"], inputs["n"], inputs["seed"], inputs["special"])
    em = droplets.Emulsion(ds, copy=False) if case["dtype"] == "set" and ds else droplets.Emulsion()
    members = list(em)
    if case.get("alias") == "member":
        if not members:
            return dict(violated=[], observed="no member", inputs=inputs)
        d = members[inputs["seed"] % len(members)]
    else:
        other_cls = case["cls"] if inputs["special"] % 2 else ("DiffuseDroplet" if case["cls"] == "SphericalDroplet" else "SphericalDroplet")
        d = _mk_droplets(other_cls, case["dim"], 1, inputs["seed"] + 7, inputs["special"])[0]
    before_d = _vals(d)
    before_m = [_vals(m) for m in members]
    dt0 = em.dtype
    mismatch = case["force_consistency"] and dt0 is not None and dt0 != d.data.dtype
    bad = []
    try:
        em.append(d, copy=case["copy"], force_consistency=case["force_consistency"])
    except ValueError:
        if not mismatch:
            bad.append("only a data-layout mismatch under force_consistency raises")
        if list(em) != members or any(a is not b for a, b in zip(em, members)):
            bad.append("a rejected droplet leaves the emulsion unchanged")
        return dict(violated=bad, observed="ValueError", inputs=inputs)
    except Exception as e:   # noqa: BLE001
        return dict(violated=[f"unexpected exception {type(e).__name__}: {e}"], inputs=inputs)
    if mismatch:
        bad.append("a droplet of another data layout is rejected when consistency is requested")
    if [_vals(m) for m in members] != before_m:
        bad.append("nothing that existed before is modified")
    if len(em) != len(members) + 1 or any(a is not b for a, b in zip(em, members)):
        bad.append("earlier members stay in place")
    else:
        new = em[len(members)]
        if case["copy"]:
            if not _independent(new, d) or any(not _independent(new, m) for m in members):
                bad.append("the stored droplet is a new object (independent of the caller's)")
            if _vals(new) != before_d:
                bad.append("the stored droplet holds the caller's values")
            d.radius = d.radius + 1          # later changes to the caller's object do not leak in
            if _vals(new) != before_d:
                bad.append("the stored droplet is a new object (independent of the caller's)")
        elif new is not d:
            bad.append("copy=False stores the caller's object itself (documented sharing)")
    return dict(violated=sorted(set(bad)), observed=f"len {len(em)}", inputs=inputs)


EmulsionAppend.bounded_inputs = _seeds
EmulsionAppend.concrete_run = _conc_em_append


def _conc_extend(self, case, inputs):
    import droplets
    ds = _mk_droplets(case["cls"], case["dim"], inputs["n"], inputs["seed"], inputs["special"])
    src = _mk_droplets(case["cls"], case["dim"], (inputs["n"] + 2) % 4, inputs["seed"] + 1, inputs["special"] + 1)
    em = droplets.Emulsion(ds, copy=False)
    if case.get("dtype") == "none":
        em = droplets.Emulsion()
    if case.get("src") == "emulsion":
        src = droplets.Emulsion(src, copy=False)
    members = list(em)
    before = [_vals(x) for x in src]
    em.extend(src, copy=case["copy"])
    bad = []
    if case.get("dtype") == "none" and len(src) > 0:
        if em.dtype is None or em.dtype != src[0].data.dtype:
            bad.append("an emulsion without dtype adopts the data layout of the first droplet added")
        else:
            other = droplets.SphericalDroplet([0.0] * (case["dim"] + 1), 1.0)
            try:
                em.append(other, force_consistency=True)
                bad.append("a droplet of another layout is rejected when consistency is requested")
            except ValueError:
                pass
    if len(em) != len(members) + len(src) or any(a is not b for a, b in zip(em, members)):
        bad.append("old members stay in place")
    else:
        for k, x in enumerate(src):
            new = em[len(members) + k]
            if case["copy"]:
                if not _independent(new, x) or _vals(new) != before[k]:
                    bad.append("added members are independent copies, in order")
            elif new is not x:
                bad.append("added members are the given objects, in order")
    return dict(violated=sorted(set(bad)), observed=f"len {len(em)}", inputs=inputs)


EmulsionExtend.bounded_inputs = _seeds
EmulsionExtend.concrete_run = _conc_extend


def _conc_remove_small(self, case, inputs):
    import droplets
    ds = _mk_droplets(case["cls"], case["dim"], inputs["n"], inputs["seed"], inputs["special"])
    em = droplets.Emulsion(ds, copy=False)
    members = list(em)
    # thresholds include values exactly equal to a member's radius and the default -inf
    for mr in [float("-inf"), -1.0, 0.0, 0.5, 1.0, 2.0, 3.0]:
        e2 = droplets.Emulsion(members, copy=False)
        e2.remove_small(mr)
        exp = [m for m in members if m.radius > mr]
        if len(e2) != len(exp) or any(a is not b for a, b in zip(e2, exp)):
            return dict(violated=["result is the order-preserving filter `radius > min_radius` of the original objects"],
                        observed=f"min_radius={mr}: {len(members)} -> {len(e2)} (expected {len(exp)})", inputs=inputs)
    return dict(violated=[], observed="ok", inputs=inputs)


RemoveSmall.bounded_inputs = _seeds
RemoveSmall.concrete_run = _conc_remove_small


def _conc_track_append(self, case, inputs):
    import droplets
    from droplets.droplet_tracks import DropletTrack
    n = inputs["n"]
    ds = _mk_droplets(case["cls"], case["dim"], n, inputs["seed"], inputs["special"])
    times0 = [[-2.5, -0.5, 0.0, 3.0, 4.5][k] for k in range(n)]
    tr = DropletTrack(ds, times0) if n else DropletTrack()
    d = _mk_droplets(case["cls"], case.get("other_dim", case["dim"]), 1, inputs["seed"] + 3, inputs["special"])[0]
    before = _vals(d)
    stored = list(tr.droplets)
    bad = []
    for t in ([0, 0.0, -1.0, 7.5] if case["time"] == "given" else [None]):
        tr2 = DropletTrack(ds, times0) if n else DropletTrack()
        try:
            tr2.append(d, t) if t is not None else tr2.append(d)
        except ValueError:
            if not (case.get("other_dim") and n > 0):
                bad.append("no exception escapes (raised ValueError)")
            continue
        if case.get("other_dim") and n > 0:
            bad.append("a droplet of another space dimension is rejected (ValueError)")
            continue
        exp_t = t if t is not None else (0 if n == 0 else times0[-1] + 1)
        if len(tr2.times) != n + 1 or len(tr2.droplets) != n + 1:
            bad.append("times and droplets grow together by one")
            continue
        if tr2.times[-1] != exp_t or list(tr2.times[:-1]) != times0:
            bad.append("the entry is stamped with the given time (default: previous + 1, or 0 for the first)")
        if _vals(tr2.droplets[-1]) != before or not _independent(tr2.droplets[-1], d):
            bad.append("the stored droplet holds the values of the given droplet (unchanged copy)")
    return dict(violated=sorted(set(bad)), observed="ok", inputs=inputs)


TrackAppend.bounded_inputs = _seeds
TrackAppend.concrete_run = _conc_track_append


def _conc_etc_append(self, case, inputs):
    import droplets
    n = inputs["n"]
    ems = [droplets.Emulsion(_mk_droplets("SphericalDroplet", 2, (k + 1) % 3, inputs["seed"] + k)) for k in range(n)]
    times0 = [[-2.5, -0.5, 0.0, 3.0, 4.5][k] for k in range(n)]
    arg = droplets.Emulsion(_mk_droplets("DiffuseDroplet", 2, 2, inputs["seed"] + 9, inputs["special"]))
    bad = []
    for t in ([0, 0.0, -1.0, 7.5] if case["time"] == "given" else [None]):
        etc = droplets.EmulsionTimeCourse(ems, times0)
        kw = dict(copy=case["copy"])
        if t is not None:
            kw["time"] = t
        etc.append(arg, **kw)
        exp_t = t if t is not None else (0 if n == 0 else times0[-1] + 1)
        if len(etc.times) != n + 1 or len(etc.emulsions) != n + 1:
            bad.append("times and emulsions grow together by one")
            continue
        if etc.times[-1] != exp_t or list(etc.times[:-1]) != times0:
            bad.append("the new member is paired with the given time, also when it is 0 (default: previous + 1, or 0 first)")
        if [_vals(x) for x in etc.emulsions[-1]] != [_vals(x) for x in arg]:
            bad.append("the new member is (a copy of) Emulsion(argument)")
        if case["copy"] and any(not _independent(x, y) for x, y in zip(etc.emulsions[-1], arg)):
            bad.append("the new member is (a copy of) Emulsion(argument)")
    return dict(violated=sorted(set(bad)), observed="ok", inputs=inputs)


ETCAppend.bounded_inputs = _seeds
ETCAppend.concrete_run = _conc_etc_append


def _conc_width(self, case, inputs):
    import itertools
    import math
    import droplets
    from droplets.tools.spherical import surface_from_radius
    ds = _mk_droplets(case["cls"], case["dim"], inputs["n"], inputs["seed"], inputs["special"])
    ds = [d for d in ds if d.radius > 0]
    em = droplets.Emulsion(ds, copy=False)
    got = em.interface_width
    W = A = 0.0
    for d in ds:
        w = getattr(d, "interface_width", None)
        if w is not None:
            a = float(surface_from_radius(d.radius, case["dim"]))
            W += w * a
            A += a
    bad = []
    if A == 0:
        if got is not None:
            bad.append("None is returned exactly when no member contributes interface area")
    elif got is None or not math.isclose(got, W / A, rel_tol=1e-12, abs_tol=1e-12):
        bad.append("result * (sum of areas of members with a width) == sum of width * area over those members")
    for perm in itertools.islice(itertools.permutations(ds), 6):
        g2 = droplets.Emulsion(list(perm), copy=False).interface_width
        if (g2 is None) != (got is None) or (got is not None and not math.isclose(g2, got, rel_tol=1e-12, abs_tol=1e-12)):
            bad.append("summary queries do not depend on member order")
    return dict(violated=sorted(set(bad)), observed=repr(got), inputs=inputs)


EmulsionInterfaceWidth.bounded_inputs = _seeds
EmulsionInterfaceWidth.concrete_run = _conc_width
