"""C17 -- length scales are physical lengths: they scale with the grid, not the field."""
from contracts import collections as co, emulsions as em, lengthscale as ls, structure as sfc
from pyvc.bounded import ContractSampling

LEVEL = "other"
LEVEL_TEXT = ("get_length_scale is verified (whole body, all three methods and their aliases) on a grid whose every length carries an explicit "
              "stretch factor lam > 0, using the contract of get_structure_factor (C16, verified in this check too): moment-based: L * sum(k S) == "
              "2 pi sum(S) lam; droplet-counting: L**d * (number of detected droplets) == product of (upper - lower) bounds, the caller's options "
              "reach locate_droplets unchanged; peak-based: raw structure factor with the zero mode, bracket [k*/w, k*, k* w] around the largest "
              "non-zero mode, L = 2 pi / minimiser, NaN only if every search failed; an unknown method raises ValueError. Covariance under a "
              "stretch is proved RELATIONALLY (self-composition: the path's assumptions are duplicated with lam := 1): L(lam) == lam L(1) for "
              "all methods, and for the peak-based method the smoothing width and the bracket scale like wave numbers (this obligation found "
              "defect F9). Invariance under a constant factor / translation is inherited from the structure-factor contract. The accuracy "
              "clause (within half a Fourier bin for plane waves) depends on scipy's minimize_scalar on a kernel-smoothed comb: no contract "
              "decides it, it is only sampled (bounded) - hence level 'other'.")
LEVEL_NOTE = ("ASSUMED: contract of get_structure_factor (C16) incl. DFT facts; SmoothData1D is homogeneous in the unit of the abscissa; "
              "minimize_scalar's result is determined by objective and bracket (covariant); sums are linear, argmax/min/max commute with a "
              "positive factor; locate_droplets finds the same number of droplets on a stretched grid; preconditions: the field is not constant, "
              "at least one droplet is detected (otherwise ZeroDivisionError, allowed only then); Cartesian grids; A-FP")
# the droplet-counting method counts what locate_droplets keeps: the size filter and the overlap removal (with the grid's metric) are on its path
CONTRACTS = [ls.GetLengthScale().ident, sfc.StructureFactor().ident, co.RemoveSmall().ident, em.PairwiseDistances().ident, em.RemoveOverlapping().ident]
LEMMAS = ["structure-factor-normalisation-and-invariances"]
CLAUSES = {"stretching the grid stretches the length scale (moment-based, droplet-counting: exactly)": "proved (relational obligations)",
           "peak-based: covariant to within the Fourier resolution": "proved modulo the assumed covariance of SmoothData1D / minimize_scalar; sampled",
           "unchanged by a constant factor / periodic translation": "from the C16 contract (proved there modulo DFT facts); sampled",
           "plane wave: finite, within half a Fourier bin": "bounded only (optimiser behaviour: not applicable to contracts)",
           "droplet-counting returns the d-th root of the volume per detected droplet": "proved"}
BOUNDED = [ContractSampling("length-scales-of-plane-waves", [ls.GetLengthScale().ident],
                            "4 (quick) / 30 (thorough) plane waves per case (9 cases = methods x aliases x dims 1-3 x default / given smoothing): unequal "
                            "shapes 12..64, anisotropic spacings, shifted origins, 1..n/4 periods per box along a random axis, amplitudes, offsets, "
                            "phases; each on the grid stretched by 1e-2, 0.1, 1, 10, 100, with the field multiplied by 3.5 / 1e-9 / 1e6 and rolled by "
                            "whole cells; peak method: finite and within half a Fourier bin of the true wave number"),
           ContractSampling("structure-factor-vs-brute-force-dft", [sfc.StructureFactor().ident],
                            "as in C16 (the dependency's contract is re-validated here): 6 / 40 random fields per case against a brute-force DFT")]
