"""Contract objects: sidecar specifications bound to functions of the real source by key."""
from __future__ import annotations

import os
import time
import traceback

import z3

from . import solve, source
from .engine import Engine, LoopSpec, PathEnd, SymRaise, Truncated
from .values import SExc, Undecided

REGISTRY: dict[str, "Contract"] = {}
LOOPS: dict[tuple, LoopSpec] = {}
LEMMAS: dict[str, "Lemma"] = {}


def register(obj):
    inst = obj() if isinstance(obj, type) else obj
    if isinstance(inst, Contract):
        REGISTRY[inst.ident] = inst
        for ordinal, spec in inst.loops.items():
            LOOPS[(inst.key, ordinal)] = spec
    elif isinstance(inst, Lemma):
        LEMMAS[inst.name] = inst
    return obj


def loop(key, ordinal):
    def deco(cls):
        LOOPS[(key, ordinal)] = cls() if isinstance(cls, type) else cls
        return cls
    return deco


class Contract:
    key: str = ""
    variant: str = ""          # several contracts may bind the same function (e.g. stronger precondition)
    modular: bool = True       # used at call sites of other verified functions
    call_site: bool = False    # a variant that is *the* call-site form of its key
    loops: dict = {}
    max_paths = 400
    trusted: tuple = ()
    branch_timeout_ms = 3000   # feasibility checks at branches (unknown = feasible)
    cover_timeout_ms = 2500    # reachability covers (unknown is reported as such, never as reachable)

    @property
    def ident(self):
        return self.key + (("%" + self.variant) if self.variant else "")

    def cases(self):
        return [dict()]

    def case_name(self, case):
        return ",".join(f"{k}={v}" for k, v in case.items()) or "-"

    # --- verification side
    def setup(self, run, case):
        """Create symbolic inputs; returns dict param -> value.  Must `run.assume` the requires."""
        raise NotImplementedError

    def call(self, engine, run, fi, a, case):
        """Invoke the function under verification on the set-up arguments."""
        params = [p.arg for p in fi.node.args.posonlyargs + fi.node.args.args]
        args = [a[p] for p in params if p in a]
        kw = {p.arg: a[p.arg] for p in fi.node.args.kwonlyargs if p.arg in a}
        return engine.call_function(run, fi, args, kw, closure=self.closure(engine, run, fi, a, case))

    def closure(self, engine, run, fi, a, case):
        return None

    def pre(self, a, case):
        return []

    def post(self, a, ret, case):
        return []

    def post_truncated(self, a, case):
        """clauses about the state at a truncation point (see LoopSpec.truncate)"""
        return []

    def raises(self, a, exc: SExc, case):
        return [(f"no exception escapes (raised {exc.cls_name})", False)]

    # --- modular use at a call site
    def apply(self, engine, run, fi, args, kwargs):
        raise Undecided(f"contract {self.ident} has no modular form")

    # --- concrete side (replay / bounded tier); executed with the analysed tree on sys.path
    def realise(self, case, model):
        """model (name -> value) -> JSON-able inputs of `concrete_run`."""
        return {k: solve.to_float(v) for k, v in (model or {}).items()}

    def concrete_run(self, case, inputs):
        """Run the real function natively; return dict(violated=[clause names], observed=...)."""
        return None

    def search(self, case, tier, seed):
        """Bounded search for an input on which the concrete contract fires (used when a counter-model
        cannot be realised or does not reproduce)."""
        if not hasattr(self, "bounded_inputs"):
            return None
        for inp in self.bounded_inputs(case, tier, seed):
            try:
                res = self.concrete_run(case, inp)
            except Exception as e:   # noqa: BLE001
                res = dict(violated=[f"harness exception {type(e).__name__}: {e}"], inputs=inp)
            if res and res.get("violated"):
                res.setdefault("inputs", inp)
                return res
        return None


class Lemma:
    name = ""
    trusted: tuple = ()

    def obligations(self):
        """yield (name, assumptions(list), goal)"""
        return []

    def sentinels(self):
        """yield (name, assumptions(list), goal) that must NOT be provable (deliberately weakened hypotheses): an `unsat` answer means the
        hypotheses of the lemma are contradictory or the solver set-up is unsound - reported as a checker failure"""
        return []


# ---------------------------------------------------------------------------
def make_engine(exclude_ident=None, modular_keys=None, prefer=None):
    modular = {}
    for ident, c in REGISTRY.items():
        if c.modular and (not c.variant or c.call_site) and ident != exclude_ident:
            if modular_keys is None or c.key in modular_keys:
                if c.key not in modular or c.call_site:
                    modular[c.key] = c
    # a contract may name the call-site variant it was written against (several variants of one function can be registered in a process)
    for key, variant in (prefer or {}).items():
        c = REGISTRY.get(f"{key}%{variant}")
        if c is not None:
            modular[key] = c
    eng = Engine(modular=modular)
    eng.loop_specs = dict(LOOPS)
    return eng


def verify_case(ident, case_index):
    """Worker: generate and discharge the VCs of one (contract, case).  Returns a JSON-able dict."""
    t0 = time.time()
    c = REGISTRY[ident]
    case = c.cases()[case_index]
    out = dict(contract=ident, key=c.key, case=c.case_name(case), case_index=case_index, obligations=[], covers=[],
               trusted=[], paths=0, undecided=None, time_s=0.0, source_hash=None, span=None)
    try:
        fi = source.get_function(c.key)
    except (KeyError, FileNotFoundError) as e:
        out["undecided"] = f"cannot bind contract: {e}"
        return out
    out["source_hash"] = fi.source_hash()
    out["span"] = [str(source.load_module(fi.module).path), fi.span[0], fi.span[1]]
    eng = make_engine(exclude_ident=ident, modular_keys=getattr(c, "modular_keys", None), prefer=getattr(c, "prefer_variants", None))
    eng.max_paths = c.max_paths
    eng.branch_timeout_ms = c.branch_timeout_ms

    def body(run):
        run._verifying = c.key
        run.cur_func = c.key
        a = c.setup(run, case)
        for nm, f in c.pre(a, case):
            run.assume(f)
        run.cover("requires")
        try:
            ret = c.call(eng, run, fi, a, case)
        except Truncated:
            run.cur_func = c.key
            for nm, g in c.post_truncated(a, case):
                run.oblige(nm, g, kind="ensures", assume_after=False)
            raise
        except SymRaise as e:
            run.cur_func = c.key
            for nm, g in c.raises(a, e.exc, case):
                run.oblige(nm, g, kind="raises", assume_after=False,
                           meta=dict(exc=e.exc.cls_name, line=getattr(e.node, "lineno", None)))
            run.cover(f"exit by {e.exc.cls_name}")
            return ("raise", e.exc.cls_name)
        run.cur_func = c.key
        for nm, g in c.post(a, ret, case):
            run.oblige(nm, g, kind="ensures", assume_after=False)
        run.cover("exit")
        return ("return", None)

    try:
        results = eng.explore(body)
    except Undecided as e:
        out["undecided"] = f"{e}"
        out["time_s"] = time.time() - t0
        return out
    except Exception as e:   # engine crash
        out["crash"] = traceback.format_exc()
        out["time_s"] = time.time() - t0
        return out
    out["paths"] = len(results)
    seen = set()
    trusted = set(c.trusted)
    und = sorted({o[1] for _, o in results if o[0] == "undecided"})
    if und:
        out["undecided"] = "; ".join(und)[:600]
    for run, outcome in results:
        trusted |= run.trusted
        trusted |= {"fact:" + f for f in run.facts_used}
        for ob in run.obligations:
            sig = (ob.ident(), ob.goal.sexpr() if hasattr(ob.goal, "sexpr") else str(ob.goal),
                   tuple(a.get_id() for a in ob.assumptions))
            if sig in seen:
                continue
            seen.add(sig)
            r = None
            core = getattr(ob, "core", None)
            if core is not None and len(core) < len(ob.assumptions):
                # stage 1: the goal may already follow from the path-independent facts (weaker hypotheses suffice)
                r0 = solve.discharge(core, ob.goal, None, want_model=False, timeout_ms=2000, fallbacks=False)
                if r0["status"] == "unsat":
                    r = r0
                    r["backend"] += " (path-independent)"
            if r is None:
                r = solve.discharge(ob.assumptions, ob.goal, ob.inputs)
            if r["status"] == "unknown" and z3.is_false(z3.simplify(ob.goal) if z3.is_expr(ob.goal) else ob.goal):
                # a goal that is literally false fails iff its path is feasible; quantified facts often make that check inconclusive: decide
                # feasibility without them (weaker hypotheses; the branch decisions of the path were made the same way)
                qf = [a_ for a_ in ob.assumptions if not _has_quantifier(a_)]
                r2 = solve.discharge(qf, ob.goal, ob.inputs, timeout_ms=3000, fallbacks=False)
                if r2["status"] == "sat":
                    r = r2
                    r["backend"] += " (path feasibility decided without quantified facts)"
            rec = dict(ident=ob.ident(), name=ob.name, kind=ob.kind, func=ob.func, line=ob.line,
                       status=r["status"], backend=r["backend"], time_s=round(r["time_s"], 4), model=r.get("model"),
                       meta=ob.meta, tried=r.get("tried"))
            if r["status"] == "unsat" and os.environ.get("VERIF_TIER") == "thorough" and os.environ.get("PYVC_CROSS", "1") == "1":
                used = core if (core is not None and "path-independent" in r["backend"]) else ob.assumptions
                rec["cross"] = solve.cross_check(used, ob.goal)
            if r["status"] != "unsat" or len(out["obligations"]) < 2:
                try:
                    txt = solve.smt2_of(ob.assumptions, ob.goal)
                    rec["smt2_bytes"] = len(txt)
                    if r["status"] != "unsat":
                        rec["smt2"] = txt[-6000:]
                except Exception:
                    pass
            out["obligations"].append(rec)
        for nm, assumptions, func, line in run.covers:
            st = solve.is_sat(assumptions, timeout_ms=c.cover_timeout_ms)
            out["covers"].append(dict(name=nm, func=func, line=line, status=st, outcome=outcome[0]))
    out["trusted"] = sorted(trusted)
    out["trivial"] = eng.trivial
    out["time_s"] = round(time.time() - t0, 3)
    return out


def verify_lemma(name):
    t0 = time.time()
    lem = LEMMAS[name]
    out = dict(contract="lemma:" + name, key="lemma:" + name, case="-", case_index=0, obligations=[], covers=[],
               trusted=list(lem.trusted), paths=1, undecided=None, time_s=0.0, source_hash=None, span=None)
    try:
        for nm, assumptions, goal in lem.obligations():
            inputs = dict(getattr(lem, "model_vars", {}) or {})
            r = solve.discharge(list(assumptions), goal, inputs)
            rec = dict(ident=f"lemma:{name}::{nm}", name=nm, kind="lemma", func="lemma:" + name, line=0,
                       status=r["status"], backend=r["backend"], time_s=round(r["time_s"], 4), model=r.get("model"), meta={},
                       tried=r.get("tried"))
            out["obligations"].append(rec)
            # quantified hypotheses: z3 cannot build a model (it would answer `unknown` after the full time-out); the lemma's sentinels stand in
            st = "unknown" if any(_has_quantifier(a) for a in assumptions) else solve.is_sat(list(assumptions))
            out["covers"].append(dict(name=f"{nm}: hypotheses satisfiable", func="lemma:" + name, line=0, status=st,
                                      outcome="lemma"))
        for nm, assumptions, goal in lem.sentinels():
            r = solve.discharge(list(assumptions), goal, {}, timeout_ms=3000, fallbacks=False)
            out["covers"].append(dict(name=f"sentinel (must not be provable): {nm}", func="lemma:" + name, line=0,
                                      status="unsat" if r["status"] == "unsat" else ("sat" if r["status"] == "sat" else "unknown"), outcome="lemma"))
    except Undecided as e:
        out["undecided"] = str(e)
    except Exception:
        out["crash"] = traceback.format_exc()
    out["time_s"] = round(time.time() - t0, 3)
    return out


def _has_quantifier(f):
    stack, seen = [f], set()
    while stack:
        x = stack.pop()
        if x.get_id() in seen:
            continue
        seen.add(x.get_id())
        if z3.is_quantifier(x):
            return True
        stack.extend(x.children())
    return False


def run_task(task):
    kind = task[0]
    if kind == "case":
        return verify_case(task[1], task[2])
    if kind == "lemma":
        return verify_lemma(task[1])
    raise ValueError(task)
