"""C08 -- saving and loading returns an equal object."""
from contracts import collections as co, io
from pyvc.contract import register

LEVEL = "other"
LEVEL_TEXT = ("Every function between a collection and its file is under contract, against an ASSUMED contract of h5py (a file is a map key -> "
              "(structured array | empty scalar, attributes), stored exactly): EmulsionTimeCourse.to_file / DropletTrackList.to_file write member i "
              "through the member's _write_hdf_dataset under the key f'time_{i:06d}' / f'track_{i:06d}', frames with exactly their own time stamp "
              "(loop-body contracts, any number of members); Emulsion/DropletTrack._write_hdf_dataset create exactly one dataset under the given "
              "key holding `self.data` and the class name of a member (empty: scalar dataset tagged 'None'); Emulsion.data and DropletTrack.data "
              "refuse (TypeError) collections mixing classes - so the single tag describes every row - and DropletTrack.data prepends exactly the "
              "time column; the from_file functions visit the datasets in sorted key order, decode the j-th dataset and append it with the time "
              "stored with that very dataset; Emulsion/DropletTrack._from_hdf_dataset re-create member k from row k with the dataset's tag "
              "(time column stripped, times re-paired in order), members stored as read (copy=False); DropletTrack.append / "
              "EmulsionTimeCourse.append keep a given time also when it is 0. Key lemma (z3, digit tuples): zero-padded keys sort in index order "
              "below 10**6 members in plain string order and, by (length, key), for every count up to 10**18 - the order the code uses; for plain "
              "sorted() the unbounded obligation has a counter-model (999999 / 1000000), which found defect F11. Field transport through "
              "h5py / numpy records and the class registry (droplet_from_data) are assumed and covered by the exhaustive class matrix with the "
              "real h5py (bounded) - hence level 'other'.")
LEVEL_NOTE = ("ASSUMED: h5py stores / returns structured float64 arrays and scalar attributes exactly, lists keys, iterates rows in order; numpy "
              "record field transport incl. NaN; rec_drop_fields; np.array of records; droplet_from_data(cls, record) == original (exhaustive class "
              "matrix only); induction over loop iterations from the verified loop-body contracts (meta-argument); indices beyond 10**18 not "
              "considered; A-FP irrelevant (no arithmetic on stored values: value transport)")
register(io.KeyOrderPlain)
register(io.KeyOrderLen)
CONTRACTS = [c.ident for c in (io.ETCToFile(), io.TLToFile(), io.ETCFromFile(), io.TLFromFile(), io.EmWriteDataset(), io.TrackWriteDataset(),
                                 io.EmFromDataset(), io.TrackFromDataset(), io.TrackData(), io.EmulsionDataGuard(), co.TrackAppend(), co.ETCAppend())]
LEMMAS = [io.KeyOrderPlain.name, io.KeyOrderLen.name]
CLAUSES = {"same times in the same order (key order, time attribute, time column)": "proved modulo the h5py contract",
           "same droplet classes (tag / payload pairing, single-class guard)": "proved modulo the h5py contract",
           "bit-identical parameters": "value transport assumed (h5py / numpy records); exhaustive class matrix with the real h5py (bounded)",
           "empty collections and empty members": "proved (tag 'None')",
           "writing succeeds or raises, never writes something else": "proved for mixed classes (TypeError); other numpy conversion errors: bounded"}
BOUNDED = [io.RoundTrips()]
