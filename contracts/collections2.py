"""C20, second batch: summaries, copies / slices / sums of collections, nearest-time lookup, trajectories (heap contracts as in collections.py)."""
from __future__ import annotations

import z3

from pyvc import heap as H, models, ops, source, spec as S
from pyvc.contract import Contract, loop, register
from pyvc.engine import LoopSpec, SymRaise, _MISSING
from pyvc.values import SArr, SCell, SClassRef, SExc, SNative, SObj, SOpaque, SSeq, Undecided, to_real, to_z3

from .collections import (CLASSES, DM, EM, TR, I, Rl, B, frame_old_records, layout_of, rec_fields_equal, snapshot, sym_em, sym_heap_droplet,
                          sym_real_list, sym_track, touch_layout)
from .emulsions import EmView
from . import droplets as _dr      # noqa: F401  (assumed model of Cuboid.from_points, droplet accessors)


class _Sums:
    """records calls of the builtin sum() on symbolic-length sequences: the value is a fresh real that stands for the fold, the contract states
    what the summands are (A-PY: sum(xs, start) == start + xs[0] + ... + xs[n-1], left to right)"""

    def __init__(self, run):
        self.calls = []
        self.run = run

    def install(self, seq):
        me = self

        def sym_sum(run, start):
            tot = run.fresh_real("sum")
            me.calls.append((seq, start, tot))
            return tot
        seq.sym_sum = sym_sum


_orig_comp = models.symbolic_comprehension


def _comp_with_sum(engine, run, node, gen, seq, cfr):
    out = _orig_comp(engine, run, node, gen, seq, cfr)
    s = run.ghost.get("sums")
    if s is not None and isinstance(out, SSeq):
        s.install(out)
    return out


models.symbolic_comprehension = _comp_with_sum


@register
class TotalVolume(Contract):
    """Emulsion.total_droplet_volume == sum over the members of V_d(radius)"""
    key = f"{EM}:Emulsion.total_droplet_volume"
    modular = False

    def cases(self):
        return [dict(cls=c, dim=d) for c in CLASSES for d in (1, 2, 3)]

    def setup(self, run, case):
        lay = layout_of(case["cls"], case["dim"])
        touch_layout(run, lay)
        em = sym_em(run, "self", case["dim"], case["cls"])
        view = EmView(run, case["dim"], case["cls"], em.elems)
        run.ghost["sums"] = _Sums(run)
        self.ctx = (run, em, view, snapshot(run), lay)
        return dict(self=em)

    def call(self, engine, run, fi, a, case):
        return engine.call_function(run, fi, [a["self"]], {})

    def post(self, a, ret, case):
        run, em, view, arrs0, lay = self.ctx
        calls = run.ghost["sums"].calls
        if len(calls) != 1:
            return [("the total is one sum over the members", False)]
        seq, start, tot = calls[0]
        k = z3.Int("sk_member")
        return [("the sum runs over all members, starting from zero", z3.And(to_z3(seq.length) == to_z3(em.length), to_real(start) == 0)),
                ("the summand of member k is its volume V_d(radius_k)",
                 z3.Implies(z3.And(k >= 0, k < to_z3(em.length)), to_real(seq.at(k)) == to_real(S.V(case["dim"], view.radius(k))))),
                ("the sum is what is returned", ret is tot),
                ("no droplet is modified", frame_old_records(run, arrs0, lay))]


# ---------------------------------------------------------------------------------------------------
class CtorRec(SObj):
    """an object created by a recorded constructor call (the constructor has its own contract)"""

    def __init__(self, cls, args, kwargs):
        super().__init__(cls, {})
        self.args, self.kwargs = list(args), dict(kwargs)


def _record_ctor(run, name):
    recs = []
    models.CONSTRUCTORS[name] = lambda eng, run2, cls, args, kw: (recs.append(CtorRec(cls, args, kw)) or recs[-1])
    return recs


@register
class EmulsionCopy(Contract):
    """Emulsion.copy(min_radius): a new emulsion holding independent copies of exactly the members with radius > min_radius, in order"""
    key = f"{EM}:Emulsion.copy"
    modular = False

    def cases(self):
        return [dict(cls=c, dim=2, min_radius=m) for c in CLASSES for m in ("default", "given")]

    def setup(self, run, case):
        lay = layout_of(case["cls"], case["dim"])
        touch_layout(run, lay)
        em = sym_em(run, "self", case["dim"], case["cls"])
        view = EmView(run, case["dim"], case["cls"], em.elems)
        self.ctors = _record_ctor(run, "Emulsion")
        mr = run.input_real("min_radius") if case["min_radius"] == "given" else None
        self.ctx = (run, em, view, snapshot(run), lay, mr)
        a = dict(self=em)
        if mr is not None:
            a["min_radius"] = mr
        return a

    def post(self, a, ret, case):
        from .parallel import SFilterMap
        run, em, view, arrs0, lay, mr = self.ctx
        h = H.heap_of(run)
        out = [("the result is one new emulsion of the same class, built from the list of copies (copying them once more or not is immaterial)",
                len(self.ctors) == 1 and ret is self.ctors[0] and ret.cls.name == "Emulsion" and len(ret.args) == 1 and set(ret.kwargs) <= {"copy"})]
        if not out[0][1]:
            return out
        lst = ret.args[0]
        if not isinstance(lst, SFilterMap):
            return out + [("the new members are produced from the members of this emulsion, one by one", False)]
        k = z3.Int("sk_member")
        inr = z3.And(k >= 0, k < to_z3(em.length))
        thr = mr if mr is not None else z3.RealVal(-1)
        srck = lst.src.at(k)
        out.append(("the new members are produced from the members of this emulsion, one by one, in order",
                    z3.And(to_z3(lst.n) == to_z3(em.length), srck.ref == z3.Select(em.elems, k)) if isinstance(srck, H.SRefObj) else False))
        out.append(("member k is kept exactly when its radius exceeds min_radius (default -1: every droplet, also a vanished one of radius 0)",
                    z3.Implies(inr, to_z3(lst.keep(k)) == (view.radius(k) > thr))))
        v = lst.val(k)
        if not isinstance(v, H.SRefObj):
            return out + [("a kept member is stored as a copy", False)]
        nrec = h.read("data", v.ref, sort=I)
        out.append(("a kept member is stored as a NEW object with a NEW data record holding the member's values (independent of the source)",
                    z3.Implies(inr, z3.And(v.ref >= h.alloc0, nrec >= h.alloc0,
                                           rec_fields_equal(lay, h.arr, nrec, arrs0, z3.Select(arrs0["data"], z3.Select(em.elems, k)), case["dim"])))))
        out.append(("the source emulsion and its droplets are not modified", z3.And(frame_old_records(run, arrs0, lay), to_z3(em.length) == to_z3(em.length))))
        return out


# ---------------------------------------------------------------------------------------------------
@register
class ExtendCall(Contract):
    """Emulsion.extend at the call site inside Emulsion.__init__ (its own contract: EmulsionExtend, verified separately)"""
    key = f"{EM}:Emulsion.extend"
    variant = "init-call"
    call_site = True

    def cases(self):
        return []

    def apply(self, engine, run, fi, args, kwargs):
        g = run.ghost.get("em_init")
        if g is None:
            return NotImplemented
        run.trust(f"contract:{self.key} (verified separately): appends (copies of) the given droplets in order")
        g["extends"].append((list(args), dict(kwargs)))
        return None


@register
class EmulsionInit(Contract):
    """Emulsion(droplets, copy=, dtype=, force_consistency=): an empty emulsion with the declared dtype, extended by exactly the given droplets with
    exactly the given flags (default: copies)"""
    key = f"{EM}:Emulsion.__init__"
    modular = False

    def cases(self):
        return [dict(droplets=d, copy=c, dtype=t) for d in ("given", "none") for c in ("default", False) for t in ("none", "droplet")]

    def setup(self, run, case):
        me = H.SListObj(run, source.get_class(EM, "Emulsion"), 0, z3.K(I, z3.IntVal(0)), None, tag="new emulsion")
        me.fields = {}
        run.ghost["em_init"] = dict(extends=[])
        drops = SOpaque("the given droplets") if case["droplets"] == "given" else None
        kw = {}
        if case["copy"] is False:
            kw["copy"] = False
        self.fc = run.input_bool("force_consistency")
        kw["force_consistency"] = self.fc
        self.example_dt = None
        if case["dtype"] == "droplet":
            touch_layout(run, layout_of("DiffuseDroplet", 2))
            ex = sym_heap_droplet(run, "example", 2, "DiffuseDroplet")
            kw["dtype"] = ex
            h = H.heap_of(run)
            self.example_dt = h.read("dtype_tag", h.read("data", ex.ref, sort=I), sort=I)
        self.ctx = (run, me, drops, kw)
        return dict(self=me, droplets=drops, **kw)

    def call(self, engine, run, fi, a, case):
        run_, me, drops, kw = self.ctx
        return engine.call_function(run, fi, [me, drops], dict(kw))

    def post(self, a, ret, case):
        from .collections import SDt
        run, me, drops, kw = self.ctx
        ext = run.ghost["em_init"]["extends"]
        dt = me.fields.get("dtype", "missing")
        out = []
        if case["dtype"] == "none":
            out.append(("without a declared dtype the emulsion starts with dtype None (the first droplet defines it)", dt is None))
        else:
            out.append(("an example droplet declares its data layout as the emulsion's dtype", isinstance(dt, SDt) and dt.tag == self.example_dt))
        if drops is None:
            out.append(("without droplets the emulsion stays empty", not ext and to_z3(me.length) == 0))
        else:
            ok = len(ext) == 1 and ext[0][0][0] is me and (ext[0][0][1:] == [drops] or ext[0][1].get("droplets") is drops)
            out.append(("the given droplets are added by one call of extend on the new, empty emulsion", bool(ok) and to_z3(me.length) == 0))
            if ok:
                k = ext[0][1]
                out.append(("the copy flag is forwarded (default: droplets are stored as independent copies)",
                            (k.get("copy", True) is True) if case["copy"] == "default" else (k.get("copy", True) is False)))
                out.append(("the consistency flag is forwarded", k.get("force_consistency", False) is self.fc or
                            (z3.is_expr(k.get("force_consistency")) and z3.eq(k.get("force_consistency"), self.fc))))
        return out


# ---------------------------------------------------------------------------------------------------
class _Concat:
    """list.__add__(a, b) of two symbolic lists"""

    def __init__(self, a, b):
        self.a, self.b = a, b


class _Sliced:
    """list.__getitem__(lst, key) with a slice key"""

    def __init__(self, lst, key):
        self.lst, self.key = lst, key


def _list_unbound(run):
    """`list.__add__` / `list.__getitem__` called unbound on list subclasses (Emulsion, DropletTrackList)"""
    def add(run2, a, k):
        return _Concat(a[0], a[1])

    def getitem(run2, a, k):
        lst, key = a
        if isinstance(key, slice) or isinstance(key, SOpaque) and key.tag == "slice":
            return _Sliced(lst, key)
        return run2.engine.getitem(run2, lst, key) if hasattr(run2.engine, "getitem") else models.getitem(run2.engine, run2, lst, key)
    return SOpaque("list", attrs={"__add__": SNative(add, "list.__add__"), "__getitem__": SNative(getitem, "list.__getitem__")})


@register
class EmulsionAdd(Contract):
    """a + b for emulsions: a NEW emulsion built from the concatenation with the default copy behaviour (members are independent copies)"""
    key = f"{EM}:Emulsion.__add__"
    modular = False

    def cases(self):
        return [dict(cls=c, dim=2) for c in CLASSES]

    def setup(self, run, case):
        lay = layout_of(case["cls"], case["dim"])
        touch_layout(run, lay)
        a_, b_ = sym_em(run, "self", case["dim"], case["cls"]), sym_em(run, "rhs", case["dim"], case["cls"])
        self.ctors = _record_ctor(run, "Emulsion")
        self.ctx = (run, a_, b_, snapshot(run), lay)
        return dict(self=a_, rhs=b_)

    def call(self, engine, run, fi, a, case):
        from pyvc.engine import Frame
        clo = Frame(None, {"list": _list_unbound(run)}, None, source.load_module(fi.module))
        return engine.call_function(run, fi, [a["self"], a["rhs"]], {}, closure=clo)

    def post(self, a, ret, case):
        run, a_, b_, arrs0, lay = self.ctx
        ok = len(self.ctors) == 1 and ret is self.ctors[0] and ret.cls.name == "Emulsion" and len(ret.args) == 1
        out = [("the sum is one new emulsion built from a list", ok)]
        if not ok:
            return out
        lst = ret.args[0]
        out.append(("... which is the plain concatenation of the two operands' members (left operand first)",
                    isinstance(lst, _Concat) and lst.a is a_ and lst.b is b_))
        out.append(("... with the DEFAULT copy behaviour of the constructor: every member of the sum is an independent copy (EmulsionInit / EmulsionExtend), "
                    "so later changes of an operand's droplets do not leak into the sum and vice versa",
                    ret.kwargs.get("copy", True) is True and set(ret.kwargs) <= {"copy"}))
        out.append(("the operands are not modified", z3.And(frame_old_records(run, arrs0, lay))))
        return out


_Sliced.sym_isinstance = lambda self, run, t: False
_Concat.sym_isinstance = lambda self, run, t: False


@register
class EmulsionGetitem(Contract):
    """emulsion[i] is the member itself; emulsion[a:b] is a NEW emulsion built from the slice with the default copy behaviour (independent copies)"""
    key = f"{EM}:Emulsion.__getitem__"
    modular = False

    def cases(self):
        return [dict(cls=c, dim=2, key=k) for c in CLASSES for k in ("index", "slice")]

    def setup(self, run, case):
        lay = layout_of(case["cls"], case["dim"])
        touch_layout(run, lay)
        em = sym_em(run, "self", case["dim"], case["cls"])
        self.ctors = _record_ctor(run, "Emulsion")
        if case["key"] == "index":
            key = run.input_int("index")
            run.assume(z3.And(key >= 0, key < to_z3(em.length)))
        else:
            key = slice(SOpaque("start"), SOpaque("stop"), None)
        self.ctx = (run, em, key, snapshot(run), lay)
        return dict(self=em, key=key)

    def call(self, engine, run, fi, a, case):
        from pyvc.engine import Frame
        clo = Frame(None, {"list": _list_unbound(run)}, None, source.load_module(fi.module))
        return engine.call_function(run, fi, [a["self"], a["key"]], {}, closure=clo)

    def post(self, a, ret, case):
        run, em, key, arrs0, lay = self.ctx
        if case["key"] == "index":
            return [("an integer key returns the member itself (the emulsion's own object, not a copy)",
                     isinstance(ret, H.SRefObj) and ret.ref == z3.Select(em.elems, key) and not self.ctors),
                    ("nothing is modified", frame_old_records(run, arrs0, lay))]
        ok = len(self.ctors) == 1 and ret is self.ctors[0] and ret.cls.name == "Emulsion" and len(ret.args) == 1
        out = [("a slice returns one new emulsion built from a list", ok)]
        if ok:
            lst = ret.args[0]
            out.append(("... which is the plain list slice of the members", isinstance(lst, _Sliced) and lst.lst is em and lst.key is key))
            out.append(("... with the DEFAULT copy behaviour of the constructor: the members of a slice are independent copies of the source's members",
                        ret.kwargs.get("copy", True) is True and set(ret.kwargs) <= {"copy"}))
        out.append(("nothing is modified", frame_old_records(run, arrs0, lay)))
        return out


# ---------------------------------------------------------------------------------------------------
def _sliceable(lst):
    """general slices of a symbolic list are kept as (list, key) pairs: what matters to the contracts is WHICH key is applied to WHICH list"""
    orig = lst.raw_getitem

    def raw_getitem(run, idx):
        if isinstance(idx, slice):
            return _Sliced(lst, idx)
        return orig(run, idx)
    lst.raw_getitem = raw_getitem
    return lst


def _sym_etc(run, name="etc"):
    n = run.input_int(f"{name}_len")
    run.assume(n >= 0)
    ems = H.SListObj(run, None, n, z3.Array(f"{name}_emulsions", I, I), lambda v: SOpaque("emulsion", term=v), tag=f"{name}.emulsions")
    ems.unwrap = lambda run2, v: v.term if isinstance(v, SOpaque) else (_ for _ in ()).throw(Undecided("non-emulsion stored"))
    times = sym_real_list(run, f"{name}_times")
    run.assume(to_z3(times.length) == n)      # representation invariant: times and emulsions are aligned
    me = SObj(source.get_class(EM, "EmulsionTimeCourse"), {"emulsions": _sliceable(ems), "times": _sliceable(times)}, tag=name)
    return me, ems, times, n


class _PairGetitem(Contract):
    """container[key] of a collection that pairs members with times: an integer key gives the member itself, a slice a new collection of the same class
    built from the SAME slice of both lists (so members and times stay paired)"""
    modular = False
    members = "emulsions"
    ctor = "EmulsionTimeCourse"

    def cases(self):
        return [dict(key="index"), dict(key="slice")]

    def mk(self, run):
        raise NotImplementedError

    def setup(self, run, case):
        me, mem, times, n = self.mk(run)
        self.ctors = _record_ctor(run, self.ctor)
        if case["key"] == "index":
            key = run.input_int("index")
            run.assume(z3.And(key >= 0, key < n))
        else:
            key = slice(SOpaque("start"), SOpaque("stop"), SOpaque("step"))
        self.ctx = (run, me, mem, times, key, mem.elems, times.elems, n)
        return dict(self=me, key=key)

    def post(self, a, ret, case):
        run, me, mem, times, key, E0, T0, n = self.ctx
        frame = ("the collection itself is not changed", me.fields[self.members] is mem and me.fields["times"] is times and z3.eq(mem.elems, E0) and
                 z3.eq(times.elems, T0) and z3.eq(to_z3(mem.length), n))
        if case["key"] == "index":
            got = getattr(ret, "term", None) if not isinstance(ret, H.SRefObj) else ret.ref
            return [("an integer key returns member `key` itself", got is not None and not self.ctors and got == z3.Select(E0, key)), frame]
        ok = len(self.ctors) == 1 and ret is self.ctors[0] and ret.cls.name == self.ctor and not ret.args and set(ret.kwargs) == {self.members, "times"}
        out = [(f"a slice returns one new {self.ctor} built from members and times", ok)]
        if ok:
            m_, t_ = ret.kwargs[self.members], ret.kwargs["times"]
            out.append(("members and times are cut with the SAME slice of this collection's two lists (they stay paired)",
                        isinstance(m_, _Sliced) and isinstance(t_, _Sliced) and m_.lst is mem and t_.lst is times and m_.key is key and t_.key is key))
        return out + [frame]


@register
class ETCGetitem(_PairGetitem):
    key = f"{EM}:EmulsionTimeCourse.__getitem__"

    def mk(self, run):
        return _sym_etc(run)


@register
class TrackGetitem(_PairGetitem):
    key = f"{TR}:DropletTrack.__getitem__"
    members = "droplets"
    ctor = "DropletTrack"

    def mk(self, run):
        tr = sym_track(run, "self", 2, "SphericalDroplet")
        d, t = tr.fields["droplets"], tr.fields["times"]
        _sliceable(d), _sliceable(t)
        return tr, d, t, to_z3(d.length)


@register
class ETCLen(Contract):
    key = f"{EM}:EmulsionTimeCourse.__len__"
    modular = False

    def setup(self, run, case):
        me, ems, times, n = _sym_etc(run)
        self.n = n
        return dict(self=me)

    def post(self, a, ret, case):
        return [("the length of a time course is the number of its (aligned) members", to_z3(ret) == self.n)]


@register
class TrackTimeOverlaps(Contract):
    """DropletTrack.time_overlaps: the two (non-empty) tracks share a time exactly when each starts no later than the other ends"""
    key = f"{TR}:DropletTrack.time_overlaps"
    modular = False

    def cases(self):
        return [dict(empty=False)]     # requires: both tracks hold at least one entry (tracks built by the library are never empty)

    def setup(self, run, case):
        a_, b_ = sym_track(run, "self", 2, "SphericalDroplet"), sym_track(run, "other", 2, "SphericalDroplet")
        ta, tb = a_.fields["times"], b_.fields["times"]
        if not case["empty"]:
            run.assume(z3.And(to_z3(ta.length) > 0, to_z3(tb.length) > 0))
        else:
            run.assume(to_z3(ta.length) == 0)
        self.ctx = (ta, tb)
        return dict(self=a_, other=b_)

    def post(self, a, ret, case):
        ta, tb = self.ctx
        if case["empty"]:
            return [("a track without entries has no start: IndexError", False)]
        La, Lb = to_z3(ta.length), to_z3(tb.length)
        s0, s1, o0, o1 = z3.Select(ta.elems, 0), z3.Select(ta.elems, La - 1), z3.Select(tb.elems, 0), z3.Select(tb.elems, Lb - 1)
        return [("overlap in time <=> self.start <= other.end and other.start <= self.end", to_z3(ret) == z3.And(s0 <= o1, o0 <= s1))]

    def raises(self, a, exc, case):
        if case["empty"]:
            return [("a track without entries has no start: IndexError", exc.cls_name == "IndexError")]
        return [(f"no exception escapes (raised {exc.cls_name})", False)]


# ---------------------------------------------------------------------------------------------------
from .collections import KEY_RST, RemoveSmallLoop   # noqa: E402

DURF = z3.Function("duration_of_track", I, Rl)


@loop(KEY_RST, 0)
class RemoveShortLoop(RemoveSmallLoop):
    """same reverse filter loop as Emulsion.remove_small, over tracks and their durations"""
    threshold_name = "min_duration"

    def measure(self, run, me, g):
        return lambda j: DURF(z3.Select(g["E0"], j))


@register
class RemoveShortTracks(Contract):
    """DropletTrackList.remove_short_tracks: order-preserving filter `duration > min_duration` of the same track objects"""
    key = KEY_RST
    modular = False

    def cases(self):
        return [dict()]

    def setup(self, run, case):
        n = run.input_int("n_tracks")
        run.assume(n >= 0)
        wrap = lambda ref: SOpaque("track", term=ref, attrs={"duration": DURF(ref)})      # noqa: E731  (duration: TrackDuration, verified separately)
        me = H.SListObj(run, source.get_class(TR, "DropletTrackList"), n, z3.Array("tracks", I, I), wrap, tag="self")
        me.unwrap = lambda run2, v: v.term
        me.fields = {}
        md = run.input_real("min_duration")
        self.ctx = (run, me, md, me.elems, n)
        return dict(self=me, min_duration=md)

    def post(self, a, ret, case):
        run, me, md, E0, L0 = self.ctx
        g = run.ghost.get("rs")
        if g is None:
            return [("the filter loop ran", False)]
        n = to_z3(me.length)
        k, l = z3.Ints("fk fl")
        idx = g["idx"]
        return [("every remaining track lasts longer than min_duration and is an original object; order is kept",
                 z3.And(z3.ForAll([k], z3.Implies(z3.And(k >= 0, k < n), z3.And(idx(k) >= 0, idx(k) < L0, DURF(z3.Select(E0, idx(k))) > md,
                                                                              z3.Select(me.elems, k) == z3.Select(E0, idx(k))))),
                        z3.ForAll([k, l], z3.Implies(z3.And(k >= 0, k < l, l < n), idx(k) < idx(l))))),
                ("if every track lasts longer than min_duration the list is unchanged",
                 z3.Implies(z3.ForAll([l], z3.Implies(z3.And(l >= 0, l < L0), DURF(z3.Select(E0, l)) > md)),
                            z3.And(n == L0, z3.ForAll([k], z3.Implies(z3.And(k >= 0, k < n), z3.Select(me.elems, k) == z3.Select(E0, k)))))),
                ("returns None", ret is None)]


# ---------------------------------------------------------------------------------------------------
@register
class ETCGetEmulsion(Contract):
    """EmulsionTimeCourse.get_emulsion(time): the member whose time stamp is closest to `time` (a member of a non-empty course, paired by index)"""
    key = f"{EM}:EmulsionTimeCourse.get_emulsion"
    modular = False

    def cases(self):
        return [dict()]

    def setup(self, run, case):
        me, ems, times, n = _sym_etc(run)
        run.assume(n >= 1)        # requires: a non-empty time course (numpy's argmin raises ValueError for an empty one)
        ksk = z3.Int("sk_entry")
        run.assume(z3.And(ksk >= 0, ksk < n))
        times.sym_asarray = lambda run2: SCell(z3.Select(times.elems, ksk), "times")
        g = run.ghost["argmin"] = []

        def hook(run2, cell):
            idx = run2.fresh_int("argmin")
            v = to_real(cell.v)
            run2.oblige("argmin is taken over an array with one entry per time stamp", z3.BoolVal(cell.space == "times"), kind="requires", assume_after=False)
            run2.define(z3.And(idx >= 0, idx < n, z3.substitute(v, (ksk, idx)) <= v), "ASSUMED (numpy.argmin): index of a smallest entry of a non-empty array")
            run2.trust("ASSUMED (numpy.argmin): returns the index of a smallest entry (the first one) of a non-empty array")
            g.append(idx)
            return idx
        run.ghost["argmin_hook"] = hook
        t = run.input_real("time")
        self.ctx = (run, me, ems, times, n, t, ksk)
        return dict(self=me, time=t)

    def post(self, a, ret, case):
        run, me, ems, times, n, t, ksk = self.ctx
        g = run.ghost["argmin"]
        if len(g) != 1 or getattr(ret, "term", None) is None:
            return [("the member is selected by one argmin over the time stamps", False)]
        idx = g[0]
        ab = lambda x: z3.If(x >= 0, x, -x)     # noqa: E731
        return [("the returned member is the one stored at the selected index (members and times are paired by index)", ret.term == z3.Select(ems.elems, idx)),
                ("no other member's time stamp is closer to the requested time", ab(z3.Select(times.elems, idx) - t) <= ab(z3.Select(times.elems, ksk) - t))]


# ---------------------------------------------------------------------------------------------------
def _record_np_stats(run):
    calls = []

    def mk(name):
        def f(engine, run2, a, k):
            r = run2.fresh_real(name)
            calls.append((name, a[0] if a else None, dict(k), r))
            run2.trust(f"ASSUMED (numpy.{name}): a function of the multiset of the given values (order-independent)")
            return r
        return f
    models.EXTERNALS["numpy.mean"] = mk("mean")
    models.EXTERNALS["numpy.std"] = mk("std")
    return calls


def _filter_len(fm, run):
    """len() of a filtered comprehension: a ghost count, 0 <= count <= length of the source (its value is the number of kept members by definition)"""
    if not hasattr(fm, "_count"):
        fm._count = run.fresh_int("count")
        run.define(z3.And(fm._count >= 0, fm._count <= to_z3(fm.n)), "count of a filter (definition)")
    return fm._count


@register
class SizeStatistics(Contract):
    """Emulsion.get_size_statistics: count / mean / std of the radii and volumes of all members, or of those with radius > 0 only"""
    key = f"{EM}:Emulsion.get_size_statistics"
    modular = False

    def cases(self):
        return [dict(cls="SphericalDroplet", dim=d, incl=i, empty=False) for d in (2, 3) for i in (True, False)] + \
               [dict(cls="SphericalDroplet", dim=2, incl=True, empty=True)]

    def setup(self, run, case):
        from .parallel import SFilterMap
        lay = layout_of(case["cls"], case["dim"])
        touch_layout(run, lay)
        em = sym_em(run, "self", case["dim"], case["cls"])
        run.assume(to_z3(em.length) == 0 if case["empty"] else to_z3(em.length) >= 1)
        view = EmView(run, case["dim"], case["cls"], em.elems)
        self.stats = _record_np_stats(run)
        SFilterMap.sym_len = lambda fm, run2: _filter_len(fm, run2)
        self.ctx = (run, em, view, snapshot(run), lay)
        return dict(self=em, incl_vanished=case["incl"])

    def post(self, a, ret, case):
        from .parallel import SFilterMap
        run, em, view, arrs0, lay = self.ctx
        keys = {"count", "radius_mean", "radius_std", "volume_mean", "volume_std"}
        if not (isinstance(ret, dict) and set(ret) == keys):
            return [("the result has exactly the five documented entries", False)]
        if case["empty"]:
            from pyvc.values import SMaybeNaN
            isnan = lambda v: isinstance(v, SMaybeNaN) and v.isnan is True       # noqa: E731
            return [("an empty emulsion has count 0 and not-a-number statistics", ret["count"] == 0 and all(isnan(ret[k_]) for k_ in keys - {"count"}) and not self.stats)]
        by = {(nm): (arg, r) for nm, arg, kw, r in self.stats}
        want = [("radius_mean", "mean"), ("radius_std", "std"), ("volume_mean", "mean"), ("volume_std", "std")]
        if len(self.stats) != 4 or any(kw for _, _, kw, _ in self.stats):
            return [("mean and standard deviation of radii and of volumes are taken (four numpy reductions with default options)", False)]
        out = []
        k = z3.Int("sk_member")
        inr = z3.And(k >= 0, k < to_z3(em.length))
        lists = {}
        for key_, red in want:
            hit = [(arg, r) for nm, arg, kw, r in self.stats if nm == red and ret[key_] is r]
            out.append((f"`{key_}` is numpy's {red} of one list", len(hit) == 1))
            if len(hit) == 1:
                lists[key_] = hit[0][0]
        if len(lists) != 4:
            return out
        out.append(("mean and standard deviation are taken of the same list (radii / volumes)",
                    lists["radius_mean"] is lists["radius_std"] and lists["volume_mean"] is lists["volume_std"]))
        for nm, spec in (("radius_mean", lambda j: view.radius(j)), ("volume_mean", lambda j: to_real(S.V(case["dim"], view.radius(j))))):
            lst = lists[nm]
            what = nm.split("_")[0]
            if case["incl"]:
                ok = isinstance(lst, SSeq)
                out.append((f"with vanished droplets included the {what} list has one entry per member: its {what}",
                            z3.And(to_z3(lst.length) == to_z3(em.length), z3.Implies(inr, to_real(lst.at(k)) == spec(k))) if ok else False))
            else:
                ok = isinstance(lst, SFilterMap)
                out.append((f"without vanished droplets the {what} list holds the {what} of exactly the members with radius > 0, in order",
                            z3.And(to_z3(lst.n) == to_z3(em.length), z3.Implies(inr, z3.And(to_z3(lst.keep(k)) == (view.radius(k) > 0), to_real(lst.val(k)) == spec(k))))
                            if ok else False))
        rl = lists["radius_mean"]
        cnt = ret["count"]
        if case["incl"]:
            out.append(("count is the number of members", z3.is_expr(cnt) and to_z3(cnt) == to_z3(em.length) if not isinstance(cnt, int) else False))
        else:
            out.append(("count is the length of the filtered radius list", getattr(rl, "_count", None) is not None and cnt is rl._count))
        out.append(("no droplet is modified", frame_old_records(run, arrs0, lay)))
        return out


# ---------------------------------------------------------------------------------------------------
KEY_LINK = f"{EM}:Emulsion.get_linked_data"


class _RowArr:
    """the array returned by Emulsion.data for n members: n NEW records (a block of fresh references), row k holding the values of member k"""

    def __init__(self, run, base, n, layout):
        self.run, self.base, self.n, self.layout = run, base, n, layout

    def sym_len(self, run):
        return self.n

    def sym_getitem(self, run, idx):
        i = to_z3(idx)
        run.oblige("row index in range (linked data)", z3.And(i >= 0, i < self.n), kind="implicit")
        return H.SRecRef(run, self.base + i, self.layout, "row")


@register
class DataCall(Contract):
    """Emulsion.data at the call site inside get_linked_data (its guard / row order: EmulsionDataGuard, verified in C08; here its heap effect)"""
    key = f"{EM}:Emulsion.data"
    variant = "linked-call"
    call_site = True

    def cases(self):
        return []

    def apply(self, engine, run, fi, args, kwargs):
        g = run.ghost.get("linked")
        if g is None or args[0] is not g["em"]:
            return NotImplemented
        me = args[0]
        h = H.heap_of(run)
        n = to_z3(me.length)
        base = h.ptr
        h.ptr = base + n
        r, q = z3.Int("lr"), z3.Int("lq")
        src = lambda rr: z3.Select(h.arr["data"], z3.Select(me.elems, rr - base))      # noqa: E731  record of member (rr - base)
        inblk = lambda rr: z3.And(rr >= base, rr < base + n)                           # noqa: E731
        for k_, kind in me.elem_layout.items():
            names = [k_] + ([k_ + "__nan"] if kind == "maybe_nan" else [])
            for nm in names:
                a = h.arr[nm]
                if kind in ("real", "maybe_nan"):
                    h.arr[nm] = z3.Lambda([r], z3.If(inblk(r), z3.Select(a, src(r)), z3.Select(a, r)))
                elif kind[0] == "vec":
                    V = H.Heap.VEC
                    h.arr[nm] = z3.Lambda([q], z3.If(inblk(q / V), z3.Select(a, src(q / V) * V + q % V), z3.Select(a, q)))
                else:
                    raise Undecided("linked data of droplets with amplitude vectors")
        a = h.arr["dtype_tag"]
        h.arr["dtype_tag"] = z3.Lambda([r], z3.If(inblk(r), z3.Select(a, src(r)), z3.Select(a, r)))
        run.trust("numpy: np.array([d.data for d in members]) is NEW storage whose row k holds the field values of member k (Emulsion.data; its class guard is verified in C08)")
        arr = _RowArr(run, base, n, me.elem_layout)
        g["array"] = arr
        return arr


@loop(KEY_LINK, 0)
class LinkLoop(LoopSpec):
    """for i, d in enumerate(self): d.data = data[i]  --  members below the cursor point at their row, all other objects are as before"""

    def init_ghost(self, run, env):
        g = run.ghost["linked"]
        g["data_mid"] = H.heap_of(run).arr["data"]

    def havoc(self, run, env):
        h = H.heap_of(run)
        h.havoc(["data"])

    def invariant(self, run, env, i, seq):
        g = run.ghost["linked"]
        h = H.heap_of(run)
        me, arr = g["em"], g.get("array")
        if arr is None or "data" not in env or env["data"] is not arr:
            yield ("the members are linked to the rows of the array built from the emulsion's data", z3.BoolVal(False))
            return
        r = z3.Int("ir")
        inv = g["INV"]
        linked = z3.And(inv(r) >= 0, inv(r) < i, z3.Select(me.elems, inv(r)) == r)
        yield ("every object's data reference: row k for member k below the cursor, unchanged for everything else",
               z3.ForAll([r], z3.Select(h.arr["data"], r) == z3.If(linked, arr.base + inv(r), z3.Select(g["data_mid"], r))))


@register
class LinkedData(Contract):
    """Emulsion.get_linked_data: afterwards droplet k's data IS row k of the returned array (one record, two names: a write through either is seen
    through the other), the rows hold the values the droplets had, and nothing else changes.  Requires distinct member objects."""
    key = KEY_LINK
    modular = False
    prefer_variants = {f"{EM}:Emulsion.data": "linked-call"}

    def cases(self):
        return [dict(cls=c, dim=d) for c in CLASSES for d in (2, 3)]

    def setup(self, run, case):
        lay = layout_of(case["cls"], case["dim"])
        touch_layout(run, lay)
        em = sym_em(run, "self", case["dim"], case["cls"])
        k, l = z3.Ints("dk dl")
        n = to_z3(em.length)
        INV = z3.Function("index_of_member", I, I)
        # requires: the members are distinct objects (true for emulsions filled with the default copy=True); INV is the inverse of the member list
        run.assume(z3.ForAll([k], z3.Implies(z3.And(k >= 0, k < n), INV(z3.Select(em.elems, k)) == k)))
        run.ghost["linked"] = dict(em=em, INV=INV)
        self.ctx = (run, em, lay, snapshot(run), INV)
        return dict(self=em)

    def post(self, a, ret, case):
        run, em, lay, arrs0, INV = self.ctx
        h = H.heap_of(run)
        g = run.ghost["linked"]
        arr = g.get("array")
        if arr is None or ret is not arr:
            return [("the array built from the emulsion's data is returned", False)]
        k = z3.Int("sk_member")
        n = to_z3(em.length)
        inr = z3.And(k >= 0, k < n)
        row = arr.base + k
        obj = z3.Select(em.elems, k)
        r = z3.Int("fr")
        out = [("droplet k's data IS row k of the returned array (the same record: writes through the array show in the droplet and vice versa)",
                z3.Implies(inr, z3.Select(h.arr["data"], obj) == row)),
               ("row k holds the values droplet k had before", z3.Implies(inr, rec_fields_equal(lay, h.arr, row, arrs0, z3.Select(arrs0["data"], obj), case["dim"]))),
               ("the rows are new storage", z3.Implies(inr, row >= h.alloc0)),
               ("the members stay the same objects in the same order", z3.And(z3.BoolVal(z3.eq(em.elems, self.ctx[1].elems)), to_z3(em.length) == n)),
               ("objects that are not members keep their data reference",
                z3.ForAll([r], z3.Implies(z3.And(r >= 0, r < h.alloc0, z3.Not(z3.And(INV(r) >= 0, INV(r) < n, z3.Select(em.elems, INV(r)) == r))),
                                          z3.Select(h.arr["data"], r) == z3.Select(arrs0["data"], r))))]
        # records of the pre-state keep their values (only `data` references of the members change)
        parts = []
        for k_, kind in lay.items():
            if kind in ("real", "maybe_nan"):
                parts.append(z3.Select(h.arr[k_], r) == z3.Select(arrs0[k_], r))
            elif kind[0] == "vec":
                for j in range(kind[1]):
                    parts.append(z3.Select(h.arr[k_], r * H.Heap.VEC + j) == z3.Select(arrs0[k_], r * H.Heap.VEC + j))
        out.append(("no existing record is overwritten", z3.ForAll([r], z3.Implies(z3.And(r >= 0, r < h.alloc0), z3.And(*parts)))))
        return out


# ---------------------------------------------------------------------------------------------------
@register
class TrackTrajectory(Contract):
    """DropletTrack.get_trajectory(smoothing, attribute=): entry k is that attribute of droplet k (radius / volume as examples); the Gaussian filter
    is applied exactly when a non-zero smoothing is requested - along the time axis, in place on the NEW array, never on the droplets"""
    key = f"{TR}:DropletTrack.get_trajectory"
    modular = False

    def cases(self):
        return [dict(attribute=a, smoothing=s_) for a in ("radius", "volume") for s_ in ("default", "zero", "positive")]

    def setup(self, run, case):
        tr = sym_track(run, "self", 2, "SphericalDroplet")
        drops = tr.fields["droplets"]
        view = EmView(run, 2, "SphericalDroplet", drops.elems)
        calls = self.calls = []

        def gf(engine, run2, a, k):
            calls.append((list(a), dict(k)))
            run2.trust("ASSUMED (scipy.ndimage.gaussian_filter1d with output=): smooths the given array in place along the given axis")
            return None
        models.EXTERNALS["scipy.ndimage.gaussian_filter1d"] = gf
        a = dict(self=tr, attribute=case["attribute"])
        self.sm = None
        if case["smoothing"] == "zero":
            a["smoothing"] = 0
        elif case["smoothing"] == "positive":
            self.sm = run.input_real("smoothing")
            run.assume(self.sm > 0)
            a["smoothing"] = self.sm
        self.ctx = (run, tr, drops, view, snapshot(run), layout_of("SphericalDroplet", 2))
        return a

    def post(self, a, ret, case):
        run, tr, drops, view, arrs0, lay = self.ctx
        k = z3.Int("sk_entry")
        n = to_z3(drops.length)
        out = []
        if not isinstance(ret, SSeq):
            return [("the trajectory is an array with one entry per droplet of the track", False)]
        spec = view.radius(k) if case["attribute"] == "radius" else to_real(S.V(2, view.radius(k)))
        out.append(("the trajectory has one entry per droplet of the track, in order: entry k is the requested attribute of droplet k",
                    z3.And(to_z3(ret.length) == n, z3.Implies(z3.And(k >= 0, k < n), to_real(ret.at(k)) == spec))))
        if case["smoothing"] == "positive":
            ok = len(self.calls) == 1
            out.append(("a non-zero smoothing applies one Gaussian filter", ok))
            if ok:
                args, kw = self.calls[0]
                out.append(("... to the trajectory array itself, in place (output is the same array), with the requested width, along the time axis, "
                            "edges extended by the nearest value",
                            args[:1] == [ret] and kw.get("output") is ret and kw.get("sigma") is self.sm and kw.get("axis") == 0 and kw.get("mode") == "nearest"))
        else:
            out.append(("without smoothing (the default, or 0) no filter is applied", not self.calls))
        out.append(("the droplets of the track are not modified", frame_old_records(run, arrs0, lay)))
        return out


# ---------------------------------------------------------------------------------------------------
@register
class GetitemCall(Contract):
    """Emulsion.__getitem__ at the call sites inside Emulsion.bbox (its own contract: EmulsionGetitem): an integer key gives the member itself, the
    slice [1:] an emulsion of (copies of) the members 1, 2, ... in order - value-equal droplets, which is all a bounding box depends on"""
    key = f"{EM}:Emulsion.__getitem__"
    variant = "bbox-call"
    call_site = True

    def cases(self):
        return []

    def apply(self, engine, run, fi, args, kwargs):
        g = run.ghost.get("bbox")
        if g is None or args[0] is not g["em"]:
            return NotImplemented
        me, key = args[0], args[1]
        run.trust(f"contract:{self.key} (verified separately): integer key -> the member; slice -> value-equal copies of the sliced members, in order")
        if isinstance(key, slice):
            g["slices"].append(key)
            return me.raw_getitem(run, key)
        return me.raw_getitem(run, key)


@register
class EmulsionBBox(Contract):
    """Emulsion.bbox: the union (Cuboid `+`, py-pde) of the members' bounding boxes [position - radius, position + radius], folded from member 0 over
    members 1, 2, ...; an empty emulsion raises RuntimeError"""
    key = f"{EM}:Emulsion.bbox"
    modular = False
    prefer_variants = {f"{EM}:Emulsion.__getitem__": "bbox-call"}

    def cases(self):
        return [dict(cls="SphericalDroplet", dim=d, empty=False) for d in (1, 2, 3)] + [dict(cls="SphericalDroplet", dim=2, empty=True)]

    def setup(self, run, case):
        lay = layout_of(case["cls"], case["dim"])
        touch_layout(run, lay)
        em = sym_em(run, "self", case["dim"], case["cls"])
        run.assume(to_z3(em.length) == 0 if case["empty"] else to_z3(em.length) >= 1)
        view = EmView(run, case["dim"], case["cls"], em.elems)
        run.ghost["sums"] = _Sums(run)
        run.ghost["bbox"] = dict(em=em, slices=[])
        self.ctx = (run, em, view, snapshot(run), lay)
        return dict(self=em)

    def call(self, engine, run, fi, a, case):
        return engine.call_function(run, fi, [a["self"]], {})

    def raises(self, a, exc, case):
        if case["empty"]:
            return [("the bounding box of an empty emulsion is undefined: RuntimeError", exc.cls_name == "RuntimeError")]
        return [(f"no exception escapes (raised {exc.cls_name})", False)]

    def _is_box_of(self, box, view, k, dim):
        if not (isinstance(box, SOpaque) and box.tag == "Cuboid"):
            return False
        p1, p2 = box.attrs["p1"], box.attrs["p2"]
        if not (isinstance(p1, SArr) and isinstance(p2, SArr) and len(p1) == dim == len(p2)):
            return False
        r = view.radius(k)
        return z3.And(*[z3.And(to_real(p1.elems[j]) == view.pos(k)[j] - r, to_real(p2.elems[j]) == view.pos(k)[j] + r) for j in range(dim)])

    def post(self, a, ret, case):
        run, em, view, arrs0, lay = self.ctx
        if case["empty"]:
            return [("the bounding box of an empty emulsion is undefined: RuntimeError", False)]
        calls = run.ghost["sums"].calls
        if len(calls) != 1:
            return [("the bounding box is one fold (sum with `+` = union of cuboids) over the members", False)]
        seq, start, tot = calls[0]
        k = z3.Int("sk_member")
        n = to_z3(em.length)
        dim = case["dim"]
        b0 = self._is_box_of(start, view, z3.IntVal(0), dim)
        bk = self._is_box_of(seq.at(k), view, k + 1, dim)
        return [("the fold starts from the box of member 0: [position - radius, position + radius]", b0),
                ("it runs over all remaining members, in order: summand k is the box of member k + 1",
                 z3.And(to_z3(seq.length) == n - 1, z3.Implies(z3.And(k >= 0, k < n - 1), bk)) if bk is not False else False),
                ("the fold is what is returned", ret is tot),
                ("no droplet is modified", frame_old_records(run, arrs0, lay))]
