"""C10 -- overlap removal leaves a separated subset and distance queries agree."""
from contracts import emulsions as em, neighbors as nb
from pyvc.bounded import Bounded, ContractSampling

LEVEL = "proof"
LEVEL_TEXT = ("remove_overlapping is verified for emulsions of ANY length: the while-loop is cut by an inductive invariant with ghost index maps "
              "(current<->original index, removed set, witnesses) over a heap of droplet references, which yields: survivors pairwise "
              "separated by min_distance in the same metric, survivors = original objects in original order, every removed droplet has a "
              "witness at least as large, droplet data untouched, termination (variant), and - by a second contract - nothing is removed from an "
              "already separated emulsion (idempotence); the strictly-largest clause is a lemma over the witness clause. "
              "get_pairwise_distances (two nested cut loops, quantified matrix invariant) and overlaps are verified against the same metric "
              "(Euclidean, or an uninterpreted symmetric grid metric, so a dropped grid= argument is noticed). get_neighbor_distances is verified "
              "against an ASSUMED contract of the k-d tree query (two different nearest points per row, ascending distances, no other point closer "
              "than the second - the droplet itself need not be among them when centres coincide): entry i is the centre distance to a nearest "
              "OTHER droplet w, minus the radii of droplet i and of w if requested (quantifier-free: assumed contract and metric axioms instantiated at a "
              "Skolem row and a Skolem other droplet, explicit witness). Random generation is a bounded stand-in; the neighbour query itself is "
              "validated by the exhaustive lattice enumeration incl. coincident centres.")
LEVEL_NOTE = ("A-FP; A-PDE: grid.distance is symmetric and non-negative; numpy: zeros, fill_diagonal, argmin+unravel_index (position of a "
              "minimal entry), delete (row/column shift), norm; list.pop; finite positions/radii/min_distance (np.inf modelled as a constant "
              "above every finite quantity); the quantified obligations are discharged by z3's quantifier instantiation (no fallback back end "
              "accepts the multi-index array terms)")
CONTRACTS = [c.ident for c in (em.PairwiseDistances(), em.Overlaps(), em.RemoveOverlapping(), em.RemoveOverlappingIdempotent(), nb.NeighborDistances())]
LEMMAS = ["strictly-largest-droplet-survives", "euclidean-distance-symmetric-nonnegative", "surface-distance-symmetric"]
BOUNDED = [ContractSampling("distance-contracts-on-real-emulsions", CONTRACTS[:3],
                            "emulsions of 0-6 droplets on a half-integer lattice with tied radii, dims 1-3, Euclidean and periodic "
                            "metric, min_distance of either sign: 40 (quick) / 600 random + all 1-d emulsions of <= 4 droplets (thorough)")]


class NeighboursAndRandom(Bounded):
    """stand-ins for the two functions outside the subset (cKDTree query, random generation)"""
    name = "neighbor-distances-and-from_random"
    bound = ("get_neighbor_distances == row minima of the Euclidean matrix on all emulsions of <= 4 droplets on a 4^d half-integer "
             "lattice (coincident centres included) with radii in {1/2, 1, 3/2} for d = 1 (thorough: d <= 2) plus 60/1000 random ones; from_random inside bounds / "
             "radius range on 30/300 seeded calls (bounds and grids, with and without overlap removal)")

    def run(self, tier, seed):
        import itertools
        import numpy as np
        import droplets
        import pde
        rng = np.random.default_rng(seed + 3)
        ev, viol, distinct = 0, {}, set()

        def check_nn(em, sig):
            nonlocal ev
            ev += 1
            distinct.add(sig)
            for sub in (False, True):
                got = em.get_neighbor_distances(subtract_radius=sub)
                n = len(em)
                if n == 0:
                    ok = got.shape == (0,)
                elif n == 1:
                    ok = got.shape == (1,) and np.isnan(got[0])
                else:
                    M = em.get_pairwise_distances(subtract_radius=False)
                    np.fill_diagonal(M, np.inf)
                    if sub:
                        # nearest neighbour by centre distance, then both radii subtracted
                        j = np.argmin(M, axis=1)
                        exp = M[np.arange(n), j] - np.array([em[i].radius + em[j[i]].radius for i in range(n)])
                        # ties in centre distance may pick another neighbour: compare against the set of admissible values
                        ok = all(any(abs(got[i] - (M[i, k] - em[i].radius - em[k].radius)) < 1e-12
                                     for k in range(n) if k != i and abs(M[i, k] - M[i].min()) < 1e-12) for i in range(n))
                    else:
                        ok = np.allclose(got, M.min(axis=1), rtol=1e-12, atol=1e-12)
                if not ok:
                    viol.setdefault(f"nn-sub{sub}", dict(signature=f"neighbor-distances:subtract={sub}",
                                                        what="nearest-neighbour distances differ from the row minima of the distance matrix",
                                                        inputs=dict(emulsion=repr(em), subtract_radius=sub), native=repr(got)))
        lat = [0.5, 1.5, 2.5, 3.5]
        rads = [0.5, 1.0, 1.5]
        dims = (1,) if tier == "quick" else (1, 2)
        for d in dims:
            pts = list(itertools.product(lat, repeat=d))
            for n in range(0, 4 if d == 1 or tier == "quick" else 3):
                for pos in itertools.combinations_with_replacement(pts, n):     # coincident centres included (k-d tree ties at distance 0)
                    for rad in itertools.product(rads, repeat=n):
                        em = droplets.Emulsion([droplets.SphericalDroplet(p, r) for p, r in zip(pos, rad)])
                        check_nn(em, ("lat", d, pos, rad))
        for t in range(60 if tier == "quick" else 1000):
            d = int(rng.integers(1, 4))
            n = int(rng.integers(0, 7))
            em = droplets.Emulsion([droplets.SphericalDroplet(rng.uniform(0, 8, d), rng.uniform(0.2, 2)) for _ in range(n)])
            check_nn(em, ("rnd", t))
        for t in range(30 if tier == "quick" else 300):
            d = int(rng.integers(1, 4))
            r0, r1 = sorted(rng.uniform(0.1, 2, 2))
            use_grid = t % 3 == 0
            if use_grid:
                bounds = [(float(a), float(a + rng.uniform(4, 10))) for a in rng.uniform(-5, 5, d)]
                region = pde.CartesianGrid(bounds, 8, periodic=bool(t % 2))
            else:
                bounds = [(float(a), float(a + rng.uniform(4, 10))) for a in rng.uniform(-5, 5, d)]
                region = bounds
            radius = (r0, r1) if t % 4 else r0
            em = droplets.Emulsion.from_random(int(rng.integers(0, 12)), region, radius, remove_overlapping=bool(t % 2),
                                               rng=np.random.default_rng(t))
            ev += 1
            distinct.add(("random", t))
            ok = all(all(b[0] <= x <= b[1] for x, b in zip(dd.position, bounds)) and
                     ((r0 - 1e-12 <= dd.radius <= r1 + 1e-12) if t % 4 else abs(dd.radius - r0) < 1e-12) for dd in em)
            if t % 2:
                M = em.get_pairwise_distances(subtract_radius=True)
                np.fill_diagonal(M, np.inf)
                ok = ok and (len(em) < 2 or M.min() >= -1e-12)
            if not ok:
                viol.setdefault("random", dict(signature="from_random", what="random emulsion leaves the requested region / radius range "
                                               "or keeps overlapping droplets", inputs=dict(t=t, bounds=bounds, radius=radius),
                                               native=repr(em)))
        return dict(evaluations=ev, distinct=len(distinct), violations=list(viol.values()))


BOUNDED.append(NeighboursAndRandom())
