"""Models of builtins and of external (dependency) callables.

Everything in this file is *trusted base*: each model that a run touches is recorded with
`run.trust(...)` and printed in the evidence.  Models are deliberately small: whatever is
not modelled raises `Undecided` (exit 2), never a silent pass.
"""
from __future__ import annotations

import ast
from fractions import Fraction

import z3

from . import ops
from .values import (SArr, SBound, SCell, SClassRef, SDtype, SExc, SExternal, SFunc, SInf, SKw, SMaybeNaN,
                     SModule, SNative, SObj, SOpaque, SRec, SSeq, SShape, Undecided, const_of, is_concrete_num,
                     is_int_valued, is_num, is_z3, to_real, to_z3)

_MISSING = None  # set in install()
EXTERNALS = {}
BUILTINS = {}
CONSTRUCTORS = {}       # class name -> callable(engine, run, cls, args, kwargs)
NATIVE_ATTRS = []       # list of callables(engine, run, obj, attr) -> value | _MISSING


def external(*names):
    def deco(fn):
        for n in names:
            EXTERNALS[n] = fn
        return fn
    return deco


def builtin(name):
    def deco(fn):
        BUILTINS[name] = SNative(fn, name)
        return fn
    return deco


def install(engine):
    global _MISSING
    from .engine import _MISSING as M
    _MISSING = M
    engine.externals.update({})


# ---------------------------------------------------------------------------
def call_external(engine, run, name, args, kwargs):
    fn = EXTERNALS.get(name)
    if fn is None:
        raise Undecided(f"unmodelled external call {name}")
    run.trust(f"model:{name}")
    return fn(engine, run, args, kwargs)


def getitem(engine, run, obj, idx):
    from .engine import SymRaise
    if isinstance(obj, SRec):
        if isinstance(idx, str):
            return obj.get(idx)
        raise Undecided("record index")
    if isinstance(obj, (list, tuple, str)):
        if isinstance(idx, slice):
            if all(x is None or isinstance(x, int) for x in (idx.start, idx.stop, idx.step)):
                return obj[idx]
            raise Undecided("symbolic slice of a python sequence")
        c = const_of(idx) if is_num(idx) else None
        if c is not None:
            n = len(obj)
            if not (-n <= c < n):
                run.oblige(f"sequence index {c} in range (len {n})", False, kind="implicit", assume_after=False)
                raise SymRaise(SExc("IndexError", ()))
            return obj[int(c)]
        if is_z3(idx):
            n = len(obj)
            run.oblige("sequence index in range", z3.And(idx >= -n, idx < n), kind="implicit")
            k = run.choose(n, "idx")
            run.assume(z3.Or(idx == k, idx == k - n))
            return obj[k]
        raise Undecided(f"index {idx!r} on python sequence")
    if isinstance(obj, dict):
        if isinstance(idx, (str, int)) or idx is None:
            if idx not in obj:
                raise SymRaise(SExc("KeyError", (idx,)))
            return obj[idx]
        raise Undecided("dict key")
    if isinstance(obj, SArr):
        return arr_getitem(run, obj, idx)
    if isinstance(obj, SCell):
        # indexing that keeps the cell-wise view (`[...]`, boolean mask of the same space is not a cell view)
        if idx is Ellipsis:
            return obj
        if isinstance(idx, tuple) and idx and idx[0] is Ellipsis and len(idx) == 2 and hasattr(obj.v, "comp"):
            return SCell(obj.v.comp(run, idx[1]), obj.space)
        raise Undecided(f"indexing a cell-wise array with {idx!r}")
    if isinstance(obj, SSeq):
        if isinstance(idx, slice):
            raise Undecided("slice of symbolic sequence")
        L = to_z3(obj.length)
        i = to_z3(idx)
        c = const_of(idx)
        if c is not None and c < 0:
            i = L + int(c)
            run.oblige(f"index {c} in range of {obj.name}", i >= 0, kind="implicit")
        else:
            run.oblige(f"index in range of {obj.name}", z3.And(i >= 0, i < L), kind="implicit")
        return obj.at(i)
    if isinstance(obj, SDtype):
        if isinstance(idx, str):
            return SFieldDtype(obj.rec, idx)
    if hasattr(obj, "sym_getitem"):
        return obj.sym_getitem(run, idx)
    raise Undecided(f"subscript on {type(obj).__name__}")


def arr_getitem(run, a, idx):
    from .engine import SymRaise
    if idx is Ellipsis:
        return a
    if idx is None:
        return SArr(a.elems, 1, a.kind) if a.ndim == 0 else SRow(a)
    if isinstance(idx, tuple):
        if len(idx) == 2 and idx[0] is None and isinstance(idx[1], slice) and idx[1] == slice(None):
            return SRow(a)
        if len(idx) == 2 and idx[0] is Ellipsis:
            return arr_getitem(run, a, idx[1])
        raise Undecided(f"array index {idx!r}")
    if isinstance(idx, slice):
        if all(x is None or isinstance(x, int) for x in (idx.start, idx.stop, idx.step)):
            return SArr(a.elems[idx], 1, a.kind)
        raise Undecided("symbolic slice")
    c = const_of(idx) if is_num(idx) else None
    n = len(a)
    if c is not None:
        if a.ndim == 0:
            run.oblige("index into 0-d array", False, kind="implicit", assume_after=False)
            raise SymRaise(SExc("IndexError", ()))
        if not (-n <= c < n):
            run.oblige(f"array index {c} in range (len {n})", False, kind="implicit", assume_after=False)
            raise SymRaise(SExc("IndexError", ()))
        return a.elems[int(c)]
    if is_z3(idx) and z3.is_int(idx):
        run.oblige("array index in range", z3.And(idx >= -n, idx < n), kind="implicit")
        out = a.elems[n - 1]
        for k in range(n - 2, -1, -1):
            out = _ite(z3.Or(idx == k, idx == k - n), a.elems[k], out)
        return out
    raise Undecided(f"array index {idx!r}")


def _ite(c, a, b):
    from .engine import _ite as f
    return f(c, a, b)


class SRow:
    """`arr[None, :]` -- a 1xN view used for broadcasting against an (M,N) array."""

    def __init__(self, arr):
        self.arr = arr


class SFieldDtype:
    def __init__(self, rec, field):
        self.rec = rec
        self.field = field

    def sym_getattr(self, run, attr):
        if attr == "shape":
            v = self.rec.get(self.field)
            if isinstance(v, SArr):
                return (len(v),)
            if isinstance(v, SSeq):
                return (v.length,)
            return ()
        return _MISSING

    def sym_getitem(self, run, idx):
        if idx == 0:
            return self
        raise Undecided("dtype field tuple index")


def native_attr(engine, run, obj, attr):
    for h in NATIVE_ATTRS:
        r = h(engine, run, obj, attr)
        if r is not _MISSING:
            return r
    if isinstance(obj, SArr):
        if attr == "shape":
            return () if obj.ndim == 0 else (len(obj),)
        if attr == "ndim":
            return obj.ndim
        if attr == "size":
            return len(obj)
        if attr == "copy":
            return SNative(lambda run, a, k: obj.copy(), "ndarray.copy")
        if attr == "astype":
            return SNative(lambda run, a, k: obj.copy(), "ndarray.astype")
        if attr == "sum":
            def _sum(run, a, k):
                out = 0
                for e in obj.elems:
                    out = ops.binop(run, ast.Add(), out, e)
                return out
            return SNative(_sum, "ndarray.sum")
        if attr == "flat":
            return obj
    if isinstance(obj, SCell):
        if attr == "shape":
            return SShape(obj.space)
        if attr == "ndim":
            return z3.Int(f"ndim_{obj.space}")
        if attr == "size":
            return z3.Int(f"size_{obj.space}")
        if attr == "astype":
            def _astype(run, a, k):
                return cell_astype(run, obj, a[0] if a else k.get("dtype"))
            return SNative(_astype, "ndarray.astype")
        if attr == "copy":
            return SNative(lambda run, a, k: SCell(obj.v, obj.space, obj.kind), "ndarray.copy")
    if isinstance(obj, SSeq) and obj.kind == "array":
        if attr == "shape":
            return (obj.length,)
        if attr == "ndim":
            return 1
    if isinstance(obj, SDtype):
        if attr == "names":
            return tuple(obj.rec.names())
        if attr == "fields":
            return {k: (SFieldDtype(obj.rec, k), None) for k in obj.rec.names()}
    if isinstance(obj, dict):
        if attr == "items":
            return SNative(lambda run, a, k: list(obj.items()), "dict.items")
        if attr == "keys":
            return SNative(lambda run, a, k: list(obj.keys()), "dict.keys")
        if attr == "values":
            return SNative(lambda run, a, k: list(obj.values()), "dict.values")
        if attr == "update":
            def _upd(run, a, k):
                for d in a:
                    obj.update(d)
                obj.update(k)
            return SNative(_upd, "dict.update")
        if attr == "pop":
            def _pop(run, a, k):
                from .engine import SymRaise
                if a[0] in obj:
                    return obj.pop(a[0])
                if len(a) > 1:
                    return a[1]
                raise SymRaise(SExc("KeyError", (a[0],)))
            return SNative(_pop, "dict.pop")
        if attr == "get":
            return SNative(lambda run, a, k: obj.get(a[0], a[1] if len(a) > 1 else None), "dict.get")
        if attr == "setdefault":
            return SNative(lambda run, a, k: obj.setdefault(a[0], a[1] if len(a) > 1 else None), "dict.setdefault")
    if isinstance(obj, list):
        if attr == "append":
            return SNative(lambda run, a, k: obj.append(a[0]), "list.append")
        if attr == "extend":
            return SNative(lambda run, a, k: obj.extend(engine.iterate(run, a[0])), "list.extend")
        if attr == "__getitem__":
            return SNative(lambda run, a, k: getitem(engine, run, obj, a[0]), "list.__getitem__")
        if attr == "pop":
            return SNative(lambda run, a, k: obj.pop(*[int(const_of(x)) for x in a]), "list.pop")
        if attr == "index":
            def _index(run, a, k):
                from .engine import SymRaise
                for j, x in enumerate(obj):
                    r = ops.compare(run, ast.Eq(), x, a[0]) if is_num(x) else ops.generic_eq(run, x, a[0])
                    if run.branch(ops.truth_term(run, r)):
                        return j
                raise SymRaise(SExc("ValueError", ()))
            return SNative(_index, "list.index")
    if isinstance(obj, set):
        if attr == "add":
            return SNative(lambda run, a, k: obj.add(a[0]), "set.add")
    if isinstance(obj, str):
        if attr == "join":
            return SNative(lambda run, a, k: "<joined>", "str.join")
        if attr == "capitalize":
            return SNative(lambda run, a, k: obj.capitalize(), "str.capitalize")
    if isinstance(obj, SOpaque):
        if attr in obj.attrs:
            return obj.attrs[attr]
        if obj.tag == "logger":
            return SNative(lambda run, a, k: None, "logger." + attr)
    if isinstance(obj, SClassRef) and attr == "__new__":
        return SNative(lambda run, a, k: SObj(a[0].cls), "__new__")
    return _MISSING


def _is_bool_dtype(dtype):
    return (isinstance(dtype, SOpaque) and dtype.tag == "dtype:bool") or (isinstance(dtype, SNative) and dtype.name == "bool")


def cell_astype(run, cell, dtype):
    if cell.kind == "bool":
        if _is_bool_dtype(dtype):
            return SCell(cell.v, cell.space, "bool")
        # bool -> float: True ↦ 1.0, False ↦ 0.0
        v = cell.v
        if isinstance(v, bool):
            return SCell(Fraction(1) if v else Fraction(0), cell.space)
        return SCell(z3.If(v, z3.RealVal(1), z3.RealVal(0)), cell.space)
    if _is_bool_dtype(dtype):
        return SCell(to_real(cell.v) != 0, cell.space, "bool")
    return SCell(cell.v, cell.space, cell.kind)


def super_fallback(engine, run, sup, attr):
    if attr == "__init__":
        return SNative(lambda run, a, k: None, "object.__init__")
    if attr == "__init_subclass__":
        return SNative(lambda run, a, k: None, "object.__init_subclass__")
    obj = sup.obj
    # list subclasses: super() is `list`
    if hasattr(obj, "list_super"):
        return obj.list_super(run, attr)
    ocls = obj.cls if isinstance(obj, (SObj, SClassRef)) else None
    if ocls is not None and any(b in ("TrackerBase",) for c in ocls.mro() for b in c.bases):
        run.trust(f"A-PDE: TrackerBase.{attr} (base class method of py-pde) neither raises nor touches the tracker's own attributes")
        return SNative(lambda run, a, k: None, f"TrackerBase.{attr}")
    raise Undecided(f"super().{attr} outside the analysed classes")


def construct(engine, run, cls, args, kwargs):
    """Instantiate an analysed class."""
    for c in cls.mro():
        if c.name in CONSTRUCTORS:
            run.trust(f"constructor-model:{c.name}")
            return CONSTRUCTORS[c.name](engine, run, cls, args, kwargs)
    obj = SObj(cls)
    init = cls.lookup("__init__")
    if init is not None:
        engine.call_function(run, init, [obj] + list(args), kwargs, self_cls=init.cls)
    return obj


class SFmt:
    """f-string value: literal text with formatted holes (kept structurally)."""

    def __init__(self, parts):
        self.parts = parts

    def __repr__(self):
        return "f" + repr(self.parts)


def make_fstring(run, parts):
    if all(p[0] == "lit" or isinstance(p[1], (str, int)) and p[2] is None for p in parts):
        return "".join(p[1] if p[0] == "lit" else str(p[1]) for p in parts)
    return SFmt(parts)


def symbolic_comprehension(engine, run, node, gen, seq, cfr):
    """[elt for x in seq if cond] over a symbolic-length sequence: evaluated at a generic index
    (only without filter here; filters need a contract-provided model)."""
    if gen.ifs:
        raise Undecided("filtered comprehension over a symbolic-length sequence")
    k = run.fresh_int("ci")
    # element expression must be pure: evaluate lazily per requested index
    def at(i, node=node, gen=gen, cfr=cfr):
        from .engine import Frame
        fr2 = Frame(cfr.info, {}, cfr.closure, cfr.modinfo, cfr.self_cls)
        engine.assign(run, gen.target, seq.at(i), fr2)
        return engine.ev(run, node.elt, fr2)
    return SSeq(seq.length, at, name="comp", kind="list")


# ---------------------------------------------------------------------------
# builtins

def _num1(run, a):
    if len(a) != 1:
        raise Undecided("arity")
    return a[0]


@builtin("len")
def _len(run, a, k):
    from .engine import SymRaise
    v = a[0]
    if isinstance(v, (list, tuple, dict, str, set, frozenset)):
        return len(v)
    if isinstance(v, SArr):
        if v.ndim == 0:
            run.oblige("len() of unsized object", False, kind="implicit", assume_after=False)
            raise SymRaise(SExc("TypeError", ()))
        return len(v)
    if isinstance(v, SSeq):
        return v.length
    if isinstance(v, SRow):
        return 1
    if hasattr(v, "sym_len"):
        return v.sym_len(run)
    if isinstance(v, SObj):
        m = v.cls.lookup("__len__")
        if m is not None:
            return run.engine.call_function(run, m, [v], {}, self_cls=m.cls)
    raise Undecided(f"len of {type(v).__name__}")


@builtin("float")
def _float(run, a, k):
    v = a[0]
    if isinstance(v, SMaybeNaN):
        if run.branch(to_z3(v.isnan) if not isinstance(v.isnan, bool) else v.isnan):
            return SMaybeNaN(True, Fraction(0))
        return to_real(v.val) if is_z3(v.val) else v.val
    if isinstance(v, SInf):
        return v
    if isinstance(v, SArr) and len(v) == 1:
        v = v.elems[0]
    if isinstance(v, bool):
        return Fraction(int(v))
    if is_concrete_num(v):
        return Fraction(v)
    if is_z3(v) and z3.is_arith(v):
        return to_real(v)
    if isinstance(v, SOpaque) and "as_float" in v.attrs:
        return v.attrs["as_float"](run)
    if isinstance(v, str):
        from .engine import SymRaise
        raise SymRaise(SExc("ValueError", ("could not convert string to float",)))
    raise Undecided(f"float({v!r})")


@builtin("int")
def _int(run, a, k):
    v = a[0]
    if isinstance(v, bool):
        return int(v)
    if isinstance(v, int):
        return v
    if isinstance(v, Fraction):
        return int(v)
    if is_z3(v) and z3.is_int(v):
        return v
    if is_z3(v) and z3.is_real(v):
        # truncation towards zero; modelled for non-negative arguments
        run.oblige("int(): argument non-negative (modelled case)", v >= 0, kind="implicit")
        i = run.fresh_int("trunc")
        run.define(z3.And(z3.ToReal(i) <= v, v < z3.ToReal(i) + 1), "int() truncation")
        return i
    raise Undecided(f"int({v!r})")


@builtin("bool")
def _bool(run, a, k):
    return ops.truth_term(run, a[0])


@builtin("abs")
def _abs(run, a, k):
    v = a[0]
    if is_concrete_num(v):
        return abs(v)
    t = to_z3(v)
    return z3.If(t >= 0, t, -t)


@builtin("range")
def _range(run, a, k):
    cs = [const_of(x) for x in a]
    if all(c is not None for c in cs):
        return range(*[int(c) for c in cs])
    if len(a) == 1:
        n = to_z3(a[0])
        L = z3.If(n > 0, n, z3.IntVal(0))
        return SSeq(L, lambda i: i, "range", kind="iter")
    if len(a) == 2:
        lo, hi = to_z3(a[0]), to_z3(a[1])
        L = z3.If(hi > lo, hi - lo, z3.IntVal(0))
        return SSeq(L, lambda i: lo + i, "range", kind="iter")
    raise Undecided("range with symbolic step")


@builtin("reversed")
def _reversed(run, a, k):
    v = a[0]
    if isinstance(v, (list, tuple, range)):
        return list(reversed(v))
    if isinstance(v, SSeq):
        L = to_z3(v.length)
        return SSeq(v.length, lambda i: v.at(L - 1 - i), "reversed(" + v.name + ")", kind="iter")
    raise Undecided("reversed")


@builtin("enumerate")
def _enumerate(run, a, k):
    it = run.engine.iterate(run, a[0])
    start = a[1] if len(a) > 1 else k.get("start", 0)
    if isinstance(it, list):
        return [(ops.binop(run, ast.Add(), start, j), x) for j, x in enumerate(it)]
    return SSeq(it.length, lambda i: (ops.binop(run, ast.Add(), start, i), it.at(i)), f"enumerate({it.name})", kind="iter")


@builtin("zip")
def _zip(run, a, k):
    its = [run.engine.iterate(run, x) for x in a]
    if all(isinstance(x, list) for x in its):
        return [tuple(t) for t in zip(*its)]
    # symbolic: lengths -> min
    def ln(x):
        return to_z3(len(x)) if isinstance(x, list) else to_z3(x.length)
    L = ln(its[0])
    for x in its[1:]:
        l2 = ln(x)
        L = z3.If(l2 < L, l2, L)
    def at(i):
        out = []
        for x in its:
            if isinstance(x, list):
                out.append(getitem(run.engine, run, x, i))
            else:
                out.append(x.at(i))
        return tuple(out)
    return SSeq(L, at, "zip", kind="iter")


@builtin("list")
def _list(run, a, k):
    if not a:
        return []
    it = run.engine.iterate(run, a[0])
    if isinstance(it, list):
        return list(it)
    return SSeq(it.length, it.at, it.name, kind="list")


@builtin("tuple")
def _tuple(run, a, k):
    if not a:
        return ()
    it = run.engine.iterate(run, a[0])
    if isinstance(it, list):
        return tuple(it)
    raise Undecided("tuple of symbolic sequence")


@builtin("set")
def _set(run, a, k):
    if not a:
        return set()
    it = run.engine.iterate(run, a[0])
    if isinstance(it, list) and all(isinstance(x, (int, str)) for x in it):
        return set(it)
    raise Undecided("set of symbolic values")


@builtin("dict")
def _dict(run, a, k):
    d = dict(a[0]) if a else {}
    d.update(k)
    return d


@builtin("sorted")
def _sorted(run, a, k):
    v = a[0]
    if isinstance(v, (list, tuple, set)) and all(isinstance(x, (int, str)) for x in v):
        return sorted(v)
    if hasattr(v, "sym_sorted"):
        return v.sym_sorted(run)
    raise Undecided("sorted of symbolic values")


@builtin("isinstance")
def _isinstance(run, a, k):
    v, t = a
    ts = t if isinstance(t, tuple) else (t,)
    res = False
    for tt in ts:
        r = isinstance_one(run, v, tt)
        if r is True:
            return True
        if r is not False:
            res = r if res is False else z3.Or(res, r)
    return res


def isinstance_one(run, v, t):
    if isinstance(t, SClassRef):
        if isinstance(v, SObj):
            return v.cls.is_subclass_of(t.cls.name)
        if hasattr(v, "sym_isinstance"):
            return v.sym_isinstance(run, t)
        return False
    if isinstance(t, SExternal):
        if hasattr(v, "sym_isinstance"):
            return v.sym_isinstance(run, t)
        n = t.name
        if n == "numpy.ndarray":
            return isinstance(v, (SArr, SCell)) or (isinstance(v, SSeq) and v.kind == "array")
        if n in ("numpy.record", "numpy.dtype"):
            return isinstance(v, SDtype) if n == "numpy.dtype" else False
        if isinstance(v, SOpaque):
            if "isinstance" in v.attrs:
                return v.attrs["isinstance"](run, n)
            return False
        if isinstance(v, (SObj, SRec, SArr, SCell, SSeq, list, tuple, dict, str, int, Fraction)) or v is None or is_z3(v):
            return False
        raise Undecided(f"isinstance(_, {n}) of {type(v).__name__}")
    if isinstance(t, SNative):
        n = t.name
        if n == "str":
            if isinstance(v, SOpaque) and "is_str" in v.attrs:
                return v.attrs["is_str"]
            return isinstance(v, (str, SFmt))
        if n == "slice":
            return isinstance(v, slice)
        if n == "int":
            return is_int_valued(v)
        if n == "float":
            return isinstance(v, Fraction) or (is_z3(v) and z3.is_real(v))
        if n == "list":
            return isinstance(v, list)
        if n == "dict":
            return isinstance(v, dict)
        if n == "tuple":
            return isinstance(v, tuple)
        if n == "bool":
            return isinstance(v, bool) or (is_z3(v) and z3.is_bool(v))
    if isinstance(t, SOpaque) and t.tag == "dtype:bool":
        return isinstance(v, bool)
    raise Undecided(f"isinstance against {t!r}")


for _n in ("str", "slice", "object", "type"):
    BUILTINS[_n] = SNative(lambda run, a, k, _n=_n: (_ for _ in ()).throw(Undecided(f"call of builtin {_n}")), _n)


@builtin("hasattr")
def _hasattr(run, a, k):
    from .engine import SymRaise
    try:
        run.engine.getattr(run, a[0], a[1])
        return True
    except SymRaise as e:
        if e.exc.cls_name == "AttributeError":
            return False
        raise


@builtin("getattr")
def _getattr(run, a, k):
    if not isinstance(a[1], str):
        raise Undecided("getattr with symbolic name")
    return run.engine.getattr(run, a[0], a[1])


@builtin("sum")
def _sum(run, a, k):
    it = run.engine.iterate(run, a[0])
    start = a[1] if len(a) > 1 else 0
    if isinstance(it, list):
        out = start
        for x in it:
            if hasattr(out, "sym_binop"):
                out = out.sym_binop(run, ast.Add(), x, False)
            else:
                out = ops.binop(run, ast.Add(), out, x)
        return out
    if hasattr(it, "sym_sum"):
        return it.sym_sum(run, start)
    raise Undecided("sum over a symbolic-length sequence")


@builtin("min")
def _min(run, a, k):
    return _minmax(run, a, True)


@builtin("max")
def _max(run, a, k):
    return _minmax(run, a, False)


def _minmax(run, a, is_min):
    vals = list(a) if len(a) > 1 else run.engine.iterate(run, a[0])
    if not isinstance(vals, list):
        raise Undecided("min/max over symbolic sequence")
    if not vals:
        from .engine import SymRaise
        run.oblige("min()/max() of a non-empty sequence", False, kind="implicit", assume_after=False)
        raise SymRaise(SExc("ValueError", ()))
    out = vals[0]
    for v in vals[1:]:
        if is_concrete_num(out) and is_concrete_num(v):
            out = min(out, v) if is_min else max(out, v)
        else:
            c = ops.compare(run, ast.Lt() if is_min else ast.Gt(), v, out)
            out = _ite(c, v, out)
    return out


@builtin("iter")
def _iter(run, a, k):
    raise Undecided("explicit iterator protocol")


@builtin("next")
def _next(run, a, k):
    raise Undecided("explicit iterator protocol")


@builtin("print")
def _print(run, a, k):
    return None


@builtin("round")
def _round(run, a, k):
    raise Undecided("round")


@builtin("all")
def _all(run, a, k):
    it = run.engine.iterate(run, a[0])
    if isinstance(it, list):
        ts = [ops.truth_term(run, x) for x in it]
        if all(isinstance(t, bool) for t in ts):
            return all(ts)
        return z3.And(*[to_z3(t) for t in ts])
    raise Undecided("all over symbolic")


@builtin("any")
def _any(run, a, k):
    it = run.engine.iterate(run, a[0])
    if isinstance(it, list):
        ts = [ops.truth_term(run, x) for x in it]
        if all(isinstance(t, bool) for t in ts):
            return any(ts)
        return z3.Or(*[to_z3(t) for t in ts])
    if isinstance(it, SSeq):
        # any(p(x) for x in seq) over a symbolic-length sequence: a boolean DEFINED by  b <=> exists k in [0, n): p(seq[k])
        kq = z3.Int(f"any_k!{next(run.counter)}")
        b = run.fresh_bool("any")
        body = to_z3(ops.truth_term(run, it.at(kq)))
        run.define(b == z3.Exists([kq], z3.And(kq >= 0, kq < to_z3(it.length), body)), "builtin any over a sequence (definition)")
        return b
    raise Undecided("any over symbolic")


# ---------------------------------------------------------------------------
# numpy / math scalars and element-wise functions

def _lift(fn):
    def go(run, x):
        if isinstance(x, SCell):
            return SCell(go(run, x.v), x.space)
        if isinstance(x, SArr):
            return SArr([go(run, e) for e in x.elems], x.ndim)
        if isinstance(x, (list, tuple)):
            return SArr([go(run, e) for e in x])
        if isinstance(x, SSeq):
            return SSeq(x.length, lambda i: go(run, x.at(i)), x.name, x.kind)
        return fn(run, x)
    return go


@external("numpy.sqrt", "math.sqrt")
def np_sqrt(engine, run, a, k):
    return _lift(lambda run, x: ops.real_sqrt(run, x, f"L{run.cur_line} sqrt"))(run, a[0])


def _elem(name):
    def f(engine, run, a, k):
        return _lift(lambda run, x: ops.elementary(run, name, x))(run, a[0])
    return f


for _n in ("sin", "cos", "tanh", "arccos", "exp", "log"):
    EXTERNALS["numpy." + _n] = _elem(_n)
    EXTERNALS["math." + _n] = _elem(_n)


@external("numpy.arctan2")
def np_arctan2(engine, run, a, k):
    def f(y, x):
        return ops.ufun("arctan2_f", 2)(to_real(y), to_real(x))
    y, x = a
    if isinstance(y, SCell) or isinstance(x, SCell):
        sp = y.space if isinstance(y, SCell) else x.space
        return SCell(f(y.v if isinstance(y, SCell) else y, x.v if isinstance(x, SCell) else x), sp)
    return f(y, x)


@external("numpy.hypot")
def np_hypot(engine, run, a, k):
    def f(run, x, y):
        s = ops.binop(run, ast.Add(), ops.binop(run, ast.Mult(), x, x), ops.binop(run, ast.Mult(), y, y))
        return ops.real_sqrt(run, s, "hypot")
    x, y = a
    if isinstance(x, SCell):
        return SCell(f(run, x.v, y.v if isinstance(y, SCell) else y), x.space)
    return f(run, x, y)


@external("numpy.sign")
def np_sign(engine, run, a, k):
    def f(run, x):
        c = const_of(x)
        if c is not None:
            return Fraction((c > 0) - (c < 0))
        xr = to_real(x)
        return z3.If(xr > 0, z3.RealVal(1), z3.If(xr < 0, z3.RealVal(-1), z3.RealVal(0)))
    return _lift(f)(run, a[0])


@external("numpy.floor", "math.floor")
def np_floor(engine, run, a, k):
    def f(run, x):
        c = const_of(x)
        if c is not None:
            import math
            return Fraction(math.floor(c))
        xr = to_real(x)
        i = run.fresh_int("floor")
        run.define(z3.And(z3.ToReal(i) <= xr, xr < z3.ToReal(i) + 1), "floor")
        return FloorVal(i)
    return _lift(f)(run, a[0])


class FloorVal:
    """Result of floor(): a real that is integer valued; int() of it is exact."""

    def __init__(self, i):
        self.i = i


_orig_int = BUILTINS["int"].fn


def _int2(run, a, k):
    if isinstance(a[0], FloorVal):
        return a[0].i
    return _orig_int(run, a, k)


BUILTINS["int"] = SNative(_int2, "int")


@external("numpy.ceil", "math.ceil")
def np_ceil(engine, run, a, k):
    def f(run, x):
        xr = to_real(x)
        i = run.fresh_int("ceil")
        run.define(z3.And(z3.ToReal(i) >= xr, xr > z3.ToReal(i) - 1), "ceil")
        return FloorVal(i)
    return _lift(f)(run, a[0])


@external("numpy.real")
def np_real(engine, run, a, k):
    v = a[0]
    if isinstance(v, SCell) and isinstance(v.v, SComplex):
        return SCell(v.v.re, v.space)
    if isinstance(v, SComplex):
        return v.re
    return v


@external("numpy.imag")
def np_imag(engine, run, a, k):
    v = a[0]
    if isinstance(v, SCell) and isinstance(v.v, SComplex):
        return SCell(v.v.im, v.space)
    if isinstance(v, SComplex):
        return v.im
    raise Undecided("imag of non-complex")


class SComplex:
    def __init__(self, re, im):
        self.re = re
        self.im = im


@external("scipy.special.sph_harm_y")
def sph_harm_y(engine, run, a, k):
    """Complex spherical harmonic Y_l^m(θ, φ): uninterpreted real and imaginary parts."""
    n, m, th, ph = a
    sp = None
    for x in (th, ph):
        if isinstance(x, SCell):
            sp = x.space
    thv = th.v if isinstance(th, SCell) else th
    phv = ph.v if isinstance(ph, SCell) else ph
    sorts = [z3.IntSort(), z3.IntSort(), z3.RealSort(), z3.RealSort()]
    re = ops.ufun("Yre", 4, None, sorts)(to_z3(n), to_z3(m), to_real(thv), to_real(phv))
    im = ops.ufun("Yim", 4, None, sorts)(to_z3(n), to_z3(m), to_real(thv), to_real(phv))
    c = SComplex(re, im)
    return SCell(c, sp) if sp else c


@external("numpy.isnan", "math.isnan")
def np_isnan(engine, run, a, k):
    v = a[0]
    if isinstance(v, SMaybeNaN):
        return v.isnan
    if is_num(v) or isinstance(v, SInf):
        return False
    if isinstance(v, SCell):
        return SCell(False, v.space, "bool")
    raise Undecided("isnan")


@external("numpy.isinf", "math.isinf")
def np_isinf(engine, run, a, k):
    v = a[0]
    if isinstance(v, SInf):
        return True
    if is_num(v):
        return False
    if hasattr(v, "sym_isinf"):
        return v.sym_isinf(run)
    raise Undecided("isinf")


@external("numpy.isfinite")
def np_isfinite(engine, run, a, k):
    v = a[0]
    if isinstance(v, SInf):
        return False
    if isinstance(v, SMaybeNaN):
        return ops.unary(run, ast.Not(), v.isnan)
    if is_num(v):
        return True
    raise Undecided("isfinite")


def _shape_of(run, s):
    if isinstance(s, SShape):
        return s
    if isinstance(s, tuple):
        return s
    if is_num(s):
        return (s,)
    raise Undecided(f"shape {s!r}")


def _full(run, shape, value, kind="float"):
    shape = _shape_of(run, shape)
    if isinstance(shape, SShape):
        return SCell(value, shape.space, kind)
    if len(shape) == 0:
        return SArr([value], 0, kind)
    if len(shape) == 1:
        c = const_of(shape[0])
        if c is not None:
            return SArr([value] * int(c), 1, kind)
        return SSeq(shape[0], lambda i: value, "full", kind="array")
    raise Undecided("multi-dimensional allocation")


@external("numpy.ones")
def np_ones(engine, run, a, k):
    return _full(run, a[0], Fraction(1))


@external("numpy.zeros")
def np_zeros(engine, run, a, k):
    return _full(run, a[0], Fraction(0))


@external("numpy.full")
def np_full(engine, run, a, k):
    return _full(run, a[0], a[1])


@external("numpy.broadcast_to")
def np_broadcast_to(engine, run, a, k):
    v, shape = a
    if isinstance(v, SArr):
        if len(v) == 1:
            return _full(run, shape, v.elems[0])
        shp = _shape_of(run, shape)
        if isinstance(shp, tuple) and len(shp) == 1:
            c = const_of(shp[0])
            if c is not None and c != len(v):
                from .engine import SymRaise
                run.oblige("broadcast_to: shapes compatible", False, kind="implicit", assume_after=False)
                raise SymRaise(SExc("ValueError", ()))
            return v
    if isinstance(v, SSeq):
        return v
    return _full(run, shape, v)


@external("numpy.zeros_like", "numpy.ones_like", "numpy.full_like")
def np_like(engine, run, a, k):
    raise Undecided("*_like dispatched by name")


def _like(value_of):
    def f(engine, run, a, k):
        v = a[0]
        val = value_of(a)
        if isinstance(v, SCell):
            return SCell(val, v.space)
        if isinstance(v, SArr):
            return SArr([val] * len(v), v.ndim)
        if isinstance(v, SRec):
            return SRec({kk: (SArr([Fraction(0)] * len(x)) if isinstance(x, SArr) else
                              (SSeq(x.length, lambda i: Fraction(0), "zeros", "array") if isinstance(x, SSeq) else Fraction(0)))
                         for kk, x in v.fields.items()}, "zeros_like")
        if is_num(v):
            return val
        raise Undecided("like")
    return f


EXTERNALS["numpy.zeros_like"] = _like(lambda a: Fraction(0))
EXTERNALS["numpy.ones_like"] = _like(lambda a: Fraction(1))
EXTERNALS["numpy.full_like"] = _like(lambda a: a[1])


@external("numpy.record")
def np_record(engine, run, a, k):
    return a[0]


@external("numpy.asarray", "numpy.asanyarray", "numpy.array", "numpy.atleast_1d")
def np_asarray(engine, run, a, k):
    v = a[0]
    if isinstance(v, SStack):
        return v
    if isinstance(v, (SArr, SCell, SSeq)):
        if isinstance(v, SArr) and v.ndim == 0:
            return SArr(v.elems, 1, v.kind)
        return v
    if isinstance(v, (list, tuple)):
        if all(is_num(x) for x in v):
            return SArr(list(v))
        if all(isinstance(x, SCell) for x in v):
            return SStack(list(v))
        raise Undecided("asarray of nested sequence")
    if is_num(v):
        return SArr([v], 1)
    if hasattr(v, "sym_asarray"):
        return v.sym_asarray(run)
    raise Undecided(f"asarray({type(v).__name__})")


class SStack:
    """np.array/transpose of a list of cell-wise arrays: value at the Skolem cell is a small vector."""

    def __init__(self, cells):
        self.cells = cells


@external("numpy.transpose")
def np_transpose(engine, run, a, k):
    v = a[0]
    if isinstance(v, (list, tuple)) and all(isinstance(x, SCell) for x in v):
        return SStack(list(v))
    if isinstance(v, SStack):
        return v
    raise Undecided("transpose")


@external("numpy.prod")
def np_prod(engine, run, a, k):
    v = a[0]
    items = v.elems if isinstance(v, SArr) else list(v)
    out = 1
    for x in items:
        out = ops.binop(run, ast.Mult(), out, x)
    return out


@external("numpy.sum")
def np_sum(engine, run, a, k):
    v = a[0]
    if isinstance(v, SArr):
        out = Fraction(0)
        for x in v.elems:
            out = ops.binop(run, ast.Add(), out, x)
        return out
    if isinstance(v, SSeq) and hasattr(v, "sum_spec"):
        return v.sum_spec(run)
    if hasattr(v, "sym_sum"):
        return v.sym_sum(run, 0)
    raise Undecided("np.sum of symbolic-length array")


@external("numpy.linalg.norm")
def np_norm(engine, run, a, k):
    v = a[0]
    if isinstance(v, SArr):
        s = Fraction(0)
        for x in v.elems:
            s = ops.binop(run, ast.Add(), s, ops.binop(run, ast.Mult(), x, x))
        return ops.real_sqrt(run, s, "norm")
    if hasattr(v, "sym_norm"):
        return v.sym_norm(run, k)
    raise Undecided("norm")


@external("numpy.allclose")
def np_allclose(engine, run, a, k):
    x, y = a
    xs = x.elems if isinstance(x, SArr) else [x]
    ys = y.elems if isinstance(y, SArr) else [y] * len(xs)
    # exact model under A-FP: |x-y| <= atol + rtol*|y| with default tolerances
    atol = k.get("atol", Fraction(1, 10 ** 8))
    rtol = k.get("rtol", Fraction(1, 10 ** 5))
    parts = []
    for p, q in zip(xs, ys):
        d = ops.binop(run, ast.Sub(), p, q)
        ad = BUILTINS["abs"].fn(run, [d], {})
        aq = BUILTINS["abs"].fn(run, [q], {})
        bound = ops.binop(run, ast.Add(), atol, ops.binop(run, ast.Mult(), rtol, aq))
        parts.append(ops.compare(run, ast.LtE(), ad, bound))
    if all(isinstance(p, bool) for p in parts):
        return all(parts)
    return z3.And(*[to_z3(p) for p in parts])


def _const(v):
    return lambda engine, run, a, k: v


def external_attr_value(name):
    """Values of external *attributes* (not calls)."""
    if name in ("numpy.pi", "math.pi"):
        return ops.PI()
    if name in ("numpy.inf", "math.inf"):
        return SInf(1)
    if name in ("numpy.nan", "math.nan"):
        return SMaybeNaN(True, Fraction(0))
    if name in ("numpy.double", "numpy.float64"):
        return SOpaque("dtype:float")
    if name in ("numpy.bool", "numpy.bool_"):
        return SOpaque("dtype:bool")
    if name in ("numpy.intc",):
        return SOpaque("dtype:int")
    return None


BUILTINS["float"].fn.__dict__["is_dtype"] = "float"


@external("numpy.issubdtype")
def np_issubdtype(engine, run, a, k):
    d, t = a
    def kind(x):
        if isinstance(x, SOpaque) and x.tag.startswith("dtype:"):
            return x.tag[6:]
        if isinstance(x, SNative) and x.name in ("float", "bool", "int"):
            return x.name
        raise Undecided(f"dtype {x!r}")
    return kind(d) == kind(t)


@external("pde.tools.numba.jit", "numba.jit", "numba.njit")
def nb_jit(engine, run, a, k):
    """A-NB: numba compiles the Python text faithfully; jit(f) is f."""
    run.trust("A-NB: numba-compiled functions behave like their Python text")
    if a:
        return a[0]
    return SNative(lambda run, a2, k2: a2[0], "jit-decorator")


@external("numpy.isclose")
def np_isclose(engine, run, a, k):
    return np_allclose(engine, run, a, k)


class SRecArray:
    """np.recarray(n, dtype=...) -- uninitialised structured array; `[0]` yields a record whose
    fields hold arbitrary (fresh) values."""

    def __init__(self, dtype):
        self.dtype = dtype

    def sym_getitem(self, run, idx):
        fields = {}
        for ent in self.dtype:
            name = ent[0]
            if len(ent) == 2 or not ent[2]:
                fields[name] = run.fresh_real(f"uninit_{name}")
            else:
                (n,) = ent[2]
                c = const_of(n)
                if c is not None:
                    fields[name] = SArr([run.fresh_real(f"uninit_{name}{j}") for j in range(int(c))])
                else:
                    f = z3.Function(f"uninit_{name}!{next(run.counter)}", z3.IntSort(), z3.RealSort())
                    fields[name] = SSeq(n, lambda i, f=f: f(to_z3(i)), name, kind="array")
        return SRec(fields, "recarray[0]")


@external("numpy.recarray")
def np_recarray(engine, run, a, k):
    dt = k.get("dtype", a[1] if len(a) > 1 else None)
    if not isinstance(dt, list):
        raise Undecided("recarray with non-literal dtype")
    return SRecArray(dt)


# ---------------------------------------------------------------------------
# (N, d) arrays seen at one Skolem row: SStack;  column / row broadcasting helpers

def _stack_binop(run, op, a, b, reflected):
    """a is SStack/SCol/SRowB; b anything"""
    def comps(x, n):
        if isinstance(x, SStack):
            return [c.v if isinstance(c, SCell) else c for c in x.cells]
        if isinstance(x, SCol):
            return [x.cell.v] * n
        if isinstance(x, SRow):
            return list(x.arr.elems)
        if isinstance(x, SCell):
            raise Undecided("(N,) array broadcast against (N,d) array")
        return [x] * n
    n = None
    for x in (a, b):
        if isinstance(x, SStack):
            n = len(x.cells)
        elif isinstance(x, SRow) and n is None:
            n = len(x.arr)
    if n is None:
        raise Undecided("column with column")
    ca, cb = comps(a, n), comps(b, n)
    if len(ca) != len(cb):
        run.oblige("operands broadcast", False, kind="implicit")
        raise run.PathEnd()
    if reflected:
        ca, cb = cb, ca
    space = next((x.space for x in (a, b) if isinstance(x, (SStack,)) and x.space), None) or \
        next((x.cell.space for x in (a, b) if isinstance(x, SCol)), "rows")
    return SStack([SCell(ops.binop(run, op, x, y), space) for x, y in zip(ca, cb)], space)


class SStack:   # noqa: F811  (extends the earlier placeholder)
    """(N, d) array: at the Skolem row its value is the vector of the d cells."""

    def __init__(self, cells, space=None):
        self.cells = list(cells)
        self.space = space or next((c.space for c in cells if isinstance(c, SCell)), "rows")

    def sym_binop(self, run, op, other, reflected):
        return _stack_binop(run, op, self, other, reflected)

    def sym_getitem(self, run, idx):
        if isinstance(idx, tuple) and len(idx) == 2 and (idx[0] is Ellipsis or idx[0] == slice(None)):
            j = const_of(idx[1])
            if j is None:
                raise Undecided("symbolic component index")
            return self.cells[int(j)]
        raise Undecided(f"index {idx!r} on (N,d) array")

    def sym_setitem(self, run, idx, v):
        if isinstance(idx, tuple) and len(idx) == 2 and (idx[0] is Ellipsis or idx[0] == slice(None)):
            j = int(const_of(idx[1]))
            self.cells[j] = v if isinstance(v, SCell) else SCell(v, self.space)
            return
        raise Undecided(f"index store {idx!r} on (N,d) array")

    def sym_getattr(self, run, attr):
        if attr == "shape":
            return SShape(self.space, dims=(z3.Int(f"rows_{self.space}"), len(self.cells)))
        if attr == "ndim":
            return 2
        return _MISSING


class SCol:
    """`cell[:, None]`: an (N,1) column."""

    def __init__(self, cell):
        self.cell = cell

    def sym_binop(self, run, op, other, reflected):
        return _stack_binop(run, op, self, other, reflected)


def _row_binop(self, run, op, other, reflected):
    if isinstance(other, (SStack, SCol)):
        return _stack_binop(run, op, self, other, reflected)
    return NotImplemented


SRow.sym_binop = _row_binop

_old_getitem = getitem


def getitem(engine, run, obj, idx):   # noqa: F811
    if isinstance(obj, SCell) and isinstance(idx, tuple) and len(idx) == 2 and idx[0] == slice(None) and idx[1] is None:
        return SCol(obj)
    if isinstance(obj, SShape) and obj.dims is not None:
        c = const_of(idx)
        if c is not None:
            return obj.dims[int(c)]
    if isinstance(obj, SSeq) and isinstance(idx, slice):
        st = 1 if idx.step is None else const_of(idx.step)
        a0 = 0 if idx.start is None else const_of(idx.start)
        if idx.stop is None and st is not None and a0 is not None and st >= 1 and a0 >= 0:
            L = to_z3(obj.length)
            st, a0 = int(st), int(a0)
            n = z3.If(L > a0, (L - a0 + st - 1) / st, z3.IntVal(0))
            return SSeq(n, lambda i: obj.at(a0 + st * to_z3(i)), f"{obj.name}[{a0}::{st}]", obj.kind)
    return _old_getitem(engine, run, obj, idx)


@external("numpy.empty")
def np_empty(engine, run, a, k):
    shp = a[0]
    if isinstance(shp, SShape) and shp.dims is not None:
        n = const_of(shp.dims[-1])
        return SStack([SCell(run.fresh_real("empty"), shp.space) for _ in range(int(n))], shp.space)
    return _full(run, shp, run.fresh_real("empty"))


class _NpC:
    def sym_getitem(self, run, idx):
        items = idx if isinstance(idx, tuple) else (idx,)
        if all(isinstance(x, SCell) for x in items):
            return SStack(list(items))
        raise Undecided("np.c_ of non cell-wise arrays")


class _NpR:
    def sym_getitem(self, run, idx):
        items = idx if isinstance(idx, tuple) else (idx,)
        out = []
        for x in items:
            if isinstance(x, SArr):
                out.extend(x.elems)
            elif is_num(x) or isinstance(x, (SInf,)):
                out.append(x)
            elif hasattr(x, "sym_r_concat"):
                return x.sym_r_concat(run, items)
            else:
                raise Undecided(f"np.r_ of {type(x).__name__}")
        return SArr(out)


_old_eav = external_attr_value


def external_attr_value(name):   # noqa: F811
    if name == "numpy.c_":
        return _NpC()
    if name == "numpy.r_":
        return _NpR()
    return _old_eav(name)


# sums / integrals are kept as named ghost terms: the contract states the integrand point-wise
class SReduction:
    def __init__(self, kind, sym, integrand, space, extra=None):
        self.kind = kind
        self.sym = sym
        self.integrand = integrand
        self.space = space
        self.extra = extra or {}


def _reduce(run, kind, integrand, space, extra=None):
    s = run.fresh_real(kind)
    run.ghost.setdefault("reductions", []).append(SReduction(kind, s, integrand, space, extra))
    # monotonicity of sums/integrals: if the integrand is non-negative at the *generic* index (valid under the
    # current assumptions, in which the Skolem index is constrained only by its range), the result is >= 0
    try:
        iv = to_real(integrand.v if isinstance(integrand, SCell) else integrand)
        chk = z3.Solver()
        chk.set("timeout", 2000)
        for a in run.assumptions():
            chk.add(a)
        chk.add(iv < 0)
        if chk.check() == z3.unsat:
            run.define(s >= 0, "a sum/integral of point-wise non-negative terms is non-negative")
    except Undecided:
        pass
    return s


_old_native_attr = native_attr


def native_attr(engine, run, obj, attr):   # noqa: F811
    if isinstance(obj, SCell) and attr == "sum":
        return SNative(lambda run, a, k: _reduce(run, "sum", obj.v, obj.space), "ndarray.sum")
    if isinstance(obj, SCell) and attr in ("min", "max", "mean"):
        def red(run, a, k, attr=attr):
            cache = run.ghost.setdefault("cell_reductions", {})
            key = (id(obj), attr)
            if key not in cache:
                r = run.fresh_real(f"data_{attr}")
                v = to_real(obj.v)
                if attr == "min":
                    run.define(r <= v, "min of an array is <= every entry")
                elif attr == "max":
                    run.define(r >= v, "max of an array is >= every entry")
                cache[key] = r
                run.ghost.setdefault("cell_reduction_list", []).append((obj, attr, r))
                hook = run.ghost.get("reduction_hook")          # a contract may state a precondition that relates the reduction to its inputs
                if hook is not None:
                    hook(run, obj, attr, r)
                run.trust(f"numpy: ndarray.{attr}() (non-empty array)")
            return cache[key]
        return SNative(red, "ndarray." + attr)
    if isinstance(obj, SCell) and attr == "flat":
        return obj
    if isinstance(obj, SCell) and attr == "ndim":
        n = z3.Int(f"ndim_{obj.space}")
        run.define(n >= 1, "cell-wise arrays have ndim >= 1")
        return n
    return _old_native_attr(engine, run, obj, attr)


_old_np_sum = EXTERNALS["numpy.sum"]


@external("numpy.sum")
def np_sum2(engine, run, a, k):
    v = a[0]
    if isinstance(v, SSeq):
        j = run.fresh_int("j")
        run.assume(z3.And(j >= 0, j < to_z3(v.length)))
        return _reduce(run, "sum", v.at(j), v.name, dict(index=j, length=v.length))
    if isinstance(v, SCell):
        return _reduce(run, "sum", v.v, v.space)
    return _old_np_sum(engine, run, a, k)


@external("numpy.linspace")
def np_linspace(engine, run, a, k):
    lo, hi, num = a[0], a[1], (a[2] if len(a) > 2 else k.get("num", 50))
    endpoint = k.get("endpoint", True)
    n = const_of(num)
    if n is None:
        # symbolic count: only the cell-wise view is provided
        nz = to_z3(num)
    else:
        nz = z3.IntVal(int(n))
    idx = run.fresh_int("lin_idx")
    run.assume(z3.And(idx >= 0, idx < nz))
    div = nz - 1 if endpoint else nz
    step = ops.real_div(run, ops.binop(run, ast.Sub(), hi, lo), z3.ToReal(div), "linspace step")
    val = to_real(lo) + z3.ToReal(idx) * to_real(step)
    cell = SCell(val, f"linspace!{next(run.counter)}")
    run.ghost.setdefault("linspace", []).append(dict(cell=cell, lo=lo, hi=hi, num=num, endpoint=endpoint, index=idx, step=step))
    if k.get("retstep"):
        return (cell, step)
    return cell


@external("pde.tools.misc.number_array")
def pde_number_array(engine, run, a, k):
    """Assumed: number_array(x) is np.array(x, dtype=float-like): arrays unchanged, scalars become 0-d arrays."""
    v = a[0]
    if isinstance(v, (SCell, SStack)):
        return v
    if isinstance(v, SArr):
        return v
    if is_num(v):
        return SArr([to_real(v) if is_z3(v) else Fraction(v)], 0)
    if isinstance(v, (list, tuple)) and all(is_num(x) for x in v):
        return SArr(list(v))
    raise Undecided(f"number_array({type(v).__name__})")


@external("scipy.integrate.dblquad")
def sp_dblquad(engine, run, a, k):
    """Assumed: dblquad(f, a, b, g, h)[0] = ∫_a^b dx ∫_{g(x)}^{h(x)} f(y, x) dy  (f's FIRST argument is the
    inner variable).  The integrand is evaluated at a Skolem point inside the domain."""
    f, lo, hi, g, h = a[:5]
    x = run.fresh_real("outer")
    run.assume(z3.And(x >= to_real(lo), x <= to_real(hi)))
    glo = engine.invoke(run, g, [x], {}) if not is_num(g) else g
    ghi = engine.invoke(run, h, [x], {}) if not is_num(h) else h
    y = run.fresh_real("inner")
    run.assume(z3.And(y >= to_real(glo), y <= to_real(ghi)))
    val = engine.invoke(run, f, [y, x], {})
    s = _reduce(run, "dblquad", val, "dblquad", dict(outer=x, inner=y, outer_lo=lo, outer_hi=hi, inner_lo=glo, inner_hi=ghi))
    return (s, run.fresh_real("quad_err"))


@external("numpy.arange")
def np_arange(engine, run, a, k):
    lo, hi = (0, a[0]) if len(a) == 1 else (a[0], a[1])
    idx = run.fresh_int("ar_idx")
    n = ops.binop(run, ast.Sub(), hi, lo)
    run.assume(z3.And(idx >= 0, idx < to_z3(n)))
    return SCell(to_z3(lo) + idx, f"arange!{next(run.counter)}", kind="int")


# ---------------------------------------------------------------------------
# symbolic lists / matrices (pyvc.heap)
from . import heap as _heap   # noqa: E402

_old_getitem2 = getitem


def getitem(engine, run, obj, idx):   # noqa: F811
    if isinstance(obj, _heap.SListObj):
        m = obj.cls.lookup("__getitem__") if obj.cls is not None else None
        if m is not None:
            c = engine.modular.get(m.key)           # a call-site contract of the subclass's __getitem__ takes precedence (modular use)
            if c is not None and not getattr(run, "_verifying", None) == m.key:
                r = c.apply(engine, run, m, [obj, idx], {})
                if r is not NotImplemented:
                    return r
            return engine.call_function(run, m, [obj, idx], {}, self_cls=m.cls)
        return obj.raw_getitem(run, idx)
    return _old_getitem2(engine, run, obj, idx)


_old_native_attr2 = native_attr


def native_attr(engine, run, obj, attr):   # noqa: F811
    if isinstance(obj, _heap.SListObj):
        if attr in ("append", "pop", "__getitem__", "__init__"):
            return _heap.list_method(obj, run, attr)
        if attr == "__class__":
            return SClassRef(obj.cls) if obj.cls else BUILTINS["list"]
    if isinstance(obj, SNative) and obj.name == "list":
        if attr == "__getitem__":
            return SNative(lambda run, a, k: a[0].raw_getitem(run, a[1]) if isinstance(a[0], _heap.SListObj)
                           else _old_getitem2(engine, run, a[0], a[1]), "list.__getitem__")
        if attr == "__add__":
            def _add(run, a, k):
                x, y = a
                if isinstance(x, list) and isinstance(y, list):
                    return x + y
                if hasattr(x, "sym_concat"):
                    return x.sym_concat(run, y)
                raise Undecided("list.__add__ on symbolic lists")
            return SNative(_add, "list.__add__")
    return _old_native_attr2(engine, run, obj, attr)


_old_isinstance_one = isinstance_one


def isinstance_one(run, v, t):   # noqa: F811
    if isinstance(v, _heap.SListObj):
        if isinstance(t, SClassRef):
            return v.cls is not None and v.cls.is_subclass_of(t.cls.name)
        if isinstance(t, SNative) and t.name == "list":
            return True
        return False
    if isinstance(v, _heap.SMat):
        return isinstance(t, SExternal) and t.name == "numpy.ndarray"
    return _old_isinstance_one(run, v, t)


def _mat_dims(run, shp):
    if isinstance(shp, tuple) and len(shp) == 2:
        return shp
    return None


_old_np_zeros = EXTERNALS["numpy.zeros"]


@external("numpy.zeros")
def np_zeros2(engine, run, a, k):
    d = _mat_dims(run, a[0])
    if d is not None:
        return _heap.SMat(d[0], d[1], lambda i, j: z3.RealVal(0), "zeros")
    return _old_np_zeros(engine, run, a, k)


@external("numpy.fill_diagonal")
def np_fill_diagonal(engine, run, a, k):
    m, v = a
    if not isinstance(m, _heap.SMat):
        raise Undecided("fill_diagonal")
    old = m.at
    val = _heap.mat_val(v)
    m.at = lambda i, j: z3.If(i == j, val, old(i, j))


class SFlatIndex:
    """result of np.argmin(matrix): a flat index of a minimal entry"""

    def __init__(self, mat, kind="argmin"):
        self.mat = mat
        self.kind = kind


@external("numpy.argmin")
def np_argmin(engine, run, a, k):
    m = a[0]
    if isinstance(m, _heap.SMat):
        return SFlatIndex(m, "argmin")
    if hasattr(m, "sym_argmin"):
        return m.sym_argmin(run)
    hook = run.ghost.get("argmin_hook")
    if isinstance(m, SCell) and hook is not None and len(a) == 1 and not k:
        return hook(run, m)
    raise Undecided("argmin")


@external("numpy.unravel_index")
def np_unravel_index(engine, run, a, k):
    """Assumed (numpy): unravel_index(argmin(M), M.shape) is a position (x, y) of a minimal entry of M.
    Requires a non-empty matrix (ValueError otherwise)."""
    fi, shp = a
    if not isinstance(fi, SFlatIndex):
        raise Undecided("unravel_index of a non-argmin index")
    m = fi.mat
    rows, cols = to_z3(m.rows), to_z3(m.cols)
    run.oblige("argmin of a non-empty array", z3.And(rows > 0, cols > 0), kind="implicit")
    x, y = run.fresh_int("amin_x"), run.fresh_int("amin_y")
    kk, ll = z3.Ints("kk ll")
    run.assume(z3.And(x >= 0, x < rows, y >= 0, y < cols))
    run.assume(z3.ForAll([kk, ll], z3.Implies(z3.And(kk >= 0, kk < rows, ll >= 0, ll < cols), m.at(x, y) <= m.at(kk, ll))))
    run.trust("numpy: unravel_index(argmin(M), M.shape) is the position of a minimal entry")
    return (x, y)


@external("numpy.delete")
def np_delete(engine, run, a, k):
    m, idx, axis = a[0], a[1], (a[2] if len(a) > 2 else k.get("axis"))
    if not isinstance(m, _heap.SMat):
        raise Undecided("np.delete on a non-matrix")
    p = to_z3(idx)
    ax = const_of(axis)
    old = m.at
    run.trust("numpy: np.delete(M, p, axis) drops row/column p and shifts the later ones")
    if ax == 0:
        run.oblige("np.delete: index in range", z3.And(p >= 0, p < to_z3(m.rows)), kind="implicit")
        return _heap.SMat(to_z3(m.rows) - 1, m.cols, lambda i, j: old(z3.If(i < p, i, i + 1), j), m.name)
    if ax == 1:
        run.oblige("np.delete: index in range", z3.And(p >= 0, p < to_z3(m.cols)), kind="implicit")
        return _heap.SMat(m.rows, to_z3(m.cols) - 1, lambda i, j: old(i, z3.If(j < p, j, j + 1)), m.name)
    raise Undecided("np.delete axis")


_old_isinf = EXTERNALS["numpy.isinf"]


@external("numpy.isinf", "math.isinf")
def np_isinf2(engine, run, a, k):
    v = a[0]
    if is_z3(v) and z3.is_real(v):
        # a matrix entry: infinite iff it is the INF constant (entries are finite reals or +-INF by construction)
        return z3.Or(v == _heap.INF(), v == -_heap.INF())
    return _old_isinf(engine, run, a, k)


@external("functools.partial")
def functools_partial(engine, run, a, k):
    f = a[0]
    pre_a, pre_k = list(a[1:]), dict(k)
    return SNative(lambda run2, a2, k2: engine.invoke(run2, f, pre_a + list(a2), {**pre_k, **k2}), "partial")


class SSymSet:
    """set built from a symbolic-length sequence: only its size is modelled: 0 for an empty sequence, between 1 and the length otherwise, and
    exactly 1 iff all elements are equal (elements are compared through `key(element)`, a z3 term)"""

    def __init__(self, run, seq):
        self.seq = seq
        n = to_z3(seq.length)
        c = run.fresh_int("set_size")
        i, j = z3.Ints("ss_i ss_j")

        def key(v):
            if hasattr(v, "sym_set_key"):
                return v.sym_set_key(run)
            if is_z3(v):
                return v
            raise Undecided(f"set of {type(v).__name__} over a symbolic sequence")
        self.key = key
        ki, kj = key(seq.at(i)), key(seq.at(j))
        run.define(z3.And(c >= 0, c <= n, (c == 0) == (n <= 0),
                          (c <= 1) == z3.ForAll([i, j], z3.Implies(z3.And(i >= 0, i < n, j >= 0, j < n), ki == kj))),
                   "size of a set: 0 iff empty, at most the number of elements, 1 iff all elements are equal")
        self.size = c

    def sym_len(self, run):
        return self.size


@external("numpy.abs", "numpy.absolute", "numpy.fabs")
def np_abs(engine, run, a, k):
    return _lift(lambda run2, x: z3.If(to_real(x) >= 0, to_real(x), -to_real(x)) if not is_concrete_num(x) else abs(x))(run, a[0])


def _np_anyall(is_any):
    def f(engine, run, a, k):
        v = a[0]
        if isinstance(v, SArr):
            ts = [ops.truth_term(run, x) for x in v.elems]
        elif isinstance(v, (list, tuple)):
            ts = [ops.truth_term(run, x) for x in v]
        else:
            raise Undecided("np.any / np.all of a symbolic-shape array")
        if all(isinstance(t, bool) for t in ts):
            return any(ts) if is_any else all(ts)
        zs = [to_z3(t) for t in ts]
        return z3.Or(*zs) if is_any else z3.And(*zs)
    return f


EXTERNALS["numpy.any"] = _np_anyall(True)
EXTERNALS["numpy.all"] = _np_anyall(False)


class _FInfo:
    def sym_getattr(self, run, attr):
        if attr in ("eps", "tiny", "resolution"):
            e = z3.Real("float_" + attr)
            run.define(e > 0, "np.finfo(float): a positive constant")
            return e
        from .engine import _MISSING as M
        return M


@external("numpy.finfo")
def np_finfo(engine, run, a, k):
    return _FInfo()


_prev_native_attr_sum = native_attr


def native_attr(engine, run, obj, attr):   # noqa: F811
    if isinstance(obj, SSeq) and obj.kind == "array" and attr == "sum":
        def red(run2, a, k):
            j = run2.fresh_int("j")
            run2.assume(z3.And(j >= 0, j < to_z3(obj.length)))
            return _reduce(run2, "sum", obj.at(j), obj.name, dict(index=j, length=obj.length))
        return SNative(red, "ndarray.sum")
    return _prev_native_attr_sum(engine, run, obj, attr)


def _np_reduce_ext(attr):
    def f(engine, run, a, k):
        v = a[0] if a else None
        if len(a) != 1 or k:
            raise Undecided(f"np.{attr} with options")
        if isinstance(v, SCell):
            if v.space == "arg":
                # an array ARGUMENT of arbitrary shape: zero-size arrays are valid arguments of element-wise functions, numpy's reductions without
                # identity raise ValueError for them
                run.oblige(f"np.{attr} of an array argument that may be empty (numpy raises ValueError for zero-size arrays)", z3.BoolVal(False),
                           kind="implicit", assume_after=False)
            return engine.invoke(run, native_attr(engine, run, v, attr), [], {})
        if is_num(v) or z3.is_expr(v):
            run.trust(f"numpy: np.{attr} of a scalar is the scalar")
            return v
        raise Undecided(f"np.{attr} of {type(v).__name__}")
    return f


for _nm in ("min", "max"):
    EXTERNALS[f"numpy.{_nm}"] = EXTERNALS[f"numpy.a{_nm}"] = _np_reduce_ext(_nm)


@external("numpy.errstate")
def np_errstate(engine, run, a, k):
    """np.errstate(...) only silences numpy's floating-point WARNINGS; the values computed inside (inf, nan for x / 0) are the same - so the
    implicit obligations of the body (divisor non-zero, ...) are generated as everywhere else"""
    run.trust("numpy: np.errstate changes warnings only, not values")
    return SOpaque("errstate")
