#!/usr/bin/env python3
"""Print the prompt given to an independent sub-agent that seeds a property-breaking change."""
import json, sys
pid, wt = sys.argv[1], sys.argv[2]
n = sys.argv[3] if len(sys.argv) > 3 else "2"
import glob, os
avoid = []
for m in sorted(glob.glob(f'/verif/seeded/{pid}-*/meta.json')):
    try:
        avoid.append('   - ' + json.load(open(m))['summary'].replace('\n', ' ')[:230])
    except Exception:
        pass
AVOID = ("\nChanges of the following kinds have ALREADY been produced by others -- do NOT repeat them or close variants; find different functions / mechanisms:\n" + "\n".join(avoid) + "\n") if avoid else ""
for l in open('/verif/properties.jsonl'):
    p = json.loads(l)
    if p['id'] == pid:
        break
print(f"""You are helping to evaluate a verification effort for the Python library py-droplets (zwicker-group/py-droplets).
You have your own scratch git worktree of the library at {wt} (a detached checkout of the pinned commit). Work ONLY inside {wt}; never touch /repo or /verif and do not read anything under /verif.

The library must satisfy this semantic property:

TITLE: {p['title']}
STATEMENT: {p['statement']}
QUANTIFIER: {p['quantifier']['text']}
RELEVANT FILES: {', '.join(p['anchors']['files'])}

Your task: produce {n} DIFFERENT realistic code changes ("seeded bugs") to the library sources under {wt}/droplets, each of which
 (a) BREAKS the property above (some clause of it) for some input,
 (b) still imports/compiles, and the ENTIRE existing test suite still passes with it:
       cd {wt} && /venv/bin/python -m pytest -q -p no:cacheprovider --timeout=900 tests        (takes about 1 minute; 112 tests must pass)
 (c) needs something SPECIFIC to manifest -- an unusual input, a particular multi-step sequence of operations, a corner case (empty collection, a tie, a value exactly on a boundary, a particular dimension or grid type, aliasing of two arguments, a particular option combination), or two cooperating edits that each look fine alone -- NOT something ordinary use would expose at once.  The change should look like a plausible refactoring/optimisation/typo a maintainer could make, touching few lines. Do not touch tests/.
For each change also write a small self-contained demonstration program (plain python, run as `cd {wt} && /venv/bin/python demo_k.py`) that exits non-zero (assert failure) WITH the change and exits 0 WITHOUT it (on the pristine checkout), and that demonstrates a violation of the property as stated (not of some other behaviour).

{AVOID}
Procedure for each change k = 1..{n}:
  1. start from the pristine tree (`git -C {wt} checkout -- droplets`), make the edit, save it as `git -C {wt} diff > {wt}/seed_k.diff`
  2. run the whole test suite with the edit; all tests must pass (if not, pick another change)
  3. write {wt}/demo_k.py; confirm it FAILS with the edit and PASSES after `git -C {wt} checkout -- droplets`
  4. write {wt}/seed_k.json with keys: property ("{pid}"), summary (what was changed), needs (what specific input/sequence is needed for it to manifest), clause (which clause of the property breaks)
At the end leave the tree pristine (`git -C {wt} checkout -- droplets`) with the files seed_k.diff, demo_k.py, seed_k.json for each k in {wt}/ (untracked).
Note: python to use is /venv/bin/python (the library's own deps are installed there; running from {wt} as cwd imports {wt}/droplets). Make the {n} changes differ in the function/mechanism they touch. Keep your final answer short: list for each k the file touched and one line on how it manifests.""")
