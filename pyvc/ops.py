"""Arithmetic, comparison and truth-value semantics of the symbolic values.

`E` is the running path (engine.Run): it supplies fresh symbols, assumptions, obligations.
Floats are mathematical reals (assumption A-FP), ints are mathematical integers.
"""
from __future__ import annotations

import ast
from fractions import Fraction

import z3

from .values import (SArr, SCell, SInf, SMaybeNaN, SSeq, SShape, Undecided, const_of, is_concrete_num,
                     is_int_valued, is_num, is_z3, to_real, to_z3)

_UF = {}


def ufun(name, nargs=1, sort=None, argsorts=None):
    key = (name, nargs, str(sort), str(argsorts))
    if key not in _UF:
        sorts = list(argsorts) if argsorts else [z3.RealSort()] * nargs
        _UF[key] = z3.Function(name, *sorts, sort if sort is not None else z3.RealSort())
    return _UF[key]


def PI():
    return z3.Real("PI")


PI_FACTS = lambda: [PI() > z3.RealVal("3.14159"), PI() < z3.RealVal("3.14160")]


# ---------------------------------------------------------------------------
# elementary real functions (uninterpreted + defining instances)

def real_sqrt(E, x, where="sqrt"):
    c = const_of(x)
    if c is not None and c >= 0:
        fr = Fraction(c)
        import math
        n, d = fr.numerator, fr.denominator
        rn, rd = math.isqrt(n), math.isqrt(d)
        if rn * rn == n and rd * rd == d:
            return Fraction(rn, rd)
    xr = to_real(x)
    E.oblige(f"{where}: argument of sqrt is non-negative", xr >= 0, kind="implicit")
    s = ufun("sqrt_f")(xr)
    E.define(z3.And(s * s == xr, s >= 0), "sqrt")
    return s


def real_cbrt(E, x, where="cbrt"):
    c = const_of(x)
    if c is not None and c == 0:
        return Fraction(0)
    xr = to_real(x)
    E.oblige(f"{where}: base of fractional power is non-negative", xr >= 0, kind="implicit")
    s = ufun("cbrt_f")(xr)
    E.define(z3.And(s * s * s == xr, s >= 0), "cbrt")
    return s


def real_div(E, a, b, where="division"):
    cb = const_of(b)
    if cb is not None:
        if cb == 0:
            E.oblige(f"{where}: divisor is non-zero", z3.BoolVal(False), kind="implicit")
            raise E.PathEnd()
        ca = const_of(a)
        if ca is not None:
            return Fraction(ca) / Fraction(cb)
        return to_real(a) * z3.RealVal(Fraction(1) / Fraction(cb))
    br = to_real(b)
    ar = to_real(a)
    E.oblige(f"{where}: divisor is non-zero", br != 0, kind="implicit")
    key = ("div", ar.get_id(), br.get_id())
    if key in E.memo:
        return E.memo[key]
    q = E.fresh_real("q")
    E.define(q * br == ar, "div")
    E.memo[key] = q
    return q


def elementary(E, fname, x):
    """sin/cos/tanh/... as uninterpreted functions with the facts the contracts rely on."""
    c = const_of(x)
    xr = to_real(x)
    f = ufun(fname + "_f")
    r = f(xr)
    if fname == "tanh":
        E.define(z3.And(r > -1, r < 1, (xr > 0) == (r > 0), (xr < 0) == (r < 0)), "tanh range/sign")
    elif fname in ("sin", "cos"):
        s, co = ufun("sin_f")(xr), ufun("cos_f")(xr)
        E.define(s * s + co * co == 1, "pythagoras")
        if c is not None and c == 0:
            return Fraction(0) if fname == "sin" else Fraction(1)
    elif fname == "arccos":
        E.oblige("arccos: argument in [-1, 1]", z3.And(xr >= -1, xr <= 1), kind="implicit")
    return r


# ---------------------------------------------------------------------------

def _lift1(fn, x):
    if isinstance(x, SCell):
        return SCell(fn(x.v), x.space)
    if isinstance(x, SArr):
        return SArr([fn(e) for e in x.elems], x.ndim)
    return fn(x)


def _cellspace(a, b):
    return a.space if isinstance(a, SCell) else b.space


def binop(E, op, a, b, where=""):
    # --- array lifting
    if (isinstance(a, SSeq) and a.kind == "array") or (isinstance(b, SSeq) and b.kind == "array"):
        sa, sb = isinstance(a, SSeq), isinstance(b, SSeq)
        if sa and sb:
            return SSeq(a.length, lambda i: binop(E, op, a.at(i), b.at(i), where), f"({a.name}{type(op).__name__}{b.name})", "array")
        if sa:
            return SSeq(a.length, lambda i: binop(E, op, a.at(i), b, where), a.name + "'", "array")
        return SSeq(b.length, lambda i: binop(E, op, a, b.at(i), where), b.name + "'", "array")
    if isinstance(a, SCell) or isinstance(b, SCell):
        av = a.v if isinstance(a, SCell) else a
        bv = b.v if isinstance(b, SCell) else b
        if isinstance(av, (SArr,)) or isinstance(bv, (SArr,)):
            raise Undecided("SCell with SArr")
        return SCell(binop(E, op, av, bv, where), _cellspace(a, b))
    if isinstance(a, SArr) or isinstance(b, SArr):
        if isinstance(a, SArr) and isinstance(b, SArr):
            if len(a) != len(b):
                if len(a) == 1:
                    return SArr([binop(E, op, a.elems[0], y, where) for y in b.elems])
                if len(b) == 1:
                    return SArr([binop(E, op, x, b.elems[0], where) for x in a.elems])
                E.oblige(f"{where}: operands broadcast (shapes {len(a)} vs {len(b)})", z3.BoolVal(False), kind="implicit")
                raise E.PathEnd()
            return SArr([binop(E, op, x, y, where) for x, y in zip(a.elems, b.elems)], max(a.ndim, b.ndim))
        if isinstance(a, SArr):
            if isinstance(b, (list, tuple)):
                return binop(E, op, a, SArr(list(b)), where)
            return SArr([binop(E, op, x, b, where) for x in a.elems], a.ndim)
        if isinstance(a, (list, tuple)):
            return binop(E, op, SArr(list(a)), b, where)
        return SArr([binop(E, op, a, y, where) for y in b.elems], b.ndim)
    # --- NaN-able
    if isinstance(a, SMaybeNaN) or isinstance(b, SMaybeNaN):
        an = a.isnan if isinstance(a, SMaybeNaN) else False
        bn = b.isnan if isinstance(b, SMaybeNaN) else False
        av = a.val if isinstance(a, SMaybeNaN) else a
        bv = b.val if isinstance(b, SMaybeNaN) else b
        isn = z3.simplify(z3.Or(to_z3(an), to_z3(bn)))
        return SMaybeNaN(isn, binop(E, op, av, bv, where))
    if isinstance(a, SInf) or isinstance(b, SInf):
        return _inf_binop(E, op, a, b)
    # --- python containers
    if isinstance(op, ast.Add) and isinstance(a, (list, tuple)) and isinstance(b, type(a)):
        return a + b
    if isinstance(op, ast.Add) and isinstance(a, str) and isinstance(b, str):
        return a + b
    if isinstance(op, ast.Mult) and isinstance(a, list) and isinstance(b, int):
        return a * b
    if isinstance(op, ast.Mod) and isinstance(a, str):
        return a
    if isinstance(op, ast.Sub) and isinstance(a, (set, frozenset)) and isinstance(b, (set, frozenset)):
        return a - b
    if isinstance(a, bool):
        a = int(a)
    if isinstance(b, bool):
        b = int(b)
    if is_z3(a) and z3.is_bool(a):
        a = z3.If(a, z3.IntVal(1), z3.IntVal(0))
    if is_z3(b) and z3.is_bool(b):
        b = z3.If(b, z3.IntVal(1), z3.IntVal(0))
    if not (is_num(a) and is_num(b)):
        raise Undecided(f"binary operator {type(op).__name__} on {type(a).__name__}, {type(b).__name__} ({where})")
    # --- concrete
    if is_concrete_num(a) and is_concrete_num(b):
        return _concrete_binop(E, op, a, b, where)
    # --- symbolic
    both_int = is_int_valued(a) and is_int_valued(b)
    if isinstance(op, ast.Add):
        return _arith(a, b, lambda x, y: x + y, both_int)
    if isinstance(op, ast.Sub):
        return _arith(a, b, lambda x, y: x - y, both_int)
    if isinstance(op, ast.Mult):
        ca, cb = const_of(a), const_of(b)
        if ca is not None and ca == 0 or cb is not None and cb == 0:
            return 0 if both_int else Fraction(0)
        return _arith(a, b, lambda x, y: x * y, both_int)
    if isinstance(op, ast.Div):
        return real_div(E, a, b, where or "division")
    if isinstance(op, ast.Pow):
        return power(E, a, b, where)
    if isinstance(op, (ast.FloorDiv, ast.Mod)):
        if both_int:
            za, zb = to_z3(a), to_z3(b)
            E.oblige(f"{where}: integer divisor is positive (modelled case)", zb > 0, kind="implicit")
            return za / zb if isinstance(op, ast.FloorDiv) else za % zb
        # real modulo with positive divisor: a - b*floor(a/b)
        ar, br = to_real(a), to_real(b)
        E.oblige(f"{where}: real modulus is positive (modelled case)", br > 0, kind="implicit")
        k = E.fresh_int("fl")
        E.define(z3.And(z3.ToReal(k) * br <= ar, ar < (z3.ToReal(k) + 1) * br), "floor-division")
        if isinstance(op, ast.FloorDiv):
            return z3.ToReal(k)
        return ar - z3.ToReal(k) * br
    raise Undecided(f"operator {type(op).__name__}")


def _arith(a, b, f, both_int):
    if both_int:
        return f(to_z3(a), to_z3(b))
    return f(to_real(a), to_real(b))


def _concrete_binop(E, op, a, b, where):
    if isinstance(op, ast.Add):
        return a + b
    if isinstance(op, ast.Sub):
        return a - b
    if isinstance(op, ast.Mult):
        return a * b
    if isinstance(op, ast.Div):
        if b == 0:
            E.oblige(f"{where}: divisor is non-zero", z3.BoolVal(False), kind="implicit")
            raise E.PathEnd()
        return Fraction(a) / Fraction(b)
    if isinstance(op, ast.FloorDiv):
        if b == 0:
            E.oblige(f"{where}: divisor is non-zero", z3.BoolVal(False), kind="implicit")
            raise E.PathEnd()
        return a // b
    if isinstance(op, ast.Mod):
        if b == 0:
            E.oblige(f"{where}: divisor is non-zero", z3.BoolVal(False), kind="implicit")
            raise E.PathEnd()
        return a % b
    if isinstance(op, ast.Pow):
        return power(E, a, b, where)
    raise Undecided(f"operator {type(op).__name__}")


def power(E, a, b, where=""):
    cb = const_of(b)
    if cb is not None and isinstance(cb, int):
        if cb >= 0:
            ca = const_of(a)
            if ca is not None:
                return ca ** cb
            if cb == 0:
                return 1 if is_int_valued(a) else Fraction(1)
            r = to_z3(a)
            out = r
            for _ in range(cb - 1):
                out = out * r
            return out
        return real_div(E, 1, power(E, a, -cb, where), where or "negative power")
    if cb is not None and isinstance(cb, Fraction):
        if cb.denominator == 1:
            r = power(E, a, int(cb), where)
            return Fraction(r) if is_concrete_num(r) else to_real(r)
        if cb == Fraction(1, 3):
            return real_cbrt(E, a, where or "x**(1/3)")
        if cb == Fraction(1, 2):
            return real_sqrt(E, a, where or "x**(1/2)")
        if cb == Fraction(1, 1):
            return a
    # symbolic exponent
    if is_int_valued(a) and is_int_valued(b):
        ca = const_of(a)
        if ca is not None and ca in (-1, 1):
            f = ufun("ipow_f", 2, z3.IntSort(), [z3.IntSort(), z3.IntSort()])
            r = f(z3.IntVal(ca), to_z3(b))
            E.define(z3.Or(r == 1, r == -1), "(+-1)**n is +-1")
            return r
    f = ufun("pow_f", 2)
    E.oblige(f"{where}: base of real power is non-negative", to_real(a) >= 0, kind="implicit")
    return f(to_real(a), to_real(b))


def _inf_binop(E, op, a, b):
    if isinstance(op, (ast.Add, ast.Sub)):
        if isinstance(a, SInf) and not isinstance(b, SInf):
            return a
        if isinstance(b, SInf) and not isinstance(a, SInf):
            return SInf(b.sign if isinstance(op, ast.Add) else -b.sign)
    if isinstance(op, ast.Mult):
        other = b if isinstance(a, SInf) else a
        inf = a if isinstance(a, SInf) else b
        c = const_of(other)
        if c is not None and c != 0:
            return SInf(inf.sign * (1 if c > 0 else -1))
    raise Undecided("arithmetic with infinity")


def unary(E, op, a):
    if isinstance(op, ast.Not):
        t = truth_term(E, a)
        if isinstance(t, bool):
            return not t
        return z3.Not(t)
    if isinstance(a, (SCell, SArr)):
        return _lift1(lambda x: unary(E, op, x), a)
    if isinstance(a, SInf):
        if isinstance(op, ast.USub):
            return SInf(-a.sign)
        return a
    if isinstance(a, SMaybeNaN):
        return SMaybeNaN(a.isnan, unary(E, op, a.val))
    if isinstance(op, ast.USub):
        return -a if is_concrete_num(a) else -to_z3(a)
    if isinstance(op, ast.UAdd):
        return a
    raise Undecided(f"unary {type(op).__name__}")


def compare(E, op, a, b, where=""):
    """Return python bool or z3 Bool (or SCell/SArr of those)."""
    if isinstance(op, (ast.Is, ast.IsNot)):
        r = _identical(a, b)
        return r if isinstance(op, ast.Is) else (not r)
    if isinstance(op, (ast.In, ast.NotIn)):
        r = contains(E, b, a)
        if isinstance(op, ast.In):
            return r
        return (not r) if isinstance(r, bool) else z3.Not(r)
    if isinstance(a, SCell) or isinstance(b, SCell):
        av = a.v if isinstance(a, SCell) else a
        bv = b.v if isinstance(b, SCell) else b
        return SCell(compare(E, op, av, bv, where), _cellspace(a, b), kind="bool")
    if isinstance(a, SArr) or isinstance(b, SArr):
        if isinstance(a, SArr) and isinstance(b, SArr):
            return SArr([compare(E, op, x, y) for x, y in zip(a.elems, b.elems)], kind="bool")
        if isinstance(a, SArr):
            return SArr([compare(E, op, x, b) for x in a.elems], a.ndim, kind="bool")
        return SArr([compare(E, op, a, y) for y in b.elems], b.ndim, kind="bool")
    if isinstance(a, SShape) or isinstance(b, SShape):
        return _shape_cmp(E, op, a, b)
    if isinstance(a, SMaybeNaN) or isinstance(b, SMaybeNaN):
        an = a.isnan if isinstance(a, SMaybeNaN) else False
        bn = b.isnan if isinstance(b, SMaybeNaN) else False
        av = a.val if isinstance(a, SMaybeNaN) else a
        bv = b.val if isinstance(b, SMaybeNaN) else b
        base = compare(E, op, av, bv, where)
        nn = z3.Not(z3.Or(to_z3(an), to_z3(bn)))
        if isinstance(op, ast.NotEq):
            return z3.simplify(z3.Or(z3.Not(nn), to_z3(base)))
        return z3.simplify(z3.And(nn, to_z3(base)))
    if isinstance(a, SInf) or isinstance(b, SInf):
        return _inf_cmp(op, a, b)
    if isinstance(a, bool) and not isinstance(b, bool) and is_num(b):
        a = int(a)
    if isinstance(b, bool) and not isinstance(a, bool) and is_num(a):
        b = int(b)
    if is_num(a) and is_num(b):
        if is_concrete_num(a) and is_concrete_num(b):
            return _pycmp(op, a, b)
        if is_int_valued(a) and is_int_valued(b):
            x, y = to_z3(a), to_z3(b)
        else:
            x, y = to_real(a), to_real(b)
        return _z3cmp(op, x, y)
    if isinstance(op, (ast.Eq, ast.NotEq)):
        r = generic_eq(E, a, b)
        if isinstance(op, ast.Eq):
            return r
        return (not r) if isinstance(r, bool) else z3.Not(r)
    raise Undecided(f"comparison {type(op).__name__} of {type(a).__name__} and {type(b).__name__} ({where})")


def _pycmp(op, a, b):
    return {ast.Eq: a == b, ast.NotEq: a != b, ast.Lt: a < b, ast.LtE: a <= b, ast.Gt: a > b, ast.GtE: a >= b}[type(op)]


def _z3cmp(op, x, y):
    return {ast.Eq: lambda: x == y, ast.NotEq: lambda: x != y, ast.Lt: lambda: x < y, ast.LtE: lambda: x <= y,
            ast.Gt: lambda: x > y, ast.GtE: lambda: x >= y}[type(op)]()


def _inf_cmp(op, a, b):
    def key(v):
        if isinstance(v, SInf):
            return (v.sign, 0)
        return (0, 0)
    ka, kb = key(a), key(b)
    if ka == kb and isinstance(a, SInf) and isinstance(b, SInf):
        return _pycmp(op, 0, 0)
    if not isinstance(a, SInf) and not isinstance(b, SInf):
        raise Undecided("inf compare")
    return _pycmp(op, ka[0], kb[0])


def _shape_cmp(E, op, a, b):
    if isinstance(a, SShape) and isinstance(b, SShape):
        same = a.space == b.space
        if not same:
            raise Undecided("shapes over different index spaces")
        return same if isinstance(op, ast.Eq) else (not same)
    if isinstance(a, SShape) and isinstance(b, tuple) and a.dims is not None:
        return compare(E, op, tuple(a.dims), b)
    if isinstance(b, SShape) and isinstance(a, tuple) and b.dims is not None:
        return compare(E, op, a, tuple(b.dims))
    raise Undecided("shape comparison")


def _identical(a, b):
    if a is None or b is None:
        return a is b
    if isinstance(a, (bool, int, str)) and isinstance(b, (bool, int, str)):
        return a is b or (type(a) is type(b) and a == b)
    return a is b


def generic_eq(E, a, b):
    from .values import SClassRef, SObj, SOpaque
    if a is None or b is None:
        return a is b
    if isinstance(a, str) or isinstance(b, str):
        if isinstance(a, str) and isinstance(b, str):
            return a == b
        if isinstance(a, SOpaque) or isinstance(b, SOpaque):
            # a symbolic string-or-number option compared with a literal
            o = a if isinstance(a, SOpaque) else b
            lit = b if isinstance(a, SOpaque) else a
            if "eq_str" in o.attrs:
                return o.attrs["eq_str"](lit)
        return False
    if isinstance(a, SClassRef) and isinstance(b, SClassRef):
        return a.cls == b.cls
    if isinstance(a, (tuple, list)) and isinstance(b, (tuple, list)):
        if len(a) != len(b):
            return False
        parts = [generic_eq(E, x, y) if not (is_num(x) and is_num(y)) else compare(E, ast.Eq(), x, y)
                 for x, y in zip(a, b)]
        if all(isinstance(p, bool) for p in parts):
            return all(parts)
        return z3.And(*[to_z3(p) for p in parts])
    if isinstance(a, bool) and isinstance(b, bool):
        return a == b
    if is_z3(a) and is_z3(b) and a.sort() == b.sort():
        return a == b
    if is_z3(a) and z3.is_bool(a) and isinstance(b, bool):
        return a if b else z3.Not(a)
    if is_z3(b) and z3.is_bool(b) and isinstance(a, bool):
        return b if a else z3.Not(b)
    if isinstance(a, SOpaque) and isinstance(b, SOpaque):
        if a is b:
            return True
        if a.term is not None and b.term is not None and a.term.sort() == b.term.sort():
            return a.term == b.term
    if isinstance(a, SObj) and isinstance(b, SObj):
        if a is b:
            return True
    if hasattr(a, "sym_eq"):
        return a.sym_eq(E, b)
    if hasattr(b, "sym_eq"):
        return b.sym_eq(E, a)
    raise Undecided(f"equality of {type(a).__name__} and {type(b).__name__}")


def contains(E, container, item):
    if isinstance(container, (list, tuple, set, frozenset)):
        parts = []
        for x in container:
            if is_num(x) and is_num(item):
                r = compare(E, ast.Eq(), item, x)
            else:
                r = generic_eq(E, item, x)
            if r is True:
                return True
            if r is not False:
                parts.append(r)
        if not parts:
            return False
        return z3.Or(*parts)
    if isinstance(container, dict):
        return item in container
    if hasattr(container, "sym_contains"):
        return container.sym_contains(E, item)
    raise Undecided(f"`in` on {type(container).__name__}")


def truth_term(E, v):
    """python bool or z3 Bool for the truth value of v."""
    from .values import SObj, SOpaque
    if isinstance(v, bool):
        return v
    if v is None:
        return False
    if is_z3(v):
        if z3.is_bool(v):
            s = z3.simplify(v)
            if z3.is_true(s):
                return True
            if z3.is_false(s):
                return False
            return v
        return v != 0
    if is_concrete_num(v):
        return v != 0
    if isinstance(v, (str, list, tuple, dict, set, frozenset)):
        return len(v) > 0
    if isinstance(v, SInf):
        return True
    if isinstance(v, SMaybeNaN):
        return z3.Or(to_z3(v.isnan), to_real(v.val) != 0)
    if hasattr(v, "sym_truth"):
        return v.sym_truth(E)
    if isinstance(v, SSeq):
        if v.kind == "array":
            raise Undecided("truth value of an array")
        return to_z3(v.length) > 0 if is_z3(v.length) else v.length > 0
    if isinstance(v, SArr):
        if len(v) == 1:
            return truth_term(E, v.elems[0])
        raise Undecided("truth value of an array with more than one element")
    if isinstance(v, SCell):
        raise Undecided("truth value of an array")
    if isinstance(v, SOpaque) and "truth" in v.attrs:
        return v.attrs["truth"]
    if isinstance(v, (SObj, SOpaque)):
        return True
    return True
