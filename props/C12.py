"""C12 -- sphere volume / surface / radius conversions are mutually consistent."""
from contracts import droplets as dr, lemmas, spherical as sp
from pyvc.bounded import ContractSampling

LEVEL = "proof"
LEVEL_TEXT = 'Every conversion variant (scalar/array, dimension-specialised, dimension-generic, numba overload) and every droplet accessor is verified against the spec functions V_d, S_d and the relational R_d for all real arguments >= 0 (no bound), dims 1-3, with the documented exceptions elsewhere; round trips, injectivity and S = dV/dr are z3 lemmas over those contracts. Float behaviour and the compiled code are only sampled (bounded stand-in).'
LEVEL_NOTE = 'floats = mathematical reals (A-FP); numba compiles the Python text faithfully (A-NB, sampled); numpy scalar functions sqrt / ** / broadcast_to / full as modelled in pyvc/models.py; Cuboid.from_points = box with the given corners; pyvc engine semantics'
CONTRACTS = [c.ident for c in (
    sp.RadiusFromVolume(), sp.SurfaceFromRadius(), sp.RadiusFromSurface(), sp.PdeVolumeFromRadius(),
    sp.RadiusFromVolumeNd(), sp.VolumeFromRadiusNd(), sp.MakeRadiusFromVolume(), sp.MakeVolumeFromRadius(),
    sp.MakeSurfaceFromRadius(), sp.NdFactoryRadius(), sp.NdFactoryVolume(), sp.SurfaceOverloadDim1(),
    dr.Volume(), dr.SurfaceArea(), dr.Curvature(), dr.BBox(), dr.VolumeSetter(), dr.SetThenGetVolume(), dr.FromVolume(), dr.SetState())]
LEMMAS = ["V_d-and-S_d-injective-on-nonnegative-radii", "conversion-round-trips", "surface-is-derivative-of-volume"]
BOUNDED = [ContractSampling("conversions-sampled", CONTRACTS,
                            "each variant on 18 (quick) / 206 (thorough) radii/volumes spanning 1e-15..1e15, scalar and (2,3)-array, droplet accessors on 6/80 droplets per class and dimension, "
                            "native floats and jitted code, relative tolerance 1e-9")]
