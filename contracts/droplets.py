"""Contracts for droplets/droplets.py: droplet accessors (C12) and merging (C11)."""
from __future__ import annotations

import math

import z3

from pyvc import models, source, spec as S
from pyvc.contract import Contract, register
from pyvc.engine import SymRaise, _MISSING
from pyvc.values import (SArr, SCell, SClassRef, SExc, SFunc, SMaybeNaN, SNative, SObj, SOpaque, SRec, Undecided,
                         const_of, to_real, to_z3)

from .common import fnum, make_droplet, sym_droplet, sym_record, valid_droplet

MOD = "droplets.droplets"
SIMPLE_CLASSES = ("SphericalDroplet", "DiffuseDroplet")


# --- models of dependency calls used by these functions (trusted, listed in the evidence) -----
@models.external("pde.tools.cuboid.Cuboid.from_points")
def cuboid_from_points(engine, run, a, k):
    """Assumed: Cuboid.from_points(p1, p2) is the axis-aligned box with these corners."""
    return SOpaque("Cuboid", attrs={"p1": a[0], "p2": a[1]})


def _merge_data_attr(engine, run, obj, attr):
    """`cls._merge_data` is bound at class creation by DropletBase.__init_subclass__:
    cls._merge_data = staticmethod(cls._make_merge_data()).  The binding statement is checked
    structurally in the current source, then the factory is executed."""
    if attr != "_merge_data":
        return _MISSING
    cls = obj.cls if isinstance(obj, (SObj, SClassRef)) else None
    if cls is None or not cls.is_subclass_of("DropletBase"):
        return _MISSING
    base = source.get_class(MOD, "DropletBase")
    hook = base.methods.get("__init_subclass__")
    import ast
    ok = False
    if hook is not None:
        for n in ast.walk(hook.node):
            if isinstance(n, ast.Assign) and ast.unparse(n).replace(" ", "") == \
                    "cls._merge_data=staticmethod(cls._make_merge_data())":
                ok = True
    if not ok:
        raise Undecided("DropletBase.__init_subclass__ no longer binds _merge_data from _make_merge_data()")
    fac = cls.lookup("_make_merge_data")
    run.trust("class-creation hook: cls._merge_data = staticmethod(cls._make_merge_data()) (statement checked in source)")
    return engine.call_function(run, fac, [SClassRef(cls)], {}, self_cls=fac.cls)


models.NATIVE_ATTRS.append(_merge_data_attr)


class DropletMethod(Contract):
    """Contract on a method/property of the simple droplet classes."""
    classes = SIMPLE_CLASSES
    dims = (1, 2, 3)
    modular = False

    def cases(self):
        return [dict(cls=c, dim=d) for c in self.classes for d in self.dims]

    def setup(self, run, case):
        d = sym_droplet(run, "self", case["dim"], case["cls"])
        self.old = d.fields["data"].copy()
        for f in valid_droplet(d.fields["data"]):
            run.assume(f)
        return dict(self=d)

    def call(self, engine, run, fi, a, case):
        if fi.kind in ("getter",):
            return engine.call_function(run, fi, [a["self"]], {})
        return super().call(engine, run, fi, a, case)

    # concrete
    def mk(self, case, inputs):
        d = case["dim"]
        pos = [fnum(inputs.get(f"self_pos{j}", 0.0)) for j in range(d)]
        r = fnum(inputs.get("self_radius", 1.0))
        if case["cls"] == "DiffuseDroplet":
            w = None if inputs.get("self_width_unset") else fnum(inputs.get("self_width", 1.0))
            out = make_droplet("DiffuseDroplet", pos, r, w)
        else:
            out = make_droplet("SphericalDroplet", pos, r)
        if inputs.get("pickled"):       # a droplet that went through pickle (worker processes) / deepcopy
            import copy
            import pickle
            out = pickle.loads(pickle.dumps(out)) if inputs["pickled"] == 1 else copy.deepcopy(out)
        return out

    def bounded_inputs(self, case, tier, seed):
        import random
        rng = random.Random(seed + 17)
        n = 6 if tier == "quick" else 80
        for k in range(n):
            out = {f"self_pos{j}": rng.uniform(-5, 5) for j in range(case["dim"])}
            out["self_radius"] = [1.0, 1e-7, 3.5, 0.25][k % 4] * 10 ** rng.uniform(-1, 1)
            out["self_width"] = rng.uniform(0, 2)
            out["self_width_unset"] = (k % 3 == 0)
            out["volume"] = 10 ** rng.uniform(-14, 6)
            out["pickled"] = [0, 0, 1, 0, 2][k % 5]
            yield out

    def check_concrete(self, case, inputs, fn, clauses):
        try:
            obs = fn()
        except Exception as e:   # noqa: BLE001
            return dict(violated=[f"unexpected exception {type(e).__name__}: {e}"], observed=None, inputs=inputs)
        bad = [nm for nm, ok in clauses(obs) if not ok]
        return dict(violated=bad, observed=repr(obs), inputs=inputs)


@register
class Volume(DropletMethod):
    key = f"{MOD}:SphericalDroplet.volume"

    def post(self, a, ret, case):
        return [("volume == V_d(radius)", S.eq(S.R(ret), S.V(case["dim"], self.old.get("radius"))))]

    def concrete_run(self, case, inputs):
        d = self.mk(case, inputs)
        return self.check_concrete(case, inputs, lambda: d.volume,
                                   lambda v: [("volume == V_d(radius)", S.eq(float(v), S.V(case["dim"], d.radius)))])


@register
class SurfaceArea(DropletMethod):
    key = f"{MOD}:SphericalDroplet.surface_area"

    def post(self, a, ret, case):
        return [("surface_area == S_d(radius)", S.eq(S.R(ret), S.S(case["dim"], self.old.get("radius"))))]

    def concrete_run(self, case, inputs):
        d = self.mk(case, inputs)
        return self.check_concrete(case, inputs, lambda: d.surface_area,
                                   lambda v: [("surface_area == S_d(radius)", S.eq(float(v), S.S(case["dim"], d.radius)))])


@register
class Curvature(DropletMethod):
    key = f"{MOD}:SphericalDroplet.interface_curvature"

    def pre(self, a, case):
        return [("radius > 0", self.old.get("radius") > 0)]

    def post(self, a, ret, case):
        return [("curvature * radius == 1", S.eq(S.R(ret) * self.old.get("radius"), 1))]

    def concrete_run(self, case, inputs):
        d = self.mk(case, inputs)
        return self.check_concrete(case, inputs, lambda: d.interface_curvature,
                                   lambda v: [("curvature * radius == 1", S.eq(float(v) * d.radius, 1.0))])


@register
class BBox(DropletMethod):
    key = f"{MOD}:SphericalDroplet.bbox"

    def post(self, a, ret, case):
        if not (isinstance(ret, SOpaque) and ret.tag == "Cuboid"):
            return [("bbox is Cuboid.from_points(...)", False)]
        p1, p2 = ret.attrs["p1"], ret.attrs["p2"]
        out = [("corner arrays have one entry per dimension",
                isinstance(p1, SArr) and isinstance(p2, SArr) and len(p1) == case["dim"] == len(p2))]
        if out[0][1]:
            r = self.old.get("radius")
            for j in range(case["dim"]):
                pj = self.old.get("position").elems[j]
                out.append((f"lower corner[{j}] == position - radius", S.eq(S.R(p1.elems[j]), pj - r)))
                out.append((f"upper corner[{j}] == position + radius", S.eq(S.R(p2.elems[j]), pj + r)))
        return out

    def concrete_run(self, case, inputs):
        import numpy as np
        d = self.mk(case, inputs)

        def clauses(b):
            lo = np.asarray(b.pos)
            hi = lo + np.asarray(b.size)
            return [("lower corner == position - radius", bool(np.allclose(lo, d.position - d.radius, rtol=1e-9, atol=1e-12))),
                    ("upper corner == position + radius", bool(np.allclose(hi, d.position + d.radius, rtol=1e-9, atol=1e-12)))]
        return self.check_concrete(case, inputs, lambda: d.bbox, clauses)


@register
class VolumeSetter(DropletMethod):
    key = f"{MOD}:SphericalDroplet.volume@setter"

    def setup(self, run, case):
        a = super().setup(run, case)
        v = run.input_real("volume")
        run.assume(v >= 0)
        a["volume"] = v
        return a

    def post(self, a, ret, case):
        rec = a["self"].fields["data"]
        r = S.R(rec.get("radius"))
        out = [("V_d(radius') == volume", S.eq(S.V(case["dim"], r), a["volume"])), ("radius' >= 0", r >= 0)]
        for j in range(case["dim"]):
            out.append((f"position[{j}] unchanged", S.eq(S.R(rec.get("position").elems[j]), self.old.get("position").elems[j])))
        return out

    def concrete_run(self, case, inputs):
        d = self.mk(case, inputs)
        p0 = d.position.copy()
        v = fnum(inputs.get("volume", 1.0))

        def fn():
            d.volume = v
            return d.radius

        def clauses(r):
            import numpy as np
            return [("V_d(radius') == volume", S.eq(S.V(case["dim"], r), v)), ("radius' >= 0", r >= 0),
                    ("position unchanged", bool(np.array_equal(p0, d.position)))]
        return self.check_concrete(case, inputs, fn, clauses)


@register
class SetThenGetVolume(VolumeSetter):
    """scenario: d.volume = v; d.volume == v"""
    variant = "set-then-get"

    def call(self, engine, run, fi, a, case):
        engine.call_function(run, fi, [a["self"], a["volume"]], {})
        getter = source.get_function(f"{MOD}:SphericalDroplet.volume")
        return engine.call_function(run, getter, [a["self"]], {})

    def post(self, a, ret, case):
        return [("reading the volume back returns the value set", S.eq(S.R(ret), a["volume"]))]

    def concrete_run(self, case, inputs):
        d = self.mk(case, inputs)
        v = fnum(inputs.get("volume", 1.0))

        def fn():
            d.volume = v
            return d.volume
        return self.check_concrete(case, inputs, fn,
                                   lambda g: [("reading the volume back returns the value set", S.eq(float(g), v))])


@register
class FromVolume(DropletMethod):
    key = f"{MOD}:SphericalDroplet.from_volume"

    def setup(self, run, case):
        cls = source.get_class(MOD, case["cls"])
        pos = SArr([run.input_real(f"pos{j}") for j in range(case["dim"])])
        v = run.input_real("volume")
        run.assume(v >= 0)
        self.pos0 = list(pos.elems)
        return dict(cls=SClassRef(cls), position=pos, volume=v)

    def post(self, a, ret, case):
        if not (isinstance(ret, SObj) and ret.cls.name == case["cls"]):
            return [(f"returns an instance of {case['cls']}", False)]
        rec = ret.fields["data"]
        r = S.R(rec.get("radius"))
        out = [("V_d(radius) == volume", S.eq(S.V(case["dim"], r), a["volume"])), ("radius >= 0", r >= 0)]
        out.append(("position has the given dimension", len(rec.get("position")) == case["dim"]))
        for j in range(case["dim"]):
            out.append((f"position[{j}] is the given one", S.eq(S.R(rec.get("position").elems[j]), self.pos0[j])))
        return out

    def bounded_inputs(self, case, tier, seed):
        import random
        rng = random.Random(seed + 5)
        for k in range(6 if tier == "quick" else 60):
            out = {f"pos{j}": rng.uniform(-5, 5) for j in range(case["dim"])}
            out["volume"] = 10 ** rng.uniform(-12, 8)
            yield out

    def concrete_run(self, case, inputs):
        import numpy as np
        import droplets.droplets as dd
        cls = getattr(dd, case["cls"])
        pos = [fnum(inputs.get(f"pos{j}", 0.0)) for j in range(case["dim"])]
        v = fnum(inputs.get("volume", 1.0))
        return self.check_concrete(
            case, inputs, lambda: cls.from_volume(pos, v),
            lambda d: [("returns an instance of the class", type(d) is cls),
                       ("V_d(radius) == volume", S.eq(S.V(case["dim"], d.radius), v)), ("radius >= 0", d.radius >= 0),
                       ("position is the given one", bool(np.array_equal(d.position, np.asarray(pos))))])


# ---------------------------------------------------------------------------
# C11: merging

ALIASES = ("distinct", "out=drop1", "out=drop2", "drop1=drop2", "all-same")


def merge_spec(d, o1, o2, out, with_width):
    """Defining relation of the merged droplet (o1, o2: old operand records; out: result record)."""
    V1, V2 = S.V(d, o1["radius"]), S.V(d, o2["radius"])
    cl = [("merged volume is the sum of the volumes", S.eq(S.V(d, out["radius"]), V1 + V2)),
          ("merged radius is non-negative", S.ge(out["radius"], 0))]
    for j in range(d):
        cl.append((f"centre[{j}] is the volume-weighted mean",
                   S.eq(out["position"][j] * (V1 + V2), V1 * o1["position"][j] + V2 * o2["position"][j])))
    if with_width:
        n1, w1 = o1["interface_width"]
        n2, w2 = o2["interface_width"]
        no, wo = out["interface_width"]
        cl.append(("width is unset exactly when an operand width is unset", S.Iff(no, S.Or(n1, n2))))
        cl.append(("interface width is the mean of the two widths",
                   S.Implies(S.Not(S.Or(n1, n2)), S.eq(wo * 2, w1 + w2))))
    return cl


def rec_view(rec):
    """SRec -> plain dict of terms (snapshot)."""
    out = {"radius": S.R(rec.get("radius")), "position": [S.R(x) for x in rec.get("position").elems]}
    if "interface_width" in rec.fields:
        w = rec.get("interface_width")
        if isinstance(w, SMaybeNaN):
            out["interface_width"] = (to_z3(w.isnan), S.R(w.val))
        else:
            out["interface_width"] = (z3.BoolVal(False), S.R(w))
    return out


def np_view(data):
    out = {"radius": float(data["radius"]), "position": [float(x) for x in data["position"]]}
    if "interface_width" in data.dtype.names:
        w = float(data["interface_width"])
        out["interface_width"] = (math.isnan(w), 0.0 if math.isnan(w) else w)
    return out


class MergeData(Contract):
    cls_name = "SphericalDroplet"
    with_width = False

    def cases(self):
        return [dict(dim=d, alias=al) for d in (1, 2, 3) for al in ALIASES]

    def setup(self, run, case):
        d = case["dim"]
        al = case["alias"]
        drop1 = sym_record(run, "drop1", d, self.cls_name)
        drop2 = drop1 if al in ("drop1=drop2", "all-same") else sym_record(run, "drop2", d, self.cls_name)
        if al == "out=drop1" or al == "all-same":
            out = drop1
        elif al == "out=drop2":
            out = drop2
        else:
            out = sym_record(run, "out", d, self.cls_name)
        self.old = dict(drop1=rec_view(drop1), drop2=rec_view(drop2), out=rec_view(out))
        return dict(drop1=drop1, drop2=drop2, out=out)

    def pre(self, a, case):
        o = self.old
        d = case["dim"]
        return [("radii are non-negative", z3.And(o["drop1"]["radius"] >= 0, o["drop2"]["radius"] >= 0)),
                ("total volume is positive", S.V(d, o["drop1"]["radius"]) + S.V(d, o["drop2"]["radius"]) > 0)]

    def call(self, engine, run, fi, a, case):
        fac = source.get_function(f"{MOD}:{self.cls_name}._make_merge_data")
        cls = source.get_class(MOD, self.cls_name)
        f = engine.call_function(run, fac, [SClassRef(cls)], {}, self_cls=fac.cls)
        if not (isinstance(f, SFunc) and f.info.key == self.key):
            raise Undecided(f"{self.cls_name}._make_merge_data no longer returns the function under contract")
        return engine.invoke(run, f, [a["drop1"], a["drop2"], a["out"]], {})

    def post(self, a, ret, case):
        d = case["dim"]
        cl = merge_spec(d, self.old["drop1"], self.old["drop2"], rec_view(a["out"]), self.with_width)
        # frame: operands that are not the output are unchanged
        for nm in ("drop1", "drop2"):
            if a[nm] is not a["out"]:
                now, old = rec_view(a[nm]), self.old[nm]
                same = [now["radius"] == old["radius"]] + [x == y for x, y in zip(now["position"], old["position"])]
                if self.with_width:
                    same += [now["interface_width"][0] == old["interface_width"][0],
                             now["interface_width"][1] == old["interface_width"][1]]
                cl.append((f"{nm} is not modified", z3.And(*same)))
        cl.append(("returns None", ret is None))
        return cl

    # modular use (by DiffuseDroplet's merge_data and by DropletBase.merge)
    def apply(self, engine, run, fi, args, kwargs):
        b = dict(zip(["drop1", "drop2", "out"], args))
        b.update(kwargs)
        drop1, drop2, out = b["drop1"], b["drop2"], b["out"]
        if not all(isinstance(x, SRec) for x in (drop1, drop2, out)):
            raise Undecided("merge_data on non-record arguments")
        d = len(drop1.get("position"))
        o1, o2 = rec_view(drop1), rec_view(drop2)
        run.oblige("requires of merge_data: radii non-negative", z3.And(o1["radius"] >= 0, o2["radius"] >= 0), kind="requires")
        run.oblige("requires of merge_data: total volume positive", S.V(d, o1["radius"]) + S.V(d, o2["radius"]) > 0,
                   kind="requires")
        run.oblige("requires of merge_data: operands and output have the same dimension",
                   len(drop2.get("position")) == d and len(out.get("position")) == d, kind="requires")
        out.set("radius", run.fresh_real("merged_radius"))
        out.get("position").elems[:] = [run.fresh_real(f"merged_pos{j}") for j in range(d)]
        ow = dict(radius=S.R(out.get("radius")), position=[S.R(x) for x in out.get("position").elems])
        for nm, f in merge_spec(d, o1, o2, ow, False):
            run.assume(f)
        run.trust(f"contract:{self.key} (verified separately)")
        return None

    # concrete
    def realise(self, case, model):
        return {k: v for k, v in (model or {}).items()}

    def bounded_inputs(self, case, tier, seed):
        import random
        rng = random.Random(seed + 31 + case["dim"])
        for k in range(8 if tier == "quick" else 120):
            out = {}
            for nm in ("drop1", "drop2", "out"):
                for j in range(case["dim"]):
                    out[f"{nm}_pos{j}"] = rng.uniform(-4, 4)
                out[f"{nm}_radius"] = [0.0, 1.0, 0.3, 2.5][(k + len(nm)) % 4] * (1 + rng.random())
                out[f"{nm}_width"] = [0.0, 1.0, 2.0, 0.5][(k // 2 + len(nm)) % 4]
                out[f"{nm}_width_unset"] = (k % 5 == 4 and nm != "out")
            if out["drop1_radius"] == 0 and out["drop2_radius"] == 0:
                out["drop2_radius"] = 1.0
            yield out

    def concrete_run(self, case, inputs):
        import numpy as np
        import droplets.droplets as dd
        cls = getattr(dd, self.cls_name)
        d = case["dim"]
        al = case["alias"]

        def mk(nm):
            pos = [fnum(inputs.get(f"{nm}_pos{j}", 0.0)) for j in range(d)]
            r = abs(fnum(inputs.get(f"{nm}_radius", 1.0)))
            if self.with_width:
                w = None if inputs.get(f"{nm}_width_unset") else abs(fnum(inputs.get(f"{nm}_width", 1.0)))
                return cls(pos, r, w)
            return cls(pos, r)
        d1 = mk("drop1")
        d2 = d1 if al in ("drop1=drop2", "all-same") else mk("drop2")
        out = d1 if al in ("out=drop1", "all-same") else (d2 if al == "out=drop2" else mk("out"))
        if d1.volume + d2.volume <= 0:
            return dict(violated=[], observed="precondition (positive total volume) not met", inputs=inputs)
        o1, o2 = np_view(d1.data), np_view(d2.data)
        b1, b2 = d1.data.copy(), d2.data.copy()
        viol = []
        results = {}
        # python path and compiled path (A-NB is *checked* here, boundedly)
        try:
            cls._merge_data(d1.data, d2.data, out=out.data)
            results["python"] = np_view(out.data)
        except Exception as e:   # noqa: BLE001
            return dict(violated=[f"unexpected exception {type(e).__name__}: {e}"], observed=None, inputs=inputs)
        for nm, ok in merge_spec(d, o1, o2, results["python"], self.with_width):
            if not ok:
                viol.append(nm)
        if out is not d1 and not _same(d1.data, b1):
            viol.append("drop1 is not modified")
        if out is not d2 and not _same(d2.data, b2):
            viol.append("drop2 is not modified")
        return dict(violated=viol, observed=repr(results), inputs=inputs)


def _same(a, b):
    import numpy as np
    from numpy.lib.recfunctions import structured_to_unstructured as s2u
    return bool(np.array_equal(s2u(a), s2u(b), equal_nan=True))


@register
class MergeSpherical(MergeData):
    key = f"{MOD}:SphericalDroplet._make_merge_data.<merge_data>"


@register
class MergeDiffuse(MergeData):
    key = f"{MOD}:DiffuseDroplet._make_merge_data.<merge_data>"
    cls_name = "DiffuseDroplet"
    with_width = True
    modular = True

    def apply(self, engine, run, fi, args, kwargs):
        b = dict(zip(["drop1", "drop2", "out"], args))
        b.update(kwargs)
        drop1, drop2, out = b["drop1"], b["drop2"], b["out"]
        d = len(drop1.get("position"))
        o1, o2 = rec_view(drop1), rec_view(drop2)
        MergeSpherical.apply(self, engine, run, fi, args, kwargs)
        nb, wv = run.fresh_bool("merged_width_unset"), run.fresh_real("merged_width")
        out.set("interface_width", SMaybeNaN(nb, wv))
        for nm, f in merge_spec(d, o1, o2, rec_view(out), True)[-2:]:
            run.assume(f)
        return None


@register
class Merge(Contract):
    """DropletBase.merge(self, other, inplace)"""
    key = f"{MOD}:DropletBase.merge"
    modular = False

    def cases(self):
        return [dict(cls=c, dim=d, inplace=ip, alias=al) for c in SIMPLE_CLASSES for d in (1, 2, 3)
                for ip in (False, True) for al in ("distinct", "other=self")]

    def setup(self, run, case):
        me = sym_droplet(run, "self", case["dim"], case["cls"])
        other = me if case["alias"] == "other=self" else sym_droplet(run, "other", case["dim"], case["cls"])
        self.old = dict(self=rec_view(me.fields["data"]), other=rec_view(other.fields["data"]))
        self.objs = (me, other, me.fields["data"], other.fields["data"])
        return dict(self=me, other=other, inplace=case["inplace"])

    def pre(self, a, case):
        o = self.old
        d = case["dim"]
        return [("radii are non-negative", z3.And(o["self"]["radius"] >= 0, o["other"]["radius"] >= 0)),
                ("total volume is positive", S.V(d, o["self"]["radius"]) + S.V(d, o["other"]["radius"]) > 0)]

    def post(self, a, ret, case):
        me, other, mrec, orec = self.objs
        d = case["dim"]
        ww = case["cls"] == "DiffuseDroplet"
        cl = []
        if not isinstance(ret, SObj):
            return [("returns a droplet", False)]
        cl.append(("result has the class of self", ret.cls.name == case["cls"]))
        if case["inplace"]:
            cl.append(("in-place merge returns self", ret is me))
            cl.append(("self keeps its data record (merged in place)", me.fields.get("data") is mrec))
        else:
            cl.append(("out-of-place merge returns a new object", ret is not me and ret is not other))
            cl.append(("result does not share its data record with an operand",
                       ret.fields.get("data") is not mrec and ret.fields.get("data") is not orec))
            cl.append(("self still refers to its own data record", me.fields.get("data") is mrec))
            now = rec_view(mrec)
            cl.append(("self is not modified", _unchanged(now, self.old["self"], ww)))
        if other is not me:
            cl.append(("other still refers to its own data record", other.fields.get("data") is orec))
            cl.append(("other is not modified", _unchanged(rec_view(orec), self.old["other"], ww)))
        rd = ret.fields.get("data")
        if not isinstance(rd, SRec):
            return cl + [("result carries a data record", False)]
        cl += merge_spec(d, self.old["self"], self.old["other"], rec_view(rd), ww)
        return cl

    def bounded_inputs(self, case, tier, seed):
        import random
        rng = random.Random(seed + 77)
        for k in range(6 if tier == "quick" else 80):
            out = {}
            for nm in ("self", "other"):
                for j in range(case["dim"]):
                    out[f"{nm}_pos{j}"] = rng.uniform(-4, 4)
                out[f"{nm}_radius"] = [1.0, 0.2, 3.0, 1.0][(k + len(nm)) % 4] * (1 + rng.random())
                out[f"{nm}_width"] = [0.0, 1.0, 2.0][(k + len(nm)) % 3]
                out[f"{nm}_width_unset"] = (k % 7 == 6)
            out["pickled"] = (k % 3 == 2)       # operands that went through pickle (worker processes, deepcopy)
            yield out

    def concrete_run(self, case, inputs):
        import droplets.droplets as dd
        cls = getattr(dd, case["cls"])
        d = case["dim"]
        ww = case["cls"] == "DiffuseDroplet"

        def mk(nm):
            pos = [fnum(inputs.get(f"{nm}_pos{j}", 0.0)) for j in range(d)]
            r = abs(fnum(inputs.get(f"{nm}_radius", 1.0)))
            if ww:
                w = None if inputs.get(f"{nm}_width_unset") else abs(fnum(inputs.get(f"{nm}_width", 1.0)))
                return cls(pos, r, w)
            return cls(pos, r)
        me = mk("self")
        if inputs.get("pickled"):
            import pickle
            me = pickle.loads(pickle.dumps(me))
        other = me if case["alias"] == "other=self" else mk("other")
        if me.volume + other.volume <= 0:
            return dict(violated=[], observed="precondition not met", inputs=inputs)
        o1, o2 = np_view(me.data), np_view(other.data)
        b1, b2 = me.data.copy(), other.data.copy()
        try:
            ret = me.merge(other, inplace=case["inplace"])
        except Exception as e:   # noqa: BLE001
            return dict(violated=[f"unexpected exception {type(e).__name__}: {e}"], observed=None, inputs=inputs)
        viol = []
        if type(ret) is not cls:
            viol.append("result has the class of self")
        if case["inplace"]:
            if ret is not me:
                viol.append("in-place merge returns self")
        else:
            if ret is me or ret is other:
                viol.append("out-of-place merge returns a new object")
            if not _same(me.data, b1):
                viol.append("self is not modified")
        if other is not me and not _same(other.data, b2):
            viol.append("other is not modified")
        for nm, ok in merge_spec(d, o1, o2, np_view(ret.data), ww):
            if not ok:
                viol.append(nm)
        return dict(violated=viol, observed=repr(ret), inputs=inputs)


def _unchanged(now, old, ww):
    same = [now["radius"] == old["radius"]] + [x == y for x, y in zip(now["position"], old["position"])]
    if ww:
        same += [now["interface_width"][0] == old["interface_width"][0],
                 now["interface_width"][1] == old["interface_width"][1]]
    return z3.And(*same)


# =====================================================================================================================
@register
class SetState(Contract):
    """DropletBase.__setstate__(state): how a droplet comes out of pickle / a worker process.

    ASSUMED numpy fact (validated by the bounded tier: pickle round trip followed by an in-place merge / a volume assignment): item assignment
    to a structured record that was unpickled is silently discarded; `.copy()` of it is an ordinary writable record.  So every in-place
    operation of C11 / C12 / C15 (merge in place, volume setter, refinement in worker processes) relies on the droplet owning a COPY."""
    key = f"{MOD}:DropletBase.__setstate__"
    modular = False

    def cases(self):
        return [dict(cls=c, dim=2) for c in SIMPLE_CLASSES]

    def setup(self, run, case):
        from pyvc import source
        rec = sym_droplet(run, "pickled", case["dim"], case["cls"]).fields["data"]
        me = SObj(source.get_class(MOD, case["cls"]), {}, tag="unpickled droplet")
        self.ctx = (me, rec, rec_view(rec))
        return dict(self=me, state={"data": rec})

    def post(self, a, ret, case):
        me, rec, old = self.ctx
        ww = case["cls"] == "DiffuseDroplet"
        got = me.fields.get("data")
        if not isinstance(got, SRec):
            return [("the unpickled droplet carries a data record", False)]
        return [("the unpickled droplet owns a fresh, writable copy of the record (numpy silently discards item assignments to unpickled records)",
                 got is not rec),
                ("the copy holds the pickled values", _unchanged(rec_view(got), old, ww)),
                ("the pickled record itself is not modified", _unchanged(rec_view(rec), old, ww))]

    def bounded_inputs(self, case, tier, seed):
        for k in range(3 if tier == "quick" else 20):
            yield dict(seed=seed * 31 + k)

    def concrete_run(self, case, inputs):
        import copy
        import pickle
        import random
        import droplets.droplets as dd
        rng = random.Random(inputs.get("seed", 0))
        cls = getattr(dd, case["cls"])
        args = [[rng.uniform(-2, 2) for _ in range(case["dim"])], rng.uniform(0.5, 2)] + ([rng.uniform(0, 1)] if case["cls"] == "DiffuseDroplet" else [])
        bad = []
        for how in ("pickle", "deepcopy"):
            d = cls(*args)
            e = pickle.loads(pickle.dumps(d)) if how == "pickle" else copy.deepcopy(d)
            if e != d:
                bad.append("the copy holds the pickled values")
            e.radius = 7.25
            e.position = e.position + 1.0
            if float(e.radius) != 7.25 or any(float(x) != float(y) + 1.0 for x, y in zip(e.position, d.position)):
                bad.append("the unpickled droplet owns a fresh, writable copy of the record (numpy silently discards item assignments to unpickled records)")
            if float(d.radius) == 7.25:
                bad.append("the pickled record itself is not modified")
        return dict(violated=sorted(set(bad)), observed=how, inputs=inputs)


# ---------------------------------------------------------------------------------------------------
@register
class WidthSetter(DropletMethod):
    """DiffuseDroplet.interface_width = value: None marks the width as unset; any value >= 0 - a width of exactly 0 (sharp interface) included - is
    stored as given; a negative value raises ValueError; nothing else changes"""
    key = f"{MOD}:DiffuseDroplet.interface_width@setter"
    classes = ("DiffuseDroplet",)
    dims = (2,)

    def cases(self):
        return [dict(cls="DiffuseDroplet", dim=2, value=v) for v in ("none", "nonnegative", "negative")]

    def setup(self, run, case):
        a = super().setup(run, case)
        if case["value"] == "none":
            a["value"] = None
        else:
            v = run.input_real("value")
            run.assume(v >= 0 if case["value"] == "nonnegative" else v < 0)
            a["value"] = v
        return a

    def post(self, a, ret, case):
        if case["value"] == "negative":
            return [("a negative width is rejected (ValueError)", False)]
        rec = a["self"].fields["data"]
        w = rec.get("interface_width")
        out = []
        if case["value"] == "none":
            out.append(("None marks the width as unset", to_z3(w.isnan) if hasattr(w, "isnan") else False))
        else:
            out.append(("a width >= 0 is stored as given - also a width of exactly 0 (it is not confused with `unset`)",
                        z3.And(z3.Not(to_z3(w.isnan)), S.R(w.val) == a["value"]) if hasattr(w, "isnan") else S.R(w) == a["value"]))
        out.append(("radius unchanged", S.eq(S.R(rec.get("radius")), self.old.get("radius"))))
        for j in range(case["dim"]):
            out.append((f"position[{j}] unchanged", S.eq(S.R(rec.get("position").elems[j]), self.old.get("position").elems[j])))
        return out

    def raises(self, a, exc, case):
        if case["value"] == "negative":
            return [("a negative width is rejected with ValueError", exc.cls_name == "ValueError")]
        return [(f"setting a valid width raises nothing (raised {exc.cls_name})", False)]

    def bounded_inputs(self, case, tier, seed):
        for k, out in enumerate(super().bounded_inputs(case, tier, seed)):
            out["value"] = [0.0, 0.7, 1e-300, 3.0][k % 4]
            yield out

    def concrete_run(self, case, inputs):
        import math
        d = self.mk(case, inputs)
        p0, r0 = d.position.copy(), d.radius
        val = None if case["value"] == "none" else (fnum(inputs.get("value", 0.0)) if case["value"] == "nonnegative" else -1.0 - abs(fnum(inputs.get("value", 0.0))))
        try:
            d.interface_width = val
        except ValueError:
            return dict(violated=[] if case["value"] == "negative" else ["setting a valid width raises nothing (raised ValueError)"], inputs=inputs)
        except Exception as e:   # noqa: BLE001
            return dict(violated=[f"unexpected exception {type(e).__name__}"], inputs=inputs)
        if case["value"] == "negative":
            return dict(violated=["a negative width is rejected (ValueError)"], inputs=inputs)
        import numpy as np
        raw = float(d.data["interface_width"])
        bad = []
        if val is None and not (math.isnan(raw) and d.interface_width is None):
            bad.append("None marks the width as unset")
        if val is not None and not (raw == val and d.interface_width == val):
            bad.append("a width >= 0 is stored as given - also a width of exactly 0 (it is not confused with `unset`)")
        if not (np.array_equal(p0, d.position) and d.radius == r0):
            bad.append("radius / position unchanged")
        return dict(violated=bad, observed=raw, inputs=inputs)


@register
class WidthGetter(DropletMethod):
    """DiffuseDroplet.interface_width: None exactly when the width is unset, else the stored value (0 included)"""
    key = f"{MOD}:DiffuseDroplet.interface_width"
    classes = ("DiffuseDroplet",)
    dims = (2,)

    def post(self, a, ret, case):
        w = self.old.get("interface_width")
        if ret is None:
            return [("None is returned only for an unset width", to_z3(w.isnan))]
        return [("a set width is returned as stored (0 included)", z3.And(z3.Not(to_z3(w.isnan)), S.R(ret) == S.R(w.val)))]
