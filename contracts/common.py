"""Builders shared by the contracts: symbolic droplets / records and their concrete twins."""
from __future__ import annotations

import math
from fractions import Fraction

import z3

from pyvc import source, spec as S
from pyvc.values import SArr, SCell, SMaybeNaN, SObj, SRec, SSeq

DROPLET_MODULE = "droplets.droplets"

CLASS_FIELDS = {
    "SphericalDroplet": ("position", "radius"),
    "DiffuseDroplet": ("position", "radius", "interface_width"),
    "PerturbedDroplet2D": ("position", "radius", "interface_width", "amplitudes"),
    "PerturbedDroplet3D": ("position", "radius", "interface_width", "amplitudes"),
    "PerturbedDroplet3DAxisSym": ("position", "radius", "interface_width", "amplitudes"),
}


def sym_record(run, name, dim, cls_name="SphericalDroplet", width_may_be_nan=True, modes=None, on_axis=False):
    """Symbolic droplet data record `name` with `dim` position components (python int)."""
    fields = {}
    pos = [run.input_real(f"{name}_pos{j}") for j in range(dim)]
    if on_axis:
        pos[0] = Fraction(0)
        pos[1] = Fraction(0)
    fields["position"] = SArr(pos)
    fields["radius"] = run.input_real(f"{name}_radius")
    fnames = CLASS_FIELDS[cls_name]
    if "interface_width" in fnames:
        w = run.input_real(f"{name}_width")
        if width_may_be_nan:
            fields["interface_width"] = SMaybeNaN(run.input_bool(f"{name}_width_unset"), w)
        else:
            fields["interface_width"] = w
    if "amplitudes" in fnames:
        if isinstance(modes, int):
            fields["amplitudes"] = SArr([run.input_real(f"{name}_amp{k}") for k in range(modes)])
        else:
            L = run.input_int(f"{name}_modes")
            run.assume(L >= 0)
            f = z3.Function(f"{name}_amp", z3.IntSort(), z3.RealSort())
            fields["amplitudes"] = SSeq(L, lambda i, f=f: f(i if isinstance(i, z3.ExprRef) else z3.IntVal(i)),
                                        f"{name}.amplitudes", kind="array")
    return SRec(fields, name)


def sym_droplet(run, name, dim, cls_name="SphericalDroplet", **kw):
    cls = source.get_class(DROPLET_MODULE, cls_name)
    rec = sym_record(run, name, dim, cls_name, **kw)
    return SObj(cls, {"data": rec}, tag=name)


def valid_droplet(rec, nonneg_radius=True):
    """Type invariant of droplet data: radius >= 0, width >= 0 when set."""
    out = []
    if nonneg_radius:
        out.append(rec.get("radius") >= 0)
    if "interface_width" in rec.fields:
        w = rec.get("interface_width")
        if isinstance(w, SMaybeNaN):
            out.append(z3.Or(w.isnan, w.val >= 0))
        else:
            out.append(w >= 0)
    return out


# --- concrete twins -----------------------------------------------------------
def make_droplet(cls_name, position, radius, interface_width=None, amplitudes=None):
    import droplets.droplets as dd
    cls = getattr(dd, cls_name)
    if cls_name == "SphericalDroplet":
        return cls(position, radius)
    if cls_name == "DiffuseDroplet":
        return cls(position, radius, interface_width)
    return cls(position, radius, interface_width, amplitudes)


def fnum(x):
    """model value -> float"""
    if isinstance(x, bool):
        return x
    if isinstance(x, (int, float)):
        return float(x)
    if isinstance(x, Fraction):
        return float(x)
    if isinstance(x, str):
        try:
            return float(Fraction(x))
        except Exception:
            return float(x.rstrip("?"))
    raise TypeError(x)
