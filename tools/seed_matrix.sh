#!/bin/bash
# seed_matrix.sh [-j N] [seed-id ...]: run each kept seeded change against the quick check of its property on a scratch copy of
# /repo (PYDROPLETS_SRC), in parallel; /repo itself is never touched.  Prints one line per seed; writes .scratch/seedmatrix/<id>.log
# Usage: tools/seed_matrix.sh            (all seeds whose property has a props/<pid>.py)
#        tools/seed_matrix.sh C06-1 C07-2
HERE="$(cd "$(dirname "$0")/.." && pwd)"
J=4
if [ "$1" = "-j" ]; then J="$2"; shift 2; fi
cd "$HERE" || exit 3
tools/ensure_env.sh >/dev/null 2>&1
mkdir -p .scratch/seedmatrix
IDS="$*"
[ -n "$IDS" ] || IDS="$(ls seeded)"
one() {
    ID="$1"; PID="${ID%%-*}"
    [ -f "$HERE/props/$PID.py" ] || { echo "$ID: no check for $PID"; return; }
    W="$(mktemp -d /var/tmp/seedmx.XXXXXX)"
    trap 'rm -rf "$W"' EXIT
    mkdir "$W/src"; cp -r /repo/droplets "$W/src/droplets"
    if ! ( cd "$W/src" && patch -p1 -s --no-backup-if-mismatch < "$HERE/seeded/$ID/patch.diff" ) >"$HERE/.scratch/seedmatrix/$ID.log" 2>&1; then
        echo "$ID: PATCH-DOES-NOT-APPLY"; rm -rf "$W"; return
    fi
    PYDROPLETS_SRC="$W/src" NUMBA_CACHE_DIR="$W/numba" VERIF_JOBS=6 ./check "$PID" --tier quick --no-evidence >>"$HERE/.scratch/seedmatrix/$ID.log" 2>&1
    RC=$?
    echo "$ID: exit=$RC violations=$(grep -c '^VIOLATION' "$HERE/.scratch/seedmatrix/$ID.log") $(grep -m1 '^  failed' "$HERE/.scratch/seedmatrix/$ID.log" | cut -c1-200)"
    rm -rf "$W"
}
export HERE
for ID in $IDS; do
    while [ "$(jobs -r | wc -l)" -ge "$J" ]; do sleep 1; done
    one "$ID" &
done
wait
