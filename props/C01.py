"""C01 -- locating a rendered emulsion returns each droplet once, with exact volume."""
from contracts import locmask as lm
LEVEL = "other"
LEVEL_TEXT = "interim: bounded stand-in only (exhaustive small images against a periodic flood-fill oracle / seeded render-locate configurations); the contracts on the locating functions are being added"
LEVEL_NOTE = "bounded only so far; nothing is proved for this property yet"
CONTRACTS = []
LEMMAS = []
BOUNDED = [lm.RenderLocate()]
