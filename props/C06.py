"""C06 -- tracking neither loses, duplicates nor alters droplets."""
from contracts import collections as co, tracks as tk
from pyvc.bounded import ContractSampling

LEVEL = "other"
LEVEL_TEXT = "Proved (heap contracts, any track length / any frame size): DropletTrack.append stores an independent, value-equal copy stamped with the given time (time 0 included) and leaves everything that existed untouched; DropletTrack(droplets=[d], times=[t]) starts a track the same way; the distance matrix of the 'distance' matcher is only built when both point sets are non-empty (scipy cdist precondition; this obligation found defect F5). The whole-algorithm clauses (partition, one droplet per frame per track, gap-free runs, input unmodified) are NOT proved: the matching loops are truncated and covered by an exhaustive small-scope oracle comparison - hence level 'other'."
LEVEL_NOTE = 'A-FP; heap model of lists/records; scipy cdist contract (non-empty inputs, entry = metric(XA[i], XB[j])); match_tracks is verified only up to its first loop (TRUNCATED entries in the evidence); the bounded oracle is an independent re-implementation of the partition/identity clauses'
CONTRACTS = [c.ident for c in (co.DropletCopy(), co.TrackAppend(), tk.TrackInit(), tk.MatchDistancePre())]
LEMMAS = []
BOUNDED = [tk.TrackingOracle(), ContractSampling("track-contracts-on-real-objects", CONTRACTS, "8/80 seeded tracks incl. time 0; frames [{d},{},{d}]")]
