"""Spec library with two interpretations (DESIGN 2.2).

The same contract text is evaluated on z3 terms (to build verification conditions) and on
Python / numpy numbers (to check the very same clause against the real function when a
counter-model is replayed or in the bounded tier).  Dispatch is on the type of the values.
"""
from __future__ import annotations

import math
from fractions import Fraction

import z3

from . import ops

RTOL = 1e-9
ATOL = 1e-12


def _sym(*xs):
    return any(isinstance(x, z3.ExprRef) for x in xs)


def _num(x):
    if isinstance(x, Fraction):
        return float(x)
    return x


def R(x):
    """number -> z3 real (symbolic mode) or float (concrete mode, when x is concrete)."""
    if isinstance(x, z3.ExprRef):
        return z3.ToReal(x) if z3.is_int(x) else x
    if isinstance(x, (int, Fraction)) and not isinstance(x, bool):
        return z3.RealVal(x)
    return x


def eq(a, b):
    if _sym(a, b):
        a, b = _promote(a, b)
        return a == b
    a, b = _num(a), _num(b)
    if isinstance(a, float) or isinstance(b, float):
        if math.isnan(a) or math.isnan(b):
            return math.isnan(a) and math.isnan(b)
        return math.isclose(a, b, rel_tol=RTOL, abs_tol=ATOL)
    return a == b


def _promote(a, b):
    def z(x):
        if isinstance(x, z3.ExprRef):
            return x
        if isinstance(x, bool):
            return z3.BoolVal(x)
        if isinstance(x, int):
            return z3.IntVal(x)
        if isinstance(x, Fraction):
            return z3.RealVal(x)
        if isinstance(x, float):
            return z3.RealVal(Fraction(repr(x)))
        raise TypeError(x)
    a, b = z(a), z(b)
    if z3.is_arith(a) and z3.is_arith(b) and a.sort() != b.sort():
        a = z3.ToReal(a) if z3.is_int(a) else a
        b = z3.ToReal(b) if z3.is_int(b) else b
    return a, b


def le(a, b, slack=True):
    if _sym(a, b):
        a, b = _promote(a, b)
        return a <= b
    a, b = _num(a), _num(b)
    return a <= b + (ATOL + RTOL * max(abs(a), abs(b)) if slack else 0)


def lt(a, b):
    if _sym(a, b):
        a, b = _promote(a, b)
        return a < b
    return _num(a) < _num(b)


def ge(a, b, slack=True):
    return le(b, a, slack)


def gt(a, b):
    return lt(b, a)


def And(*xs):
    xs = [x for x in xs]
    if _sym(*xs):
        return z3.And(*[x if isinstance(x, z3.ExprRef) else z3.BoolVal(bool(x)) for x in xs])
    return all(bool(x) for x in xs)


def Or(*xs):
    if _sym(*xs):
        return z3.Or(*[x if isinstance(x, z3.ExprRef) else z3.BoolVal(bool(x)) for x in xs])
    return any(bool(x) for x in xs)


def Not(x):
    if _sym(x):
        return z3.Not(x)
    return not bool(x)


def Implies(a, b):
    if _sym(a, b):
        return z3.Implies(a if isinstance(a, z3.ExprRef) else z3.BoolVal(bool(a)),
                          b if isinstance(b, z3.ExprRef) else z3.BoolVal(bool(b)))
    return (not bool(a)) or bool(b)


def Iff(a, b):
    if _sym(a, b):
        a2 = a if isinstance(a, z3.ExprRef) else z3.BoolVal(bool(a))
        b2 = b if isinstance(b, z3.ExprRef) else z3.BoolVal(bool(b))
        return a2 == b2
    return bool(a) == bool(b)


def If(c, a, b):
    if _sym(c, a, b):
        a, b = _promote(a, b)
        return z3.If(c if isinstance(c, z3.ExprRef) else z3.BoolVal(bool(c)), a, b)
    return a if c else b


def PI(like=None):
    if like is None or _sym(like):
        return ops.PI()
    return math.pi


class Pi:
    """`pi(x)` gives the constant in the interpretation of x."""

    def __call__(self, like):
        return PI(like)


pi = Pi()


# spec functions of the sphere --------------------------------------------
def V(d, r):
    """Volume of the d-ball of radius r (d a python int)."""
    if d == 1:
        return 2 * r
    if d == 2:
        return PI(r) * r * r
    if d == 3:
        return 4 * PI(r) * r * r * r / 3
    raise ValueError(d)


def S(d, r):
    """Surface of the d-ball."""
    if d == 1:
        return 2 if not _sym(r) else z3.RealVal(2)
    if d == 2:
        return 2 * PI(r) * r
    if d == 3:
        return 4 * PI(r) * r * r
    raise ValueError(d)


def tanh(x):
    if _sym(x):
        return ops.ufun("tanh_f")(x)
    return math.tanh(x)


def sin(x):
    if _sym(x):
        return ops.ufun("sin_f")(R(x))
    return math.sin(x)


def cos(x):
    if _sym(x):
        return ops.ufun("cos_f")(R(x))
    return math.cos(x)


def absv(x):
    if _sym(x):
        return z3.If(x >= 0, x, -x)
    return abs(x)
