"""C18 -- detection depends on the image only through the documented threshold."""
from contracts import locate as lc, collections as co, otsu
from pyvc.bounded import Bounded, ContractSampling

LEVEL = "proof"
LEVEL_TEXT = ("locate_droplets is verified (whole body, the conversion loop cut by an invariant) for every threshold rule: the ScalarField handed to "
              "locate_droplets_in_mask holds, cell by cell, `data > tau` (strict) with tau = the number / (min+max)/2 for 'extrema' and 'auto' / "
              "mean / threshold_otsu(data), on the field's grid; the result is a function of that mask only (candidates come from the mask, are "
              "converted one-to-one, filtered by Emulsion.remove_small before and after refinement). remove_small is verified as the "
              "order-preserving filter radius > minimal_radius (nothing above it is dropped, everything returned is above it). Affine "
              "covariance of the rules is a z3 lemma over this contract. Otsu's rule itself IS under contract (threshold_otsu, default and given number of bins): against assumed numpy contracts "
              "(histogram, cumsum = prefix sums, argmax) the returned value is the CENTRE of a bin idx that maximises, over the n-1 admissible splits, "
              "the array whose entry k is proved equal to W1(k) * W2(k+1) * (M1(k) - M2(k+1))**2 - the defining between-class variance with "
              "weights / means of the bins 0..k and k+1..n-1 (the four cumulative sums are identified by their summands; reversed prefix sum == "
              "suffix sum is a base/step lemma); precondition: non-constant data. The brute-force comparison stays as a bounded cross-check.")
LEVEL_NOTE = ("A-FP; assumed: locate_droplets_in_mask depends on the mask only (its analysis is C01/C02), refine_droplets returns one droplet "
              "per candidate, Emulsion(list) copies in order, numpy min/max/mean are covariant under positive affine maps, ScalarField wraps "
              "its data; numpy histogram / cumsum / argmax contracts; monotone prefix sums and equality of prefix sums with equal summands (inductive, trusted); threshold_otsu additionally cross-checked on 1000 arrays vs brute force (objective value compared, never the index)")
CONTRACTS = [c.ident for c in (lc.LocateDroplets(), co.RemoveSmall(), otsu.ThresholdOtsu())]
LEMMAS = ["threshold-rules-are-affine-covariant", "reversed-cumsum-of-reversed-is-the-suffix-sum"]


class OtsuAndAffine(Bounded):
    name = "otsu-vs-definition-and-affine-invariance"
    bound = ("threshold_otsu vs the brute-force between-class variance (objective value within 1e-9 relative, not the index) on 150 (quick) / "
             "1000 (thorough) bimodal / noisy / tiny (< 256 entries) / constant arrays and one array of 1100 x 1100 values with a single extreme value; end-to-end affine invariance of locate_droplets for "
             "all automatic rules and a mapped numeric threshold on 40/300 dyadic fields with maps x -> 2^k x + m (exact in floating point)")

    def run(self, tier, seed):
        import numpy as np
        import droplets
        import pde
        from contracts.locate import otsu_bruteforce_objective
        rng = np.random.default_rng(seed + 77)
        ev, viol, distinct = 0, {}, set()
        for t in range(150 if tier == "quick" else 1000):
            n = int(rng.choice([5, 17, 64, 200, 256, 1000, 4096]))
            kind = t % 4
            if t == 1:
                # one LARGE image (more than 2**20 values): a smooth bimodal field plus a single bright value at an odd position - the histogram is
                # that of ALL values (its range is set by the extreme ones)
                n = 1100 * 1100
                data = np.concatenate([rng.normal(0, 0.1, n // 2), rng.normal(1, 0.1, n - n // 2)])
                data[777777] = 9.0
            elif kind == 0:
                data = np.concatenate([rng.normal(0, 0.1, n // 2), rng.normal(1, 0.1, n - n // 2)])
            elif kind == 1:
                data = rng.random(n)
            elif kind == 2:
                data = np.where(rng.random(n) < 0.3, 1.0, 0.0) + 1e-3 * rng.random(n)
            else:
                data = np.round(rng.random(n) * 4) / 4
            ev += 1
            distinct.add(("otsu", t))
            got = droplets.image_analysis.threshold_otsu(data)
            centers, obj = otsu_bruteforce_objective(data)
            k = int(np.argmin(np.abs(centers - got)))
            ok = abs(centers[k] - got) <= 1e-12 * (1 + abs(got)) and k < len(obj) and np.isfinite(obj[k]) and obj[k] >= obj.max() * (1 - 1e-9)
            if not ok:
                viol.setdefault("otsu", dict(signature="otsu-not-a-maximiser", what="threshold_otsu does not return a bin centre maximising the "
                                             "between-class variance of the 256-bin histogram", inputs=dict(data=data.tolist()[:400], n=n),
                                             native=dict(got=float(got))))
        for t in range(40 if tier == "quick" else 300):
            dim = 1 + t % 2
            shape = [32] * dim
            grid = pde.UnitGrid(shape, periodic=bool(t % 3))
            base = np.round(rng.random(shape) * 64) / 64          # dyadic values
            sm = pde.ScalarField(grid, base).smooth(1.5).data
            base = np.round(sm * 256) / 256
            k, m = int(rng.integers(-3, 6)), float(rng.integers(-40, 40))
            if t % 5 == 4:
                k, m = -16, 1024.0        # low contrast on a large offset (still exact: 11 + 24 bits): the image is NOT uniform
            mapped = 2.0 ** k * base + m
            f0, f1 = pde.ScalarField(grid, base), pde.ScalarField(grid, mapped)
            for rule in ("extrema", "auto", "mean", "otsu", 0.4375):
                ev += 1
                distinct.add(("affine", t, str(rule)))
                r1 = rule if isinstance(rule, str) else 2.0 ** k * rule + m
                a = droplets.locate_droplets(f0, threshold=rule, minimal_radius=0.5)
                b = droplets.locate_droplets(f1, threshold=r1, minimal_radius=0.5)
                same = len(a) == len(b) and all(np.array_equal(x.position, y.position) and x.radius == y.radius for x, y in zip(a, b))
                if not same:
                    viol.setdefault(("affine", str(rule)), dict(signature=f"affine-invariance:{rule}",
                                                                what=f"a positive affine change of the intensities changes the droplets located with rule {rule}",
                                                                inputs=dict(k=k, m=m, dim=dim, seed=seed, t=t), native=dict(n0=len(a), n1=len(b))))
        return dict(evaluations=ev, distinct=len(distinct), violations=list(viol.values()))


BOUNDED = [ContractSampling("threshold-rules-on-real-fields", [lc.LocateDroplets().ident],
                            "every threshold rule on Cartesian (1-d, 2-d), spherical and cylindrical grids, 3/12 rendered fields each; the "
                            "result must equal locate_droplets_in_mask(data > tau) with tau computed independently"),
           OtsuAndAffine()]
