"""C12 -- sphere volume / surface / radius conversions are mutually consistent."""
from contracts import spherical as sp
from pyvc.bounded import ContractSampling

LEVEL = "proof"
CONTRACTS = [c.ident for c in (
    sp.RadiusFromVolume(), sp.SurfaceFromRadius(), sp.RadiusFromSurface(), sp.PdeVolumeFromRadius(),
    sp.RadiusFromVolumeNd(), sp.VolumeFromRadiusNd(), sp.MakeRadiusFromVolume(), sp.MakeVolumeFromRadius(),
    sp.MakeSurfaceFromRadius(), sp.NdFactoryRadius(), sp.NdFactoryVolume())]
LEMMAS = []
BOUNDED = [ContractSampling("conversions-sampled", CONTRACTS,
                            "each variant on 18 (quick) / 206 (thorough) radii/volumes spanning 1e-15..1e15, scalar and array, "
                            "native floats and jitted code, relative tolerance 1e-9")]
