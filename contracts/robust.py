"""C09: analysis never aborts on valid input and returns finite droplets - bounded stand-in (fuzz over the documented option space).

The deductive part of C09 is the union of the `raises` clauses and implicit obligations (divisor != 0, index in range, call arity, callee
preconditions such as scipy's cdist / least_squares requirements) of the contracts listed in props/C09.py."""
from __future__ import annotations

from pyvc.bounded import Bounded


def all_finite(d):
    import numpy as np
    for name in d.data.dtype.names:
        v = np.asarray(d.data[name], dtype=float)
        if name == "interface_width":
            if not np.all(np.isfinite(v) | np.isnan(v)):
                return False
        elif not np.all(np.isfinite(v)):
            return False
    return True


class AnalysisFuzz(Bounded):
    name = "analysis-never-aborts"
    bound = ("seeded fuzz over the documented request space: 10 grid kinds (Unit/Cartesian 1-3 d with mixed periodicity and anisotropic spacing, "
             "polar, spherical, cylindrical periodic / non-periodic, tiny shapes down to 1-2 cells) x 9 field kinds (uniform noise, normal noise, "
             "constant 0 / 1 / -3.5, binary, smoothed, rescaled by 1e-9 / 1e9 and shifted, rendered emulsions) x threshold (number, extrema, auto, "
             "mean, otsu) x minimal_radius (-inf, 0, value) x interface_width (None, 0, value) x modes 0-3 x refine (with fixed / automatic / fitted "
             "levels; every 10th refinement in two worker processes); 700 (quick) / 6000 (thorough) locate requests (refinement on every 6th); rendering of every droplet class on every "
             "compatible grid incl. centres on cell centres / faces and far outside; tracking of 60 / 500 random time courses (both methods, empty "
             "frames, periodic grids); documented invalid requests (modes in 1-d, dimension mismatch, non-field) must raise the documented error")

    def run(self, tier, seed):
        import warnings
        import numpy as np
        import pde
        import droplets
        from droplets import DropletTrackList, Emulsion, EmulsionTimeCourse, locate_droplets
        from droplets.droplets import DiffuseDroplet, PerturbedDroplet2D, PerturbedDroplet3D, PerturbedDroplet3DAxisSym, SphericalDroplet
        warnings.filterwarnings("ignore")
        rng = np.random.default_rng(seed + 9)
        ev, distinct, viol = 0, set(), {}

        def report(sig, what, inputs):
            viol.setdefault(sig, dict(signature=sig, what=what, inputs=inputs))

        def grids(t):
            k = t % 10
            if k == 0:
                return pde.UnitGrid([int(rng.integers(1, 40))], periodic=bool(t % 2))
            if k == 1:
                return pde.UnitGrid([int(rng.integers(1, 20)), int(rng.integers(1, 20))], periodic=[bool(t % 2), bool(t % 3 == 0)])
            if k == 2:
                return pde.CartesianGrid([(-1.5, 2.5), (0, 3), (10, 12)], [int(rng.integers(2, 9)) for _ in range(3)], periodic=[bool(t % 2), True, bool(t % 5 == 0)])
            if k == 3:
                return pde.CartesianGrid([(0.0, 1e-3)], [int(rng.integers(2, 30))], periodic=True)
            if k == 4:
                return pde.PolarSymGrid(float(rng.choice([1.0, 7.5])), int(rng.integers(1, 24)))
            if k == 5:
                return pde.SphericalSymGrid((0, float(rng.choice([2.0, 30.0]))), int(rng.integers(1, 24)))
            if k == 6:
                return pde.CylindricalSymGrid(float(rng.choice([2.0, 8.0])), (-3.0, 5.0), [int(rng.integers(1, 10)), int(rng.integers(2, 16))], periodic_z=False)
            if k == 7:
                return pde.CylindricalSymGrid(4.0, (0.0, 6.0), [int(rng.integers(2, 9)), int(rng.integers(2, 12))], periodic_z=True)
            if k == 8:
                return pde.CartesianGrid([(0, 100.0), (0, 1.0)], [int(rng.integers(2, 12)), int(rng.integers(2, 12))], periodic=[False, True])
            return pde.UnitGrid([int(rng.integers(3, 12))] * 2, periodic=True)

        def fields(grid, t):
            k = (t // 10) % 9
            shape = grid.shape
            if k == 0:
                data = rng.random(shape)
            elif k == 1:
                data = rng.standard_normal(shape)
            elif k == 2:
                data = np.full(shape, [0.0, 1.0, -3.5][t % 3])
            elif k == 3:
                data = (rng.random(shape) < rng.choice([0.1, 0.5, 0.9])).astype(float)
            elif k == 4:
                data = pde.ScalarField(grid, rng.random(shape)).smooth(1.0).data
            elif k == 5:
                data = [1e-9, 1e9, -1.0][t % 3] * rng.random(shape) + [0.0, 5.0, -2.0][(t // 3) % 3]
            elif k == 6:
                data = np.where(rng.random(shape) < 0.5, 0.4999999, 0.5000001)
            elif k == 7:
                data = np.ones(shape)
                data.flat[0] = 0.0
            else:
                try:
                    em = Emulsion.from_random(int(rng.integers(1, 4)), grid, droplet_class=DiffuseDroplet, radius=(0.5, 3.0), rng=rng)
                    for d in em:
                        d.interface_width = 0.8
                    data = em.get_phasefield(grid).data
                except Exception:   # noqa: BLE001  (from_random is not under test here)
                    data = rng.random(shape)
            return pde.ScalarField(grid, data)

        # ---- locating
        n_loc = 700 if tier == "quick" else 6000
        for t in range(n_loc):
            grid = grids(t)
            f = fields(grid, t)
            th = [0.5, "extrema", "auto", "mean", "otsu", float(rng.normal())][t % 6]
            mr = [-np.inf, 0.0, float(rng.random() * 2)][(t // 6) % 3]
            iw = [None, 0.0, 1.3][(t // 18) % 3]
            modes = [0, 0, 1, 2, 3][(t // 7) % 5]
            refine = (t % 6 == 5)
            kw = dict(threshold=th, minimal_radius=mr, interface_width=iw, modes=modes, refine=refine)
            if refine:
                kw["refine_args"] = [dict(), dict(vmin=None, vmax=None), dict(vmin=None, vmax=None, adjust_values=True), dict(tolerance=1e-2)][(t // 6) % 4]
                if t % 60 == 5:
                    kw["num_processes"] = 2       # refinement in worker processes is a documented option, too
            inputs = dict(t=t, seed=seed, grid=repr(grid), field_kind=(t // 10) % 9, options={k_: (v if not isinstance(v, float) or np.isfinite(v) else str(v)) for k_, v in kw.items()})
            ev += 1
            distinct.add(("locate", t, seed))
            invalid = modes > 0 and grid.dim == 1
            try:
                em = locate_droplets(f, **kw)
            except ValueError as e:
                if not invalid:
                    report(f"locate:raises:ValueError:{'refine' if refine else 'plain'}", f"locate_droplets raises ValueError on a valid request: {e}", inputs)
                continue
            except Exception as e:   # noqa: BLE001
                report(f"locate:raises:{type(e).__name__}:{'refine' if refine else 'plain'}",
                       f"locate_droplets raises {type(e).__name__} on a {'documented-invalid' if invalid else 'valid'} request: {e}", inputs)
                continue
            if invalid:
                report("locate:invalid-accepted", "perturbation modes on a one-dimensional grid must raise ValueError", inputs)
                continue
            for d in em:
                if not all_finite(d):
                    report(f"locate:non-finite:{'refine' if refine else 'plain'}", f"a located droplet has a non-finite parameter: {d}", inputs)
                    break
        # ---- rendering
        n_r = 150 if tier == "quick" else 1500
        for t in range(n_r):
            grid = grids(t)
            dim = grid.dim
            cc = np.asarray(grid.cell_coords).reshape(-1, grid.num_axes)
            pos_kind = t % 4
            if isinstance(grid, pde.CylindricalSymGrid):
                base = np.array([0.0, 0.0, float(cc[int(rng.integers(0, len(cc)))][1])])
            elif isinstance(grid, (pde.PolarSymGrid, pde.SphericalSymGrid)):
                base = np.zeros(dim)
            else:
                base = np.array(cc[int(rng.integers(0, len(cc)))], dtype=float)            # exactly on a cell centre
                if pos_kind == 1:
                    base = base + 0.5 * np.asarray(grid.discretization)                       # on a cell corner
                elif pos_kind == 2:
                    base = base + rng.normal(size=dim) * 50                                   # far outside
                elif pos_kind == 3:
                    base = base + rng.random(dim)
            r = float(rng.choice([0.0, 1e-9, 0.7, 3.0, 1e3]))
            w = [None, 0.0, 0.9][t % 3]
            cands = [SphericalDroplet(base, r), DiffuseDroplet(base, r, w)]
            m = int(rng.integers(1, 5))
            amp = rng.uniform(-0.4, 0.4, m)
            if dim == 2:
                cands.append(PerturbedDroplet2D(base, r, w, amp))
            if dim == 3:
                cands.append(PerturbedDroplet3D(base, r, w, amp))
                if abs(base[0]) + abs(base[1]) == 0:
                    cands.append(PerturbedDroplet3DAxisSym(base, r, w, amp))
            for d in cands:
                ev += 1
                distinct.add(("render", t, type(d).__name__, seed))
                inputs = dict(t=t, seed=seed, grid=repr(grid), droplet=repr(d))
                try:
                    fld = d.get_phase_field(grid)
                except Exception as e:   # noqa: BLE001
                    report(f"render:raises:{type(e).__name__}:{type(d).__name__}", f"rendering a valid droplet raises {type(e).__name__}: {e}", inputs)
                    continue
                if not np.all(np.isfinite(fld.data)):
                    report(f"render:non-finite:{type(d).__name__}", "a rendered field contains non-finite values", inputs)
            # dimension mismatch must raise ValueError
            wrong = SphericalDroplet(np.zeros(dim % 3 + 1), 1.0)
            if not isinstance(grid, (pde.PolarSymGrid, pde.SphericalSymGrid, pde.CylindricalSymGrid)):
                try:
                    wrong.get_phase_field(grid)
                    report("render:mismatch-accepted", "a droplet / grid dimension mismatch must raise ValueError", dict(t=t, grid=repr(grid)))
                except ValueError:
                    pass
                except Exception as e:   # noqa: BLE001
                    report(f"render:mismatch:{type(e).__name__}", f"a droplet / grid dimension mismatch raises {type(e).__name__} instead of ValueError", dict(t=t, grid=repr(grid)))
        # ---- tracking
        n_t = 60 if tier == "quick" else 500
        for t in range(n_t):
            dim = 1 + t % 3
            grid = [None, pde.UnitGrid([12] * dim, periodic=True), pde.UnitGrid([12] * dim, periodic=False)][t % 3]
            frames = []
            for f_ in range(int(rng.integers(0, 7))):
                n = int(rng.choice([0, 0, 1, 2, 3, 5]))
                # every third course mixes droplet classes within a frame (a time course is a list of emulsions of any droplets)
                def mk(j):
                    p, r = rng.random(dim) * 12, float(rng.random() * 2 + 0.1)
                    return DiffuseDroplet(p, r, 0.5) if (t % 3 == 1 and j % 2) else SphericalDroplet(p, r)
                frames.append(Emulsion([mk(j) for j in range(n)]))
            times = sorted(float(x) for x in rng.normal(size=len(frames)) * 3)
            etc = EmulsionTimeCourse(frames, times=times)
            for method in ("overlap", "distance"):
                ev += 1
                distinct.add(("track", t, method, seed))
                inputs = dict(t=t, seed=seed, method=method, sizes=[len(e) for e in frames], grid=repr(grid))
                try:
                    kw = dict(method=method, grid=grid, progress=False)
                    if method == "distance" and t % 2:
                        kw["max_dist"] = float(rng.random() * 4)
                    tl = DropletTrackList.from_emulsion_time_course(etc, **kw)
                except Exception as e:   # noqa: BLE001
                    report(f"track:raises:{type(e).__name__}:{method}", f"tracking a valid time course raises {type(e).__name__}: {e}", inputs)
                    continue
                if sum(len(tr) for tr in tl) != sum(len(e) for e in frames):
                    report(f"track:lost:{method}", "tracking loses or duplicates droplets", inputs)
        try:
            locate_droplets(np.zeros((4, 4)))
            report("locate:non-field-accepted", "a request with something that is not a ScalarField must raise TypeError", {})
        except TypeError:
            pass
        except Exception as e:   # noqa: BLE001
            report(f"locate:non-field:{type(e).__name__}", f"a non-field raises {type(e).__name__} instead of TypeError", {})
        return dict(evaluations=ev, distinct=len(distinct), violations=list(viol.values()))

    def replay(self, rec):
        r = self.run("quick" if rec.get("inputs", {}).get("t", 0) < 700 else "thorough", int(rec.get("inputs", {}).get("seed", 0)))
        return dict(violated=[v["signature"] for v in r["violations"]], observed=[v["what"] for v in r["violations"]][:3])
