"""C20 bounded stand-in: operation sequences on the real collections compared with a plain list model.

The model of a collection is a python list of *cell ids*; `CELLS[id]` holds the values of one droplet storage (class name, dim, parameter
tuple).  Two real droplets share storage iff their model ids are equal, so copy-on-insert, independence of copies / slices and leaks
through the caller's object are all visible as a difference between the real state and the model after some later mutation.
After EVERY operation the whole real state (all collections and the caller's pool) is compared with the model, and every summary query is
compared with its definition over the model values (and with the same query on a permuted collection).
"""
from __future__ import annotations

import itertools
import math

from pyvc.bounded import Bounded

TOL = 1e-9


def _vol(dim, r):
    return {1: 2 * r, 2: math.pi * r * r, 3: 4 * math.pi * r ** 3 / 3}[dim]


def _surf(dim, r):
    return {1: 2.0, 2: 2 * math.pi * r, 3: 4 * math.pi * r * r}[dim]


def _close(a, b, tol=TOL):
    if a is None or b is None:
        return a is None and b is None
    if isinstance(a, float) and math.isnan(a) or isinstance(b, float) and math.isnan(b):
        return isinstance(a, float) and isinstance(b, float) and math.isnan(a) and math.isnan(b)
    return abs(a - b) <= tol * max(1.0, abs(a), abs(b))


class World:
    """real objects + model, kept in lock step"""

    def __init__(self, dim, rng):
        import droplets
        self.D = droplets
        self.dim = dim
        self.rng = rng
        self.cells = {}          # id -> dict(cls, pos(list), radius, width)   (width: None = unset, "-" = class has none)
        self.next_id = 0
        self.pool = []           # caller-held droplets: (real, id)
        self.em = []             # emulsions: dict(real=Emulsion, ids=[...], dtype=cls-name or None)
        self.bad = []
        self.log = []

    # --- droplets -----------------------------------------------------------------------------------------------------
    def new_cell(self, cls, pos, radius, width, amps=None):
        self.next_id += 1
        self.cells[self.next_id] = dict(cls=cls, pos=list(pos), radius=float(radius), width=width, amps=None if amps is None else tuple(float(x) for x in amps))
        return self.next_id

    def clone_cell(self, i):
        c = self.cells[i]
        return self.new_cell(c["cls"], c["pos"], c["radius"], c["width"], c.get("amps"))

    def make_droplet(self, cls, pos, radius, width=None):
        dd = self.D.droplets
        if cls == "SphericalDroplet":
            d = dd.SphericalDroplet(pos, radius)
            i = self.new_cell(cls, pos, radius, "-")
        elif cls == "DiffuseDroplet":
            d = dd.DiffuseDroplet(pos, radius, width)
            i = self.new_cell(cls, pos, radius, width)
        else:
            # perturbed droplets: their volume / surface area are NOT those of the sphere with the same radius
            amps = [0.2, -0.15, 0.1, 0.05][: 2 + self.next_id % 3]
            d = getattr(dd, cls)(pos, radius, width, amps)
            i = self.new_cell(cls, pos, radius, width, amps)
        self.pool.append((d, i))
        return len(self.pool) - 1

    def cell_of(self, d):
        w = "-"
        if type(d).__name__ != "SphericalDroplet":
            w = d.interface_width
            w = None if w is None else float(w)
        amps = None if not hasattr(d, "amplitudes") else tuple(float(x) for x in d.amplitudes)
        return dict(cls=type(d).__name__, pos=[float(x) for x in d.position], radius=float(d.radius), width=w, amps=amps)

    def same_cell(self, a, b):
        if a["cls"] != b["cls"] or len(a["pos"]) != len(b["pos"]):
            return False
        if any(not _close(x, y, 1e-12) for x, y in zip(a["pos"], b["pos"])) or not _close(a["radius"], b["radius"], 1e-12):
            return False
        if a.get("amps") != b.get("amps"):
            return False
        if a["width"] == "-" or b["width"] == "-":
            return a["width"] == b["width"]
        return _close(a["width"], b["width"], 1e-12)

    def fail(self, what):
        if what not in self.bad:
            self.bad.append(what)

    # --- comparison of the whole state ------------------------------------------------------------------------------
    def compare(self, where):
        import numpy as np
        objs = [(d, i, f"pool[{k}]") for k, (d, i) in enumerate(self.pool)]
        for e_k, e in enumerate(self.em):
            if len(e["real"]) != len(e["ids"]):
                self.fail(f"{where}: the collection has the length of the list model")
                return
            for k, (d, i) in enumerate(zip(e["real"], e["ids"])):
                objs.append((d, i, f"em{e_k}[{k}]"))
        for d, i, nm in objs:
            if not self.same_cell(self.cell_of(d), self.cells[i]):
                self.fail(f"{where}: every member / caller object holds the values of the list model (content, order, no leaks through shared storage)")
                return
        # storage sharing: exactly as in the model
        for (d1, i1, n1), (d2, i2, n2) in itertools.combinations(objs, 2):
            shared = d1 is d2 or np.shares_memory(np.asarray(d1.data), np.asarray(d2.data))
            if shared != (i1 == i2):
                self.fail(f"{where}: droplets share storage exactly when the model says so (copies and slices are independent, copy=False shares)")
                return

    def summaries(self, where, e):
        """every summary query of an emulsion against its definition over the model values"""
        import numpy as np
        em, ids = e["real"], e["ids"]
        cs = [self.cells[i] for i in ids]
        dim = self.dim
        if len(em) != len(cs):
            return
        for incl in (True, False):
            st = em.get_size_statistics(incl_vanished=incl)
            sel = [c for c in cs if incl or c["radius"] > 0]
            if st["count"] != len(sel) if cs else st["count"] != 0:
                self.fail(f"{where}: size statistics count == number of (non-vanished) members")
            if cs and sel:
                rs = [c["radius"] for c in sel]
                vs = [self.member_volume(d, c) for d, c in zip(em, cs) if incl or c["radius"] > 0]
                exp = dict(radius_mean=np.mean(rs), radius_std=np.std(rs), volume_mean=np.mean(vs), volume_std=np.std(vs))
                for k, v in exp.items():
                    if not _close(float(st[k]), float(v)):
                        self.fail(f"{where}: size statistics {k} equals its definition over the members")
            elif not cs:
                if not all(math.isnan(st[k]) for k in ("radius_mean", "radius_std", "volume_mean", "volume_std")):
                    self.fail(f"{where}: size statistics of an empty emulsion are NaN")
        tv = em.total_droplet_volume
        if not _close(float(tv), sum(self.member_volume(d, c) for d, c in zip(em, cs))):
            self.fail(f"{where}: total volume == sum of the member volumes")
        W = A = 0.0
        no_area = dim == 3 and any(c.get("amps") is not None for c in cs)       # surface area of perturbed 3D shapes is not implemented by the library
        for d, c in zip(em, cs):
            if c["width"] not in ("-", None) and not no_area:
                a = _surf(dim, c["radius"]) if c.get("amps") is None else float(d.surface_area)
                W += c["width"] * a
                A += a
        iw = None if no_area else em.interface_width
        if no_area:
            pass
        elif A == 0:
            if iw is not None:
                self.fail(f"{where}: interface width is None when no member contributes interface area")
        elif iw is None or not _close(float(iw), W / A):
            self.fail(f"{where}: interface width == area-weighted mean of the set widths")
        if cs:
            bb = em.bbox
            lo = [min(c["pos"][a] - c["radius"] for c in cs) for a in range(dim)]
            hi = [max(c["pos"][a] + c["radius"] for c in cs) for a in range(dim)]
            got_lo, got_hi = [float(x) for x in bb.pos], [float(x) for x in np.asarray(bb.pos) + np.asarray(bb.size)]
            if any(not _close(x, y) for x, y in zip(lo + hi, got_lo + got_hi)):
                self.fail(f"{where}: bounding box == hull of the member boxes [pos - r, pos + r]")
            if em.dim != dim:
                self.fail(f"{where}: the emulsion's dimension is that of its members")
            # order independence
            perm = self.D.Emulsion(list(reversed(list(em))), copy=False)
            if not _close(float(perm.total_droplet_volume), float(tv)) or (not no_area and not _close(perm.interface_width, iw)) or \
                    perm.get_size_statistics()["count"] != em.get_size_statistics()["count"] or \
                    not _close(float(perm.get_size_statistics()["radius_std"]), float(em.get_size_statistics()["radius_std"])):
                self.fail(f"{where}: summary queries do not depend on member order")
        else:
            try:
                em.bbox
                self.fail(f"{where}: the bounding box of an empty emulsion is undefined (RuntimeError)")
            except RuntimeError:
                pass

    def member_volume(self, d, c):
        """the volume of a member by its definition: the sphere formula for spherical / diffuse droplets (model values), the member's own
        reported volume for perturbed shapes (whose volume is not that of the sphere with the same radius; C13 decides its value)"""
        if c.get("amps") is None:
            return _vol(self.dim, c["radius"])
        return float(d.volume)

    # --- operations on emulsions ------------------------------------------------------------------------------------
    def op(self, name, *args):
        self.log.append((name,) + tuple(args))
        try:
            getattr(self, "op_" + name)(*args)
        except Exception as exc:   # noqa: BLE001
            self.fail(f"{name}: raised {type(exc).__name__} ({str(exc)[:80]})")
            return
        where = name
        self.compare(where)
        for e in self.em:
            self.summaries(where, e)

    def _e(self, k):
        return self.em[k % len(self.em)]

    def op_new_emulsion(self, pool_idx, copy):
        ds = [self.pool[j % len(self.pool)] for j in pool_idx] if self.pool else []
        real = self.D.Emulsion([d for d, _ in ds], copy=copy)
        ids = [self.clone_cell(i) if copy else i for _, i in ds]
        self.em.append(dict(real=real, ids=ids))

    def op_append(self, k, j, copy, fc):
        e = self._e(k)
        d, i = self.pool[j % len(self.pool)]
        dt = e["real"].dtype
        mismatch = fc and dt is not None and dt != d.data.dtype
        try:
            e["real"].append(d, copy=copy, force_consistency=fc)
        except ValueError:
            if not mismatch:
                self.fail("append: only a data-layout mismatch under force_consistency is rejected")
            return
        if mismatch:
            self.fail("append: a droplet of another data layout is rejected when consistency is requested")
        e["ids"].append(self.clone_cell(i) if copy else i)

    def op_extend(self, k, js, copy):
        e = self._e(k)
        ds = [self.pool[j % len(self.pool)] for j in js]
        e["real"].extend([d for d, _ in ds], copy=copy)
        e["ids"].extend(self.clone_cell(i) if copy else i for _, i in ds)

    def op_mutate_pool(self, j, dr):
        d, i = self.pool[j % len(self.pool)]
        d.radius = d.radius + dr
        d.position = d.position + 0.25
        self.cells[i]["radius"] += dr
        self.cells[i]["pos"] = [x + 0.25 for x in self.cells[i]["pos"]]

    def op_mutate_member(self, k, m, f):
        e = self._e(k)
        if not e["ids"]:
            return
        m %= len(e["ids"])
        d = e["real"][m]
        d.radius = d.radius * f
        self.cells[e["ids"][m]]["radius"] *= f

    def op_copy(self, k, min_radius):
        e = self._e(k)
        new = e["real"].copy() if min_radius is None else e["real"].copy(min_radius=min_radius)
        thr = -1 if min_radius is None else min_radius
        ids = [self.clone_cell(i) for i in e["ids"] if self.cells[i]["radius"] > thr]
        if type(new).__name__ != "Emulsion":
            self.fail("copy: returns an Emulsion")
        self.em.append(dict(real=new, ids=ids))

    def op_slice(self, k, a, b, c):
        e = self._e(k)
        sl = slice(a, b, c)
        new = e["real"][sl]
        if type(new).__name__ != "Emulsion":
            self.fail("slice: a slice of an emulsion is an Emulsion")
        self.em.append(dict(real=new, ids=[self.clone_cell(i) for i in e["ids"][sl]]))

    def op_index(self, k, m):
        e = self._e(k)
        if not e["ids"]:
            return
        m = m % len(e["ids"]) - (len(e["ids"]) if m % 2 else 0)       # positive and negative indices
        d = e["real"][m]
        if not self.same_cell(self.cell_of(d), self.cells[e["ids"][m]]) or d is not list.__getitem__(e["real"], m):
            self.fail("index: em[i] is the i-th member itself")

    def op_add(self, k1, k2):
        e1, e2 = self._e(k1), self._e(k2)
        new = e1["real"] + e2["real"]
        if type(new).__name__ != "Emulsion":
            self.fail("add: the sum of two emulsions is an Emulsion")
        self.em.append(dict(real=new, ids=[self.clone_cell(i) for i in e1["ids"] + e2["ids"]]))

    def op_remove_small(self, k, mr):
        e = self._e(k)
        if mr is None:
            e["real"].remove_small()
        else:
            e["real"].remove_small(mr)
            e["ids"] = [i for i in e["ids"] if self.cells[i]["radius"] > mr]

    def op_remove_overlapping(self, k, min_distance):
        e = self._e(k)
        before = list(e["real"])
        ids0 = list(e["ids"])
        e["real"].remove_overlapping(min_distance=min_distance)
        after = list(e["real"])
        # survivors: original objects, original order
        pos = []
        j = 0
        for d in after:
            while j < len(before) and before[j] is not d:
                j += 1
            if j == len(before):
                self.fail("remove_overlapping: the survivors are the original objects in their original order")
                e["ids"] = ids0[:len(after)]
                return
            pos.append(j)
            j += 1
        e["ids"] = [ids0[p] for p in pos]
        cs = [self.cells[i] for i in e["ids"]]
        for a, b in itertools.combinations(cs, 2):
            dist = math.dist(a["pos"], b["pos"]) - a["radius"] - b["radius"]
            if dist < min_distance - 1e-12:
                self.fail("remove_overlapping: no remaining pair is closer than the minimal distance")
        for p, i in enumerate(ids0):
            if p not in pos:
                c = self.cells[i]
                if not any(self.cells[o]["radius"] >= c["radius"] - 1e-12 and q != p and
                           math.dist(c["pos"], self.cells[o]["pos"]) - c["radius"] - self.cells[o]["radius"] < min_distance + 1e-12
                           for q, o in enumerate(ids0)):
                    self.fail("remove_overlapping: every removed droplet was too close to one at least as large")

    def op_linked_data(self, k, m, val):
        e = self._e(k)
        classes = {self.cells[i]["cls"] for i in e["ids"]}
        try:
            data = e["real"].get_linked_data()
        except TypeError:
            if len(classes) <= 1:
                self.fail("linked data: only emulsions mixing droplet classes are refused")
            return
        except RuntimeError:
            if e["ids"] or e["real"].dtype is not None:
                self.fail("linked data: only an empty emulsion without dtype is refused")
            return
        if len(classes) > 1:
            self.fail("linked data: emulsions mixing droplet classes are refused (TypeError)")
            return
        if len(data) != len(e["ids"]):
            self.fail("linked data: one row per member")
            return
        if not e["ids"]:
            return
        m %= len(e["ids"])
        # a member that occurs twice (copy=False) shares one cell in the model but is linked to the row of its LAST occurrence only
        if len(set(e["ids"])) != len(e["ids"]):
            return
        data[m]["radius"] = val
        self.cells[e["ids"][m]]["radius"] = float(val)
        if float(e["real"][m].radius) != float(val):
            self.fail("linked data: writing a row changes the member")
        e["real"][m].radius = val + 1
        self.cells[e["ids"][m]]["radius"] = float(val + 1)
        if float(data[m]["radius"]) != float(val + 1):
            self.fail("linked data: changing a member changes its row")

    def op_merge_members(self, k, a, b):
        e = self._e(k)
        n = len(e["ids"])
        if n < 2:
            return
        a, b = a % n, b % n
        if a == b or e["ids"][a] == e["ids"][b]:
            return
        ca, cb = self.cells[e["ids"][a]], self.cells[e["ids"][b]]
        if ca["cls"] != cb["cls"] or ca.get("amps") is not None:
            return
        va, vb = _vol(self.dim, ca["radius"]), _vol(self.dim, cb["radius"])
        if va + vb <= 0:
            return
        e["real"][a].merge(e["real"][b], inplace=True)
        v = va + vb
        ca["pos"] = [(va * x + vb * y) / v for x, y in zip(ca["pos"], cb["pos"])]
        ca["radius"] = {1: v / 2, 2: math.sqrt(v / math.pi), 3: (3 * v / (4 * math.pi)) ** (1 / 3)}[self.dim]
        if ca["width"] != "-":
            wa = ca["width"]
            wb = cb["width"]
            if wa is None or wb is None:
                ca["width"] = self.cell_of(e["real"][a])["width"]      # NaN arithmetic of unset widths: not part of the model
            else:
                ca["width"] = (wa + wb) / 2
        del e["real"][b]
        del e["ids"][b]

    def op_clear(self, k):
        e = self._e(k)
        e["real"].clear()
        e["ids"] = []


class TimeCourseWorld:
    """EmulsionTimeCourse / DropletTrack / DropletTrackList against paired-list models"""

    def __init__(self, dim, rng):
        import droplets
        self.D = droplets
        self.dim = dim
        self.rng = rng
        self.bad = []
        self.log = []

    def fail(self, what):
        if what not in self.bad:
            self.bad.append(what)

    def vals(self, d):
        w = getattr(d, "interface_width", "-")
        return (type(d).__name__, tuple(float(x) for x in d.position), float(d.radius), None if w is None else (w if w == "-" else float(w)))

    def mk(self, cls, k):
        rng = self.rng
        pos = rng.uniform(-3, 3, self.dim)
        r = [1.0, 0.5, 2.0, 0.0, 1.5][k % 5]
        if cls == "SphericalDroplet":
            return self.D.SphericalDroplet(pos, r)
        return self.D.DiffuseDroplet(pos, r, [0.0, 1.0, None, 0.5][k % 4])

    # --- EmulsionTimeCourse ------------------------------------------------------------------------------------------
    def run_etc(self, ops):
        import numpy as np
        D = self.D
        etc = D.EmulsionTimeCourse()
        model = []        # list of (time, [vals])
        sources = []
        for op in ops:
            self.log.append(op)
            try:
                kind = op[0]
                if kind == "append":
                    _, n, t, copy, cls = op
                    em = D.Emulsion([self.mk(cls, k + len(model)) for k in range(n)])
                    sources.append(em)
                    kw = {} if t is None else dict(time=t)
                    etc.append(em, copy=copy, **kw)
                    tt = t if t is not None else (0 if not model else model[-1][0] + 1)
                    model.append((tt, [self.vals(d) for d in em]))
                    for d in em:                    # later changes of the caller's droplets do not leak in
                        d.radius = d.radius + 5
                    for x in etc.emulsions[-1]:
                        if any(x is y or np.shares_memory(np.asarray(x.data), np.asarray(y.data)) for y in em):
                            self.fail("time course: appended emulsions are stored as independent copies")
                elif kind == "clear":
                    etc.clear()
                    model = []
                elif kind == "slice":
                    sl = slice(*op[1])
                    sub = etc[sl]
                    if type(sub).__name__ != "EmulsionTimeCourse":
                        self.fail("time course: a slice is a time course")
                    else:
                        self.check_etc(sub, model[sl], "slice")
                        # independence of the slice
                        for e in sub.emulsions:
                            for d in e:
                                d.radius = d.radius + 3
                        self.check_etc(etc, model, "after modifying a slice")
                elif kind == "index":
                    if model:
                        i = op[1] % len(model) - (len(model) if op[1] % 2 else 0)
                        if [self.vals(d) for d in etc[i]] != model[i][1]:
                            self.fail("time course: etc[i] is the i-th emulsion")
                elif kind == "nearest":
                    if model:
                        t = op[1]
                        got = etc.get_emulsion(t)
                        dists = [abs(mt - t) for mt, _ in model]
                        best = min(dists)
                        cands = [model[i][1] for i, x in enumerate(dists) if x <= best + 1e-12]
                        if [self.vals(d) for d in got] not in cands:
                            self.fail("time course: get_emulsion returns the member whose time is nearest")
                elif kind == "mutate":
                    if model:
                        i = op[1] % len(model)
                        if model[i][1]:
                            etc.emulsions[i][0].radius = 7.5
                            v = model[i][1][0]
                            model[i] = (model[i][0], [(v[0], v[1], 7.5, v[3])] + model[i][1][1:])
                self.check_etc(etc, model, kind)
            except Exception as exc:   # noqa: BLE001
                self.fail(f"time course {op[0]}: raised {type(exc).__name__} ({str(exc)[:80]})")
                return

    def check_etc(self, etc, model, where):
        if len(etc) != len(model) or len(etc.times) != len(etc.emulsions):
            self.fail(f"time course ({where}): times and members have equal length (that of the model)")
            return
        if [float(t) for t in etc.times] != [float(t) for t, _ in model]:
            self.fail(f"time course ({where}): times equal the model's times, in order")
        if [[self.vals(d) for d in e] for e in etc.emulsions] != [m for _, m in model]:
            self.fail(f"time course ({where}): members equal the model's members, in order (times and members stay paired)")
        if [(float(t), [self.vals(d) for d in e]) for t, e in etc.items()] != [(float(t), m) for t, m in model]:
            self.fail(f"time course ({where}): items() pairs every member with its time")
        if [[self.vals(d) for d in e] for e in etc] != [m for _, m in model]:
            self.fail(f"time course ({where}): iteration yields the members in order")

    # --- DropletTrack / DropletTrackList ----------------------------------------------------------------------------
    def run_track(self, ops):
        import numpy as np
        from droplets.droplet_tracks import DropletTrack, DropletTrackList
        tr = DropletTrack()
        model = []        # list of (time, vals)
        for op in ops:
            self.log.append(op)
            try:
                kind = op[0]
                if kind == "append":
                    _, t, cls, k = op
                    d = self.mk(cls, k)
                    before = self.vals(d)
                    if t is None:
                        tr.append(d)
                    else:
                        tr.append(d, t)
                    tt = t if t is not None else (0 if not model else model[-1][0] + 1)
                    model.append((tt, before))
                    d.radius = d.radius + 4
                    if tr.droplets[-1] is d or np.shares_memory(np.asarray(tr.droplets[-1].data), np.asarray(d.data)):
                        self.fail("track: appended droplets are stored as independent copies")
                elif kind == "append_wrong_dim":
                    d = self.D.SphericalDroplet([0.0] * (self.dim % 3 + 1), 1.0)
                    try:
                        tr.append(d, 99.0)
                        if model:
                            self.fail("track: a droplet of another dimension is rejected")
                        else:
                            model.append((99.0, self.vals(d)))
                    except ValueError:
                        if not model:
                            self.fail("track: the first droplet fixes the dimension (nothing to reject yet)")
                    if model and model[-1][0] == 99.0:      # undo, keep the track homogeneous
                        tr.droplets.pop(); tr.times.pop(); model.pop()
                elif kind == "slice":
                    sl = slice(*op[1])
                    sub = tr[sl]
                    if type(sub).__name__ != "DropletTrack":
                        self.fail("track: a slice is a track")
                    else:
                        self.check_track(sub, model[sl], "slice")
                        for d in sub.droplets:
                            d.radius = d.radius + 3
                        self.check_track(tr, model, "after modifying a slice")
                elif kind == "index":
                    if model:
                        i = op[1] % len(model) - (len(model) if op[1] % 2 else 0)
                        if self.vals(tr[i]) != model[i][1]:
                            self.fail("track: tr[i] is the i-th droplet")
                self.check_track(tr, model, kind)
            except Exception as exc:   # noqa: BLE001
                self.fail(f"track {op[0]}: raised {type(exc).__name__} ({str(exc)[:80]})")
                return
        return tr, model

    def check_track(self, tr, model, where):
        import numpy as np
        if len(tr) != len(model) or len(tr.times) != len(tr.droplets):
            self.fail(f"track ({where}): times and droplets have equal length (that of the model)")
            return
        if [float(t) for t in tr.times] != [float(t) for t, _ in model] or [self.vals(d) for d in tr.droplets] != [v for _, v in model]:
            self.fail(f"track ({where}): times and droplets equal the model's, in order and paired")
            return
        if [(float(t), self.vals(d)) for t, d in tr.items()] != [(float(t), v) for t, v in model]:
            self.fail(f"track ({where}): items() pairs every droplet with its time")
        if model:
            if float(tr.start) != float(model[0][0]) or float(tr.end) != float(model[-1][0]):
                self.fail(f"track ({where}): start / end are the first / last time")
            if self.vals(tr.first) != model[0][1] or self.vals(tr.last) != model[-1][1]:
                self.fail(f"track ({where}): first / last are the first / last droplet")
            traj = tr.get_trajectory()
            if traj.shape != (len(model), self.dim) or any(tuple(float(x) for x in row) != v[1] for row, (_, v) in zip(traj, model)):
                self.fail(f"track ({where}): the trajectory lists the member positions in order")
            if [float(x) for x in tr.get_radii()] != [v[2] for _, v in model]:
                self.fail(f"track ({where}): get_radii lists the member radii in order")
            if any(not _close(float(x), _vol(self.dim, v[2])) for x, (_, v) in zip(tr.get_volumes(), model)):
                self.fail(f"track ({where}): get_volumes lists the member volumes in order")
            if tr.dim != self.dim:
                self.fail(f"track ({where}): the track's dimension is that of its droplets")
            t_mid = model[len(model) // 2][0]
            first_idx = [t for t, _ in model].index(t_mid)
            if tuple(float(x) for x in tr.get_position(t_mid)) != model[first_idx][1][1]:
                self.fail(f"track ({where}): get_position(t) is the position stored with time t")
        exp_dur = (model[-1][0] - model[0][0]) if model else 0
        if not _close(float(tr.duration), float(exp_dur), 1e-12):
            self.fail(f"track ({where}): duration == last time - first time (0 for an empty track)")

    def run_tracklist(self, specs, min_durations):
        """specs: list of time lists; every track gets droplets at those times"""
        from droplets.droplet_tracks import DropletTrack, DropletTrackList
        tracks = []
        for k, times in enumerate(specs):
            tracks.append(DropletTrack([self.mk("SphericalDroplet", k + j) for j in range(len(times))], list(times)))
        for a, b in itertools.combinations(range(len(tracks)), 2):
            ta, tb = specs[a], specs[b]
            if ta and tb:
                exp = ta[0] <= tb[-1] and tb[0] <= ta[-1]
                if bool(tracks[a].time_overlaps(tracks[b])) != exp or bool(tracks[b].time_overlaps(tracks[a])) != exp:
                    self.fail("track: time_overlaps holds exactly when the two time spans intersect")
        for md in min_durations:
            tl = DropletTrackList(tracks)
            try:
                if md is None:
                    tl.remove_short_tracks()
                    md = 0
                else:
                    tl.remove_short_tracks(md)
            except Exception as exc:   # noqa: BLE001
                self.fail(f"remove_short_tracks raised {type(exc).__name__}")
                continue
            exp = [t for t, s in zip(tracks, specs) if ((s[-1] - s[0]) if s else 0) > md]
            if len(tl) != len(exp) or any(x is not y for x, y in zip(tl, exp)):
                self.fail("track list: remove_short_tracks keeps exactly the tracks longer than the minimal duration, in order")
            sub = tl[0:2]
            if type(sub).__name__ != "DropletTrackList" or list(sub) != list(tl)[0:2]:
                self.fail("track list: a slice is a track list with the selected tracks")


# --- the bounded stand-in ---------------------------------------------------------------------------------------------
def _emulsion_alphabet():
    """small alphabet for exhaustive sequences (pool of 3 droplets: two spherical incl. a vanished one and a tie, one diffuse)"""
    ops = []
    for j in (0, 1, 2):
        for copy in (True, False):
            ops.append(("append", 0, j, copy, False))
    ops.append(("append", 0, 2, True, True))
    ops.append(("extend", 0, (0, 1), True))
    ops.append(("extend", 0, (1, 0), False))
    ops.append(("mutate_pool", 0, 0.5))
    ops.append(("mutate_pool", 1, 1.0))
    ops.append(("mutate_member", 0, 0, 2.0))
    ops.append(("copy", 0, None))
    ops.append(("copy", 0, 0.0))
    ops.append(("copy", 0, 1.0))
    ops.append(("slice", 0, None, None, None))
    ops.append(("slice", 0, 1, None, None))
    ops.append(("slice", 0, None, None, 2))
    ops.append(("slice", 0, None, None, -1))
    ops.append(("index", 0, 0))
    ops.append(("index", 0, 1))
    ops.append(("add", 0, 0))
    ops.append(("remove_small", 0, 0.0))
    ops.append(("remove_small", 0, 1.0))
    ops.append(("remove_small", 0, None))
    ops.append(("remove_overlapping", 0, 0.0))
    ops.append(("linked_data", 0, 0, 3.0))
    ops.append(("merge_members", 0, 0, 1))
    ops.append(("clear", 0))
    return ops


def _fresh_world(dim, seed, classes=("SphericalDroplet", "SphericalDroplet", "DiffuseDroplet")):
    import numpy as np
    rng = np.random.default_rng(seed)
    w = World(dim, rng)
    radii = [1.0, 1.0, 0.5, 0.0, 2.0]
    widths = [0.5, None, 0.0, 1.0]
    for k, cls in enumerate(classes):
        pos = [0.75 * k + 0.1 * a for a in range(dim)] if k < 3 else list(rng.uniform(-4, 4, dim))
        w.make_droplet(cls, pos, radii[k % 5], widths[k % 4])
    w.op("new_emulsion", (), True)
    return w


def run_emulsion_sequence(dim, seed, ops, classes=("SphericalDroplet", "SphericalDroplet", "DiffuseDroplet")):
    w = _fresh_world(dim, seed, classes)
    for op in ops:
        w.op(*op)
        if w.bad:
            break
    return w.bad, w.log


def random_emulsion_ops(rng, n, n_pool):
    ops = []
    for _ in range(n):
        k = int(rng.integers(0, 3))
        c = int(rng.integers(0, 15))
        j = int(rng.integers(0, n_pool))
        if c == 0:
            ops.append(("append", k, j, bool(rng.integers(0, 2)), bool(rng.integers(0, 2))))
        elif c == 1:
            ops.append(("extend", k, tuple(int(x) for x in rng.integers(0, n_pool, int(rng.integers(0, 4)))), bool(rng.integers(0, 2))))
        elif c == 2:
            ops.append(("mutate_pool", j, float(rng.choice([0.5, 1.0, 0.25]))))
        elif c == 3:
            ops.append(("mutate_member", k, j, float(rng.choice([0.0, 0.5, 2.0]))))
        elif c == 4:
            ops.append(("copy", k, [None, 0.0, 0.5, 1.0, -1.0][int(rng.integers(0, 5))]))
        elif c == 5:
            a, b, s = [[None, 0, 1, 2, -1, -2][int(rng.integers(0, 6))] for _ in range(2)] + [[None, 1, 2, -1, -2][int(rng.integers(0, 5))]]
            ops.append(("slice", k, a, b, s))
        elif c == 6:
            ops.append(("index", k, j))
        elif c == 7:
            ops.append(("add", k, int(rng.integers(0, 3))))
        elif c == 8:
            ops.append(("remove_small", k, [None, 0.0, 0.5, 1.0, 2.0][int(rng.integers(0, 5))]))
        elif c == 9:
            ops.append(("remove_overlapping", k, float(rng.choice([0.0, 0.3, -0.2]))))
        elif c == 10:
            ops.append(("linked_data", k, j, float(rng.choice([0.75, 3.0]))))
        elif c == 11:
            ops.append(("merge_members", k, j, int(rng.integers(0, 5))))
        elif c == 12:
            ops.append(("clear", k))
        elif c == 13:
            ops.append(("new_emulsion", tuple(int(x) for x in rng.integers(0, n_pool, int(rng.integers(0, 4)))), bool(rng.integers(0, 2))))
        else:
            ops.append(("copy", k, None))
    return ops


class CollectionModel(Bounded):
    name = "operation-sequences-vs-list-model"
    bound = ("Emulsion: ALL sequences of <= 2 (quick) / <= 3 (thorough) operations over a 29-letter alphabet (append copy/no copy/consistency, extend, "
             "mutation of the caller's object and of a member, copy with/without threshold, slices incl. steps and reversal, index, +, remove_small "
             "incl. threshold == radius and the default, remove_overlapping, linked data, merge of two members, clear) on a pool of three droplets "
             "(two classes, tied radii) in 2 dimensions, plus 120 / 1500 random sequences of <= 12 operations on up to three emulsions and 5 pooled "
             "droplets (incl. a vanished one) in 1-3 dimensions; after EVERY operation the whole state (content, order, storage sharing) and all summary "
             "queries (size statistics with/without vanished droplets, total volume, interface width, bounding box, dimension; order independence) are "
             "compared with the list model.  EmulsionTimeCourse / DropletTrack: ALL sequences of <= 3 operations (append with time 0 / negative / default, "
             "clear, slices, index, nearest-time lookup incl. ties, member mutation) plus 60 / 600 random ones; DropletTrackList.remove_short_tracks and "
             "time_overlaps on all pairs of 6 time spans x thresholds {default, 0, 1, 2.5}")

    def run(self, tier, seed):
        import numpy as np
        ev, distinct, viol = 0, set(), {}

        def report(kind, bad, log, replay):
            for b in bad:
                clause = b.split(": ", 1)[-1]
                viol.setdefault((kind, clause), dict(signature=f"{kind}:{clause}", what=f"{kind}: {b}", inputs=replay, log=[list(map(str, x)) for x in log][-12:]))

        alpha = _emulsion_alphabet()
        depth = 2 if tier == "quick" else 3
        for n in range(1, depth + 1):
            for ops in itertools.product(alpha, repeat=n):
                if n == 3 and ops[0][0] in ("index", "clear", "remove_small") and ops[1][0] in ("index", "clear"):
                    continue
                ev += 1
                distinct.add(("ex", ops))
                # start from an emulsion that already holds the three pooled droplets (copies), so that every letter has something to act on
                pre = [("extend", 0, (0, 1, 2), True)]
                bad, log = run_emulsion_sequence(2, seed, pre + list(ops))
                report("emulsion", bad, log, dict(kind="emulsion", dim=2, seed=seed, ops=[list(o) for o in pre + list(ops)]))
        rng = np.random.default_rng(seed + 20)
        for t in range(120 if tier == "quick" else 1500):
            dim = 1 + t % 3
            classes = [("SphericalDroplet",) * 5, ("DiffuseDroplet",) * 5, ("SphericalDroplet", "DiffuseDroplet", "SphericalDroplet", "DiffuseDroplet", "DiffuseDroplet")][t % 3]
            if t % 4 == 3 and (dim == 2 or (dim == 3 and t % 48 == 11)):      # 3-d perturbed volumes are numerical integrals (slow): few of them
                pc = "PerturbedDroplet2D" if dim == 2 else "PerturbedDroplet3D"
                classes = (pc,) * 5
            ops = random_emulsion_ops(rng, int(rng.integers(3, 13)), 5)
            ev += 1
            distinct.add(("rnd", t))
            bad, log = run_emulsion_sequence(dim, seed + t, ops, classes)
            report("emulsion", bad, log, dict(kind="emulsion", dim=dim, seed=seed + t, ops=[list(o) for o in ops], classes=list(classes)))
        # --- time courses and tracks
        etc_alpha = [("append", 0, None, True, "SphericalDroplet"), ("append", 2, 0, True, "DiffuseDroplet"), ("append", 1, 0.0, False, "SphericalDroplet"),
                     ("append", 2, -1.5, True, "SphericalDroplet"), ("append", 1, 2.5, True, "DiffuseDroplet"), ("clear",), ("slice", (None, None, None)),
                     ("slice", (1, None, None)), ("slice", (None, None, 2)), ("index", 0), ("index", 1), ("nearest", 0.4), ("nearest", 1.25), ("nearest", -7.0),
                     ("mutate", 0)]
        trk_alpha = [("append", None, "SphericalDroplet", 0), ("append", 0, "SphericalDroplet", 1), ("append", 0.0, "DiffuseDroplet", 2), ("append", -2.0, "SphericalDroplet", 3),
                     ("append", 3.5, "SphericalDroplet", 4), ("append_wrong_dim",), ("slice", (None, None, None)), ("slice", (1, None, None)), ("slice", (None, None, 2)),
                     ("index", 0), ("index", 1)]
        for n in range(1, 4):
            for ops in itertools.product(etc_alpha, repeat=n):
                ev += 1
                distinct.add(("etc", ops))
                w = TimeCourseWorld(2, np.random.default_rng(seed + 5))
                w.run_etc(list(ops))
                report("time-course", w.bad, w.log, dict(kind="etc", dim=2, seed=seed + 5, ops=[list(o) for o in ops]))
            for ops in itertools.product(trk_alpha, repeat=n):
                ev += 1
                distinct.add(("trk", ops))
                w = TimeCourseWorld(2, np.random.default_rng(seed + 6))
                w.run_track(list(ops))
                report("track", w.bad, w.log, dict(kind="track", dim=2, seed=seed + 6, ops=[list(o) for o in ops]))
        for t in range(60 if tier == "quick" else 600):
            dim = 1 + t % 3
            w = TimeCourseWorld(dim, np.random.default_rng(seed + 100 + t))
            ops = [etc_alpha[int(i)] for i in rng.integers(0, len(etc_alpha), int(rng.integers(2, 10)))]
            w.run_etc(ops)
            report("time-course", w.bad, w.log, dict(kind="etc", dim=dim, seed=seed + 100 + t, ops=[list(o) for o in ops]))
            w = TimeCourseWorld(dim, np.random.default_rng(seed + 100 + t))
            ops = [trk_alpha[int(i)] for i in rng.integers(0, len(trk_alpha), int(rng.integers(2, 10)))]
            w.run_track(ops)
            report("track", w.bad, w.log, dict(kind="track", dim=dim, seed=seed + 100 + t, ops=[list(o) for o in ops]))
            ev += 2
            distinct.add(("rnd-tc", t))
        spans = [[], [0.0], [0.0, 1.0], [1.0, 2.0, 3.5], [-2.0, 0.0], [3.5, 4.0]]
        w = TimeCourseWorld(2, np.random.default_rng(seed + 7))
        w.run_tracklist(spans, [None, 0, 1, 2.5])
        ev += 1
        distinct.add("tracklist")
        report("track-list", w.bad, w.log, dict(kind="tracklist", dim=2, seed=seed + 7, spans=spans, min_durations=[None, 0, 1, 2.5]))
        return dict(evaluations=ev, distinct=len(distinct), violations=list(viol.values()))

    def replay(self, rec):
        import numpy as np
        inp = rec["inputs"]

        def tup(o):
            return tuple(tuple(x) if isinstance(x, list) else x for x in o)
        if inp["kind"] == "emulsion":
            bad, log = run_emulsion_sequence(inp["dim"], inp["seed"], [tup(o) for o in inp["ops"]],
                                             tuple(inp.get("classes", ("SphericalDroplet", "SphericalDroplet", "DiffuseDroplet"))))
            return dict(violated=bad, log=[list(map(str, x)) for x in log])
        w = TimeCourseWorld(inp["dim"], np.random.default_rng(inp["seed"]))
        if inp["kind"] == "etc":
            w.run_etc([tup(o) for o in inp["ops"]])
        elif inp["kind"] == "track":
            w.run_track([tup(o) for o in inp["ops"]])
        else:
            w.run_tracklist(inp["spans"], inp["min_durations"])
        return dict(violated=w.bad, log=[list(map(str, x)) for x in w.log])
