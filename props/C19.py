"""C19 -- the requested droplet model determines the class and shape of every result."""
from contracts import locate as lc, collections as co
from pyvc.bounded import ContractSampling

LEVEL = "proof"
LEVEL_TEXT = ("locate_droplets is verified for the whole symbolic configuration space (grid family x dimension x modes 0 / any positive count x "
              "width given / not x refine on / off): every element of the result has the class spec_class(dim, cylindrical, modes>0, width, "
              "refine), carries exactly `modes` amplitudes (all zero before refinement), carries the supplied width when unrefined, has the "
              "grid's dimension, and the documented invalid requests raise the documented errors (modes in 1-d: ValueError, non-field: "
              "TypeError, unsupported grid: NotImplementedError). DropletBase.from_droplet (the conversion) is verified by executing the real "
              "constructors symbolically. Refinement and candidate detection enter through assumed contracts (class >= DiffuseDroplet, mode "
              "count kept). The configuration matrix is additionally enumerated completely on real fields (bounded, exhaustive for configurations).")
LEVEL_NOTE = ("A-FP; assumed contracts: locate_droplets_in_mask -> SphericalDroplets of the grid's dimension (on-axis for cylindrical grids), "
              "refine_droplets -> one droplet per candidate of class >= DiffuseDroplet with the same mode count, Emulsion(list) copies members "
              "in order; numpy recarray creation yields arbitrary initial field values; heap model of lists and records")
from contracts import droplets as _dr
CONTRACTS = [c.ident for c in (lc.LocateDroplets(), lc.FromDroplet(), _dr.WidthSetter(), _dr.WidthGetter())]
LEMMAS = []
BOUNDED = [ContractSampling("configuration-matrix-on-real-fields", [lc.LocateDroplets().ident],
                            "the complete configuration matrix (6 grid kinds/dims x modes 0/>0 x width given/not x refine on/off, plus the "
                            "5 threshold rules) on 3 (quick) / 12 (thorough) rendered fields each: 2 resolvable droplets + a sub-resolution speck, "
                            "mode counts 1-4, width 0 included, minimal radius equal to a droplet's radius included, shifted/scaled intensities")]
