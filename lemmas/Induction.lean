/-
Cross-check (thorough tier; not the deciding step) of the induction principles that the z3 lemmas of /verif take for granted.
The z3 side discharges BASE and STEP obligations; the lift "base + step => all reachable states / all lists / all trees" is proved here once,
generically, and re-checked by Lean 4 + Mathlib on every thorough run of C06 / C07 / C11 / C20.
-/
import Mathlib

open Relation

/-- Induction over any sequence of steps (tracking placements, frames, collection operations, loop iterations):
    an invariant that holds initially and is preserved by every step holds in every reachable state. -/
theorem inv_of_reachable {S : Type} (step : S → S → Prop) (Inv : S → Prop) (s0 : S)
    (base : Inv s0) (pres : ∀ s t, Inv s → step s t → Inv t) :
    ∀ t, ReflTransGen step s0 t → Inv t := by
  intro t h
  induction h with
  | refl => exact base
  | tail _ hst ih => exact pres _ _ ih hst

/-- The same for an explicit list of operations applied from left to right (C20: "any sequence of operations"). -/
theorem inv_foldl {S Op : Type} (apply : S → Op → S) (Inv : S → Prop)
    (pres : ∀ s o, Inv s → Inv (apply s o)) : ∀ (ops : List Op) (s0 : S), Inv s0 → Inv (ops.foldl apply s0) := by
  intro ops
  induction ops with
  | nil => intro s0 h; simpa using h
  | cons o os ih => intro s0 h; simpa using ih (apply s0 o) (pres s0 o h)

/-- Sums do not depend on the order of the summands (C03: emulsion field, C20: summary queries). -/
theorem sum_perm (l₁ l₂ : List ℝ) (h : l₁.Perm l₂) : l₁.sum = l₂.sum := h.sum_eq

/-- Merge trees (C11): if merging adds the pair alpha = (volume, volume * position) (the z3 lemma `merge-spec-algebra`), then the alpha of any
    merge tree is the sum of the alphas of its leaves, whatever the grouping. -/
inductive MTree where
  | leaf : ℝ × ℝ → MTree
  | node : MTree → MTree → MTree

def MTree.leaves : MTree → List (ℝ × ℝ)
  | .leaf a => [a]
  | .node l r => l.leaves ++ r.leaves

theorem merge_tree_additive (alpha : MTree → ℝ × ℝ)
    (hleaf : ∀ a, alpha (.leaf a) = a)
    (hnode : ∀ l r, alpha (.node l r) = alpha l + alpha r) :
    ∀ t : MTree, alpha t = (t.leaves.map id).sum := by
  intro t
  induction t with
  | leaf a => simp [MTree.leaves, hleaf]
  | node l r ihl ihr => simp [MTree.leaves, hnode, ihl, ihr, List.sum_append]

/-- Two groupings of the same leaves (up to order) give the same total volume and first moment. -/
theorem merge_tree_grouping_independent (alpha : MTree → ℝ × ℝ)
    (hleaf : ∀ a, alpha (.leaf a) = a)
    (hnode : ∀ l r, alpha (.node l r) = alpha l + alpha r)
    (t₁ t₂ : MTree) (h : t₁.leaves.Perm t₂.leaves) : alpha t₁ = alpha t₂ := by
  rw [merge_tree_additive alpha hleaf hnode t₁, merge_tree_additive alpha hleaf hnode t₂]
  simpa using h.sum_eq

/-- Suffix sums (C18, Otsu): summing the reversed list from the front is summing the original list from the back. -/
theorem suffix_sum_reverse (l : List ℝ) (k : ℕ) : ((l.reverse.take (l.length - k)).sum) = (l.drop k).sum := by
  rw [← List.reverse_drop, List.sum_reverse]
