"""C20 -- collections stay aligned and own their droplets under any sequence of edits."""
from contracts import collections as co, collections2 as c2, collmodel, emulsions as em, parallel as _pl, tracks as tk
from pyvc.bounded import Bounded, ContractSampling

LEVEL = "other"
LEVEL_TEXT = ("Per-operation heap contracts (pre/post over the whole view + frame 'nothing that existed before is modified') are verified on a "
              "Boogie-style heap for collections of ANY length: DropletBase.copy, Emulsion.append (copy/no copy, dtype adoption, rejection "
              "with unchanged state, argument aliasing a member), Emulsion.extend and remove_small (cut loops with inductive invariants and "
              "ghost index maps), remove_overlapping (C10), interface_width (partial-sum invariant), DropletTrack.append/duration, "
              "EmulsionTimeCourse.append/clear. 'Any sequence of operations' then follows by induction over the sequence (meta-argument). "
              "Second batch (contracts/collections2.py): Emulsion.__init__ (empty emulsion with the declared dtype, ONE extend call with the caller's "
              "flags, default copy=True), Emulsion.copy (filter radius > min_radius, default -1 keeps vanished droplets; every kept member a NEW object "
              "with a NEW record holding equal values), + and slices of emulsions (new emulsion from the plain concatenation / list slice with the "
              "DEFAULT copy behaviour, integer key: the member itself), total_droplet_volume (sum of V_d(radius_k) over all members), "
              "get_size_statistics (which lists, which filter, which reductions; empty -> count 0 / NaN), EmulsionTimeCourse / DropletTrack "
              "__getitem__ (same slice applied to members and times; integer key: the member), __len__, get_emulsion (index minimising |t_k - t| "
              "modulo the assumed argmin contract; member paired by index), DropletTrack.time_overlaps, DropletTrackList.remove_short_tracks (same "
              "reverse-filter invariant as remove_small), get_linked_data (loop invariant over the heap: afterwards droplet k's data reference IS row k of the "
              "returned array - new storage holding the old values - so a merge written through a linked row (C11's aliasing case `out is drop1`) changes "
              "exactly member i; requires distinct member objects). "
              "get_trajectory (entry k = attribute of droplet k; Gaussian filter exactly for a non-zero smoothing, in place on the new array, along time). "
              "bbox (fold of the members' boxes [position - radius, position + radius] from member 0 over members 1.. with py-pde's Cuboid `+`; empty: RuntimeError). "
              "Still bounded only: the composition of these per-operation contracts over arbitrary operation "
              "sequences (induction over the sequence is a meta-argument; the operation-sequence stand-in compares with a list model) - hence level "
              "'other', not 'proof'.")
LEVEL_NOTE = ("A-FP; heap model (references, records, python lists as length + element map; numpy record copy = new storage with equal "
              "values and dtype; dtype equality by tag) validated only by the run-time monitors of the bounded tier; Emulsion(...) and "
              "Emulsion.copy() are uninterpreted in the EmulsionTimeCourse.append contract (their own contracts: EmulsionInit / EmulsionCopy); constructor calls "
              "inside copy / + / slices are recorded and matched against the constructor's contract (modular); builtin sum / numpy mean, std, argmin assumed; "
              "induction over operation sequences is a "
              "meta-argument; list.append/pop semantics")
CONTRACTS = [c.ident for c in (co.DropletCopy(), co.EmulsionAppend(), co.EmulsionExtend(), co.RemoveSmall(), co.TrackAppend(),
                               co.TrackDuration(), co.ETCAppend(), co.ETCClear(), co.EmulsionInterfaceWidth(),
                               em.RemoveOverlapping(), em.RemoveOverlappingIdempotent(), tk.TrackInit(),
                               c2.EmulsionInit(), c2.EmulsionCopy(), c2.EmulsionAdd(), c2.EmulsionGetitem(), c2.TotalVolume(), c2.SizeStatistics(),
                               c2.ETCGetitem(), c2.ETCLen(), c2.ETCGetEmulsion(), c2.TrackGetitem(), c2.TrackTimeOverlaps(), c2.RemoveShortTracks(), c2.LinkedData(), c2.TrackTrajectory(), c2.EmulsionBBox())]
LEMMAS = []
BOUNDED = [collmodel.CollectionModel(), ContractSampling("collection-contracts-on-real-objects", CONTRACTS,
                            "each operation contract on 8 (quick) / 80 (thorough) seeded collections of 0-5 droplets incl. time 0, width 0/None, "
                            "radius equal to the threshold, aliasing of argument and member")]
