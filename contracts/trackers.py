"""Contracts for droplets/trackers.py and EmulsionTimeCourse.from_storage (C14, C15 branch equivalence)."""
from __future__ import annotations

import z3

from pyvc import heap as H, models, ops, source
from pyvc.bounded import Bounded
from pyvc.contract import Contract, Lemma, register
from pyvc.engine import SymRaise, _MISSING
from pyvc.values import SExc, SKw, SMaybeNaN, SNative, SObj, SOpaque, SSeq, Undecided, to_real, to_z3

TRK = "droplets.trackers"
EM = "droplets.emulsions"
IA = "droplets.image_analysis"
I, Rl = z3.IntSort(), z3.RealSort()

SETTINGS = ("threshold", "minimal_radius", "refine", "refine_args", "perturbation_modes")


# --- opaque call-site forms --------------------------------------------------------------------------
class Recorder:
    """records calls of an uninterpreted function: the result is identified by (function, arguments)"""

    def __init__(self, name):
        self.name = name

    def call(self, run, args, kwargs):
        lst = run.ghost.setdefault("calls:" + self.name, [])
        res = SOpaque(f"{self.name}#{len(lst)}", term=z3.Int(f"{self.name}_result_{len(lst)}"))
        lst.append(dict(args=list(args), kwargs=dict(kwargs), result=res))
        return res


from .locate import LocateDroplets   # noqa: E402


@register
class LocateDropletsOpaque(Contract):
    """locate_droplets seen from its callers: a deterministic function L(field, options) (its own contract: C18/C19)"""
    key = LocateDroplets.key
    variant = "opaque"
    call_site = True

    def cases(self):
        return []

    def apply(self, engine, run, fi, args, kwargs):
        run.trust("locate_droplets is a deterministic function of the field and its options (A: determinism)")
        return Recorder("locate_droplets").call(run, args, kwargs)


@models.external("pde.visualization.plotting.extract_field")
def extract_field(engine, run, a, k):
    """Assumed (py-pde): extract_field(fields, source, check_rank) returns the selected scalar field and does not raise for a
    valid source."""
    run.trust("A-PDE: extract_field(field, source, 0) selects the scalar field; no exception for a valid source")
    return Recorder("extract_field").call(run, a, k)


class GLSRaises(Exception):
    pass


@register
class GetLengthScaleOpaque(Contract):
    """get_length_scale seen from the tracker: returns a value G(field, method) or raises ANY exception"""
    key = f"{IA}:get_length_scale"
    variant = "opaque"
    call_site = True
    EXCS = ("ValueError", "ZeroDivisionError", "IndexError", "RuntimeError", "TypeError", "KeyError", "FloatingPointError",
            "NotImplementedError", "AttributeError", "OverflowError")

    def cases(self):
        return []

    def apply(self, engine, run, fi, args, kwargs):
        res = Recorder("get_length_scale").call(run, args, kwargs)
        k = run.choose(len(self.EXCS) + 1, "gls_outcome")
        if k == 0:
            run.ghost["gls_outcome"] = "value"
            val = run.fresh_real("length_scale")
            run.ghost["gls_value"] = val
            return val
        run.ghost["gls_outcome"] = self.EXCS[k - 1]
        raise SymRaise(SExc(self.EXCS[k - 1], ("analysis failed",)))


def sym_etc_lists(run):
    from .collections import sym_real_list
    n = run.input_int("n")
    run.assume(n >= 0)
    ems = H.SListObj(run, None, n, z3.Array("etc_ems", I, I), lambda r: SOpaque("emulsion", term=r), tag="emulsions")
    ems.unwrap = lambda run2, v: v.term
    times = sym_real_list(run, "etc_times")
    run.assume(to_z3(times.length) == n)
    return ems, times, n


class ETCRecorder(SObj):
    """EmulsionTimeCourse seen from the tracker: append(emulsion, time[, copy]) is recorded (its contract: C20)"""

    def __init__(self, run):
        super().__init__(source.get_class(EM, "EmulsionTimeCourse"), {})
        self.calls = []
        self.file_calls = []
        # a time course is falsy when it holds no frames (it defines __len__): the number of recorded frames is arbitrary, zero included
        self.n_frames = run.input_int("n_recorded_frames")
        run.assume(self.n_frames >= 0)

    def sym_truth(self, E):
        return self.n_frames > 0

    def sym_len(self, run):
        return self.n_frames


def _etc_attr(engine, run, obj, attr):
    if isinstance(obj, ETCRecorder):
        if attr == "append":
            return SNative(lambda run2, a, k: obj.calls.append((list(a), dict(k))), "EmulsionTimeCourse.append")
        if attr == "to_file":
            return SNative(lambda run2, a, k: obj.file_calls.append((list(a), dict(k))), "EmulsionTimeCourse.to_file")
    return _MISSING


models.NATIVE_ATTRS.insert(0, _etc_attr)
_orig_getattr = None


def _patch():
    from pyvc import engine as E
    global _orig_getattr
    if _orig_getattr is not None:
        return
    _orig_getattr = E.Engine.getattr

    def getattr2(self, run, obj, attr, fr=None):
        if isinstance(obj, ETCRecorder) and attr in ("append", "to_file"):
            return _etc_attr(self, run, obj, attr)
        return _orig_getattr(self, run, obj, attr, fr)
    E.Engine.getattr = getattr2


_patch()


def sym_setting(run, name):
    """an arbitrary value of a setting: identified by a term, with an arbitrary truth value"""
    return SOpaque(f"setting:{name}", term=z3.Int(f"setting_{name}"), attrs={"truth": z3.Bool(f"setting_{name}_is_truthy")})


@register
class TrackerInit(Contract):
    prefer_variants = {"droplets.image_analysis:locate_droplets": "opaque", "droplets.image_analysis:get_length_scale": "opaque"}
    key = f"{TRK}:DropletTracker.__init__"
    modular = False

    def cases(self):
        return [dict(tc="given"), dict(tc="none")]

    def setup(self, run, case):
        me = SObj(source.get_class(TRK, "DropletTracker"))
        vals = {s: sym_setting(run, s) for s in SETTINGS + ("source", "filename", "interrupts")}
        tc = ETCRecorder(run) if case["tc"] == "given" else None
        self.ctx = (me, vals, tc)
        a = dict(self=me, interrupts=vals["interrupts"], filename=vals["filename"], emulsion_timecourse=tc, source=vals["source"])
        a.update({s: vals[s] for s in SETTINGS})
        return a

    def call(self, engine, run, fi, a, case):
        models.CONSTRUCTORS["EmulsionTimeCourse"] = lambda eng, run2, cls, args, kw: ETCRecorder(run2) if not args and not kw else \
            (_ for _ in ()).throw(Undecided("EmulsionTimeCourse(...) with arguments"))
        kw = {k: v for k, v in a.items() if k not in ("self", "interrupts", "filename")}
        return engine.call_function(run, fi, [a["self"], a["interrupts"], a["filename"]], kw)

    def post(self, a, ret, case):
        me, vals, tc = self.ctx
        out = []
        for s in SETTINGS + ("source", "filename"):
            out.append((f"setting `{s}` is stored under its own name", me.fields.get(s) is vals[s]))
        d = me.fields.get("data")
        if case["tc"] == "given":
            out.append(("a supplied time course is used for the data", d is tc))
        else:
            out.append(("without a supplied time course a new empty one is created", isinstance(d, ETCRecorder) and not d.calls))
        return out


def sym_tracker(run, with_filename=None):
    me = SObj(source.get_class(TRK, "DropletTracker"))
    vals = {s: sym_setting(run, s) for s in SETTINGS + ("source",)}
    me.fields.update(vals)
    me.fields["data"] = ETCRecorder(run)
    me.fields["filename"] = with_filename
    return me, vals


@register
class TrackerHandle(Contract):
    prefer_variants = {"droplets.image_analysis:locate_droplets": "opaque", "droplets.image_analysis:get_length_scale": "opaque"}
    """DropletTracker.handle(field, t): appends L(extract(field, source), the tracker's settings) with time t"""
    key = f"{TRK}:DropletTracker.handle"
    modular = False

    def cases(self):
        return [dict(t="symbolic"), dict(t="zero")]

    def setup(self, run, case):
        me, vals = sym_tracker(run)
        # the simulation state may or may not be a plain ScalarField (symbolic: both are explored) - the tracker's `source` applies in either case
        is_sf = run.input_bool("state_is_a_ScalarField")
        field = SOpaque("fields", term=z3.Int("fields"), attrs={"isinstance": lambda run2, n_, is_sf=is_sf: is_sf if n_.endswith("ScalarField") else False})
        t = run.input_real("t") if case["t"] == "symbolic" else 0
        self.ctx = (run, me, vals, field, t)
        return dict(self=me, field=field, t=t)

    def post(self, a, ret, case):
        run, me, vals, field, t = self.ctx
        ex = run.ghost.get("calls:extract_field", [])
        lo = run.ghost.get("calls:locate_droplets", [])
        data = me.fields.get("data")
        out = [("the scalar field is extracted once from the supplied state with the tracker's source",
                len(ex) == 1 and ex[0]["args"][0] is field and ex[0]["args"][1] is vals["source"])]
        if len(lo) != 1:
            return out + [("droplets are located exactly once per frame", False)]
        c = lo[0]
        out.append(("droplets are located in the extracted field", len(c["args"]) == 1 and len(ex) == 1 and c["args"][0] is ex[0]["result"]))
        want = dict(threshold=vals["threshold"], refine=vals["refine"], refine_args=vals["refine_args"], modes=vals["perturbation_modes"],
                    minimal_radius=vals["minimal_radius"])
        for k, v in want.items():
            out.append((f"analysis option `{k}` is the tracker's setting", c["kwargs"].get(k) is v))
        out.append(("no other analysis option is set (defaults as in the offline analysis)", set(c["kwargs"]) == set(want)))
        calls = data.calls if isinstance(data, ETCRecorder) else None
        if not calls or len(calls) != 1:
            return out + [("the result is appended exactly once to the recorded time course", False)]
        args, kw = calls[0]
        tt = args[1] if len(args) > 1 else kw.get("time")
        out.append(("the located emulsion is what is appended", args[0] is c["result"]))
        out.append(("it is appended with the frame's time (also for t == 0) and the default copy behaviour",
                    (tt is t or (not isinstance(t, int) and z3.is_expr(tt) and z3.eq(tt, t)) or (isinstance(t, int) and tt == t and tt is not None))
                    and "copy" not in kw and len(args) <= 2))
        return out


@register
class TrackerFinalize(Contract):
    prefer_variants = {"droplets.image_analysis:locate_droplets": "opaque", "droplets.image_analysis:get_length_scale": "opaque"}
    key = f"{TRK}:DropletTracker.finalize"
    modular = False

    def cases(self):
        return [dict(filename="given"), dict(filename="none")]

    def setup(self, run, case):
        fn = "out.hdf5" if case["filename"] == "given" else None
        me, vals = sym_tracker(run, fn)
        self.ctx = (me, fn)
        return dict(self=me, info=SOpaque("info"))

    def post(self, a, ret, case):
        me, fn = self.ctx
        fc = me.fields["data"].file_calls
        if fn is None:
            return [("without a filename nothing is written", fc == [])]
        return [("the recorded time course itself is written to the given file - also when no frame was recorded (the file must read back equal to the "
                 "recorded data, not keep an earlier run's content)", len(fc) == 1 and fc[0][0] == [fn] and not fc[0][1])]


@register
class LengthScaleHandle(Contract):
    prefer_variants = {"droplets.image_analysis:locate_droplets": "opaque", "droplets.image_analysis:get_length_scale": "opaque"}
    """LengthScaleTracker.handle: records exactly the value of the analysis (NaN if it raises anything) and never raises"""
    key = f"{TRK}:LengthScaleTracker.handle"
    modular = False

    def cases(self):
        return [dict(verbose=v) for v in (False, True)]

    def setup(self, run, case):
        from .collections import sym_real_list
        me = SObj(source.get_class(TRK, "LengthScaleTracker"))
        times, ls = sym_real_list(run, "times"), sym_real_list(run, "scales")
        nanflag = z3.Function("scale_is_nan", I, z3.BoolSort())
        ls.nan = nanflag

        def unwrap(run2, v, ls=ls):
            L = to_z3(ls.length)
            if isinstance(v, SMaybeNaN):
                run2.ghost["appended_nan"] = v.isnan
                return to_real(v.val)
            run2.ghost["appended_nan"] = False
            return to_real(v)
        ls.unwrap = unwrap
        run.assume(to_z3(times.length) == to_z3(ls.length))
        vals = dict(method=sym_setting(run, "method"), source=sym_setting(run, "source"))
        me.fields.update(vals)
        me.fields.update(times=times, length_scales=ls, verbose=case["verbose"], _logger=SOpaque("logger"), filename=None)
        # the simulation state may or may not be a plain ScalarField (symbolic: both are explored) - the tracker's `source` applies in either case
        is_sf = run.input_bool("state_is_a_ScalarField")
        field = SOpaque("fields", term=z3.Int("fields"), attrs={"isinstance": lambda run2, n_, is_sf=is_sf: is_sf if n_.endswith("ScalarField") else False})
        t = run.input_real("t")
        self.ctx = (run, me, vals, field, t, times.elems, ls.elems, to_z3(times.length))
        return dict(self=me, field=field, t=t)

    def post(self, a, ret, case):
        run, me, vals, field, t, T0, S0, n = self.ctx
        times, ls = me.fields["times"], me.fields["length_scales"]
        ex = run.ghost.get("calls:extract_field", [])
        gl = run.ghost.get("calls:get_length_scale", [])
        k = z3.Int("hk")
        out = [("the analysis is run once on the field extracted with the tracker's source, with the tracker's method",
                len(gl) == 1 and len(ex) == 1 and gl[0]["args"][0] is ex[0]["result"] and ex[0]["args"][0] is field and
                ex[0]["args"][1] is vals["source"] and gl[0]["kwargs"].get("method") is vals["method"] and set(gl[0]["kwargs"]) == {"method"}),
               ("times and length scales grow together by one", z3.And(to_z3(times.length) == n + 1, to_z3(ls.length) == n + 1)),
               ("earlier records are untouched", z3.ForAll([k], z3.Implies(z3.And(k >= 0, k < n), z3.And(
                   z3.Select(times.elems, k) == z3.Select(T0, k), z3.Select(ls.elems, k) == z3.Select(S0, k))))),
               ("the frame's time is recorded", z3.Select(times.elems, n) == t)]
        outcome = run.ghost.get("gls_outcome")
        isnan = run.ghost.get("appended_nan")
        if outcome == "value":
            out.append(("the recorded value is exactly what the analysis returned",
                        z3.And(z3.Not(to_z3(isnan)), z3.Select(ls.elems, n) == run.ghost["gls_value"])))
        else:
            out.append((f"not-a-number is recorded when the analysis fails ({outcome})", to_z3(isnan)))
        return out

    def raises(self, a, exc, case):
        return [(f"the tracker never raises (a failing analysis raised {exc.cls_name})", False)]


# ---------------------------------------------------------------------------------------------------
class _JsonFile:
    """Path(filename).open("w") as a context manager; records what json.dump writes into it"""

    def __init__(self, g, name):
        self.g, self.name = g, name

    def sym_getattr(self, run, attr):
        if attr == "open":
            def op(run2, a, k):
                self.g["opened"].append((self.name, list(a), dict(k)))
                return self
            return SNative(op, "Path.open")
        if attr == "__enter__":
            return SNative(lambda run2, a, k: self, "enter")
        if attr == "__exit__":
            return SNative(lambda run2, a, k: False, "exit")
        return _MISSING


@models.external("pathlib.Path")
def _path(engine, run, a, k):
    g = run.ghost.get("lsfin")
    if g is None:
        raise Undecided("Path(...) outside the LengthScaleTracker.finalize contract")
    return _JsonFile(g, a[0] if a else None)


@models.external("json.dump")
def _json_dump(engine, run, a, k):
    g = run.ghost.get("lsfin")
    if g is None:
        raise Undecided("json.dump outside the LengthScaleTracker.finalize contract")
    g["dumps"].append((list(a), dict(k)))
    run.trust("ASSUMED (json.dump with default options): writes lists of floats incl. NaN (as the token NaN, read back as nan by json.load) and raises nothing for them")
    return None


@register
class LengthScaleFinalize(Contract):
    """LengthScaleTracker.finalize: dumps exactly the two recorded lists, never raises - also when not-a-number entries were recorded"""
    key = f"{TRK}:LengthScaleTracker.finalize"
    modular = False

    def cases(self):
        return [dict(filename="given"), dict(filename="none")]

    def setup(self, run, case):
        from .collections import sym_real_list
        me = SObj(source.get_class(TRK, "LengthScaleTracker"))
        times, ls = sym_real_list(run, "times"), sym_real_list(run, "scales")
        fn = "scales.json" if case["filename"] == "given" else None
        me.fields.update(times=times, length_scales=ls, filename=fn, _logger=SOpaque("logger"), verbose=False)
        run.ghost["lsfin"] = dict(opened=[], dumps=[])
        self.ctx = (run, me, times, ls, fn)
        return dict(self=me, info=SOpaque("info"))

    def post(self, a, ret, case):
        run, me, times, ls, fn = self.ctx
        g = run.ghost["lsfin"]
        if fn is None:
            return [("without a filename nothing is written", not g["opened"] and not g["dumps"])]
        out = [("the given file is opened once, for writing", len(g["opened"]) == 1 and g["opened"][0][0] == fn and g["opened"][0][1] == ["w"])]
        ok = len(g["dumps"]) == 1
        out.append(("the records are written by one json.dump", ok))
        if ok:
            args, kw = g["dumps"][0]
            data = args[0] if args else None
            out.append(("what is written are exactly the recorded times and length scales (the tracker's own lists, nothing dropped or converted)",
                        isinstance(data, dict) and set(data) == {"times", "length_scales"} and data["times"] is times and data["length_scales"] is ls))
            out.append((f"json.dump is called with its default options (got {sorted(kw)}): not-a-number entries, recorded for frames whose analysis failed, "
                        "must be writable - the tracker never raises", not kw and len(args) == 2))
        return out

    def raises(self, a, exc, case):
        return [(f"finalize never raises (raised {exc.cls_name})", False)]
