"""C15: the serial and the multi-process branch of refine_droplets / EmulsionTimeCourse.from_storage compute the same list.

The per-item work (refine_droplet / locate_droplets) is an uninterpreted deterministic function of its argument *values*
(assumption A-DET, validated by the bounded tier).  Assumed contract of `concurrent.futures.Executor.map(f, xs)`: it yields
f(x) for x in xs in input order, whatever max_workers is and whatever order the workers finish in.  Under these the two branches
of each function are proved to build the very same filter-map over the input sequence."""
from __future__ import annotations

import ast

import z3

from pyvc import models, source
from pyvc.bounded import Bounded
from pyvc.contract import Contract, register
from pyvc.engine import Frame, SymRaise, _MISSING
from pyvc.values import SExc, SKw, SNative, SObj, SOpaque, SSeq, Undecided, to_z3

IA = "droplets.image_analysis"
EM = "droplets.emulsions"
I, B = z3.IntSort(), z3.BoolSort()


class SMaybeNone:
    """value of an uninterpreted call that may be None: (term, isnone)"""

    def __init__(self, term, isnone, call=None):
        self.term, self.isnone, self.call = term, isnone, call

    def sym_compare(self, run, op, other, reflected):
        if other is None and isinstance(op, (ast.Is, ast.IsNot)):
            return self.isnone if isinstance(op, ast.Is) else z3.Not(self.isnone)
        return NotImplemented

    def __repr__(self):
        return f"MaybeNone({self.term})"


class SFilterMap:
    """[val(i) for i in range(n) if keep(i)] over the index space of a symbolic-length source sequence"""

    def __init__(self, n, keep, val, src):
        self.n, self.keep, self.val, self.src = n, keep, val, src


_orig_symcomp = models.symbolic_comprehension


def _symbolic_comprehension(engine, run, node, gen, seq, cfr):
    if not gen.ifs:
        return _orig_symcomp(engine, run, node, gen, seq, cfr)

    def both(i):
        fr2 = Frame(cfr.info, {}, cfr.closure, cfr.modinfo, cfr.self_cls)
        engine.assign(run, gen.target, seq.at(i), fr2)
        conds = [to_z3(engine.truth(run, engine.ev(run, c, fr2))) for c in gen.ifs]
        return z3.And(*conds) if len(conds) > 1 else conds[0], engine.ev(run, node.elt, fr2)
    memo = {}

    def at(i):
        k = i.get_id() if z3.is_expr(i) else i
        if k not in memo:
            memo[k] = both(i)
        return memo[k]
    return SFilterMap(seq.length, lambda i: at(i)[0], lambda i: at(i)[1], seq)


models.symbolic_comprehension = _symbolic_comprehension


# --- assumed contract of concurrent.futures ------------------------------------------------------------------------------
class SRepeat:
    """itertools.repeat(value): the same value for every item"""

    def __init__(self, value):
        self.value = value


@models.external("itertools.repeat")
def _repeat(engine, run, a, k):
    if len(a) != 1 or k:
        raise Undecided("itertools.repeat with a count")
    return SRepeat(a[0])


class SExecutor:
    def __init__(self, engine, max_workers):
        self.engine, self.max_workers = engine, max_workers

    def sym_enter(self, run):
        return self

    def sym_getattr(self, run, attr):
        if attr == "map":
            def do_map(run2, a, k):
                if len(a) < 2 or k:
                    raise Undecided("Executor.map with options")
                f = a[0]
                finite = [x for x in a[1:] if not isinstance(x, SRepeat)]
                if len(finite) != 1:
                    raise Undecided("Executor.map with several finite iterables")
                xs = finite[0]
                seq0 = self.engine.iterate(run2, xs)
                if isinstance(seq0, list):
                    seq0 = SSeq(len(seq0), lambda i, seq0=seq0: seq0[i], "list")
                if len(a) > 2:
                    # several iterables, all but one of them itertools.repeat(value): item i is the tuple of arguments (map stops with the shortest)
                    class _Zip:
                        length = seq0.length

                        @staticmethod
                        def at(i):
                            return tuple(x.value if isinstance(x, SRepeat) else seq0.at(i) for x in a[1:])
                    seq = _Zip
                    call = lambda i: self.engine.invoke(run2, f, list(seq.at(i)), {})       # noqa: E731
                else:
                    seq = seq0
                    call = lambda i: self.engine.invoke(run2, f, [seq.at(i)], {})           # noqa: E731
                run2.trust("ASSUMED contract (concurrent.futures): Executor.map(f, xs) yields f(x) for x in xs in input order, "
                           "evaluated on value-exact (pickled) copies, independent of max_workers and of worker completion order")
                run2.ghost.setdefault("executor_maps", []).append(dict(f=f, xs=xs, max_workers=self.max_workers))
                memo = {}

                def at(i):
                    key = i.get_id() if z3.is_expr(i) else i
                    if key not in memo:
                        memo[key] = call(i)
                    return memo[key]
                return SSeq(seq.length, at, "executor.map", "iter")
            return SNative(do_map, "Executor.map")
        raise Undecided(f"concurrent.futures.Executor.{attr} has no assumed contract (only the order-preserving `map` has)")


@models.external("concurrent.futures.ProcessPoolExecutor", "concurrent.futures.ThreadPoolExecutor")
def _ppe(engine, run, a, k):
    mw = k.get("max_workers", a[0] if a else None)
    run.ghost.setdefault("executors", []).append(mw)
    return SExecutor(engine, mw)


@models.external("pde.tools.output.display_progress")
def _display_progress(engine, run, a, k):
    run.trust("A-PDE: display_progress(iterable, ...) yields the items of the iterable unchanged and in order")
    return a[0]


# --- the per-item functions as uninterpreted deterministic functions --------------------------------------------------------
def ident_of(v):
    """a term identifying a value for the purpose of determinism (object identity of opaque inputs, value otherwise)"""
    if isinstance(v, (SOpaque, SMaybeNone)):
        return ("t", v.term.get_id())
    if isinstance(v, SKw):
        return ("kw", v.term.get_id() if v.term is not None else id(v))
    if z3.is_expr(v):
        return ("z", v.get_id())
    if isinstance(v, dict):
        return ("d", tuple(sorted((k, ident_of(x)) for k, x in v.items())))
    if isinstance(v, (bool, int, str, type(None))):
        return ("c", v)
    return ("o", id(v))


class PerItem:
    """uninterpreted function F(args, kwargs) -> term (+ may-be-None flag); equal argument identities give the same term"""

    def __init__(self, name, may_be_none):
        self.name, self.may_be_none = name, may_be_none

    def call(self, run, args, kwargs):
        tab = run.ghost.setdefault("peritem:" + self.name, {})
        kw = {k: v for k, v in kwargs.items() if k != "**"}
        key = (tuple(ident_of(a) for a in args), tuple(sorted((k, ident_of(v)) for k, v in kw.items())),
               ident_of(kwargs["**"]) if "**" in kwargs else None)
        if key not in tab:
            n = len(tab)
            t = z3.Int(f"{self.name}_result_{n}")
            r = SMaybeNone(t, z3.Bool(f"{self.name}_isnone_{n}") if self.may_be_none else z3.BoolVal(False))
            r.call = dict(args=list(args), kwargs=kw, bundle=kwargs.get("**"))
            tab[key] = r
        run.ghost.setdefault("calls:" + self.name, []).append(tab[key])
        return tab[key]


@register
class RefineDropletPerItem(Contract):
    key = f"{IA}:refine_droplet"
    variant = "per-item"
    call_site = True

    def cases(self):
        return []

    def apply(self, engine, run, fi, args, kwargs):
        run.trust("A-DET: refine_droplet is a deterministic function of the values of (image, candidate, options); it may return None")
        return PerItem("refine_droplet", True).call(run, args, kwargs)


@register
class LocateDropletsPerItem(Contract):
    key = f"{IA}:locate_droplets"
    variant = "per-item"
    call_site = True

    def cases(self):
        return []

    def apply(self, engine, run, fi, args, kwargs):
        run.trust("A-DET: locate_droplets is a deterministic function of the values of (field, options)")
        return PerItem("locate_droplets", False).call(run, args, kwargs)


def sym_items(run, name):
    n = run.input_int(f"n_{name}")
    run.assume(n >= 0)
    f = z3.Function(f"{name}_item", I, I)
    return SSeq(n, lambda i: SOpaque(f"{name}[{i}]", term=f(to_z3(i))), name, "list"), n, f


NUMPROC = ("one", "auto", "other")


def numproc_value(run, which):
    if which == "one":
        return 1
    if which == "auto":
        return "auto"
    p = run.input_int("num_processes")
    run.assume(z3.And(p != 1, p >= 2))
    return p


def filtermap_clauses(run, ret, n, item, fname, first_args, want_kwargs, bundle, what):
    """clauses: `ret` is the list [F(first_args..., x_i, **options) for i < n if that is not None], in input order"""
    out = []
    i = z3.Int("sk_i")   # Skolem index
    if isinstance(ret, SFilterMap):
        length, keep, val = ret.n, ret.keep, ret.val
    elif isinstance(ret, SSeq):
        length, keep, val = ret.length, (lambda j: z3.BoolVal(True)), ret.at
    elif isinstance(ret, list) and not ret:
        return [(f"{what}: one entry per input item", to_z3(n) == 0)]
    else:
        return [(f"{what}: the result is built by an order-preserving pass over the input sequence", False)]
    out.append((f"{what}: the pass runs over exactly the input items (index space [0, n))", to_z3(length) == to_z3(n)))
    v = val(i)
    kp = keep(i)
    if not isinstance(v, SMaybeNone) or v.call is None:
        return out + [(f"{what}: entry i is the result of {fname} for input item i", False)]
    c = v.call
    pos_ok = len(c["args"]) == len(first_args) + 1 and all(a is b for a, b in zip(c["args"], first_args))
    x = c["args"][len(first_args)] if len(c["args"]) > len(first_args) else None
    item_ok = isinstance(x, SOpaque) and x.term is not None and z3.eq(z3.simplify(x.term), z3.simplify(item(i)))
    out.append((f"{what}: entry i is computed from input item i (input order is kept; no item is skipped, repeated or permuted)",
                bool(pos_ok and item_ok)))
    kw_ok = set(c["kwargs"]) == set(want_kwargs) and all(
        (c["kwargs"][k] is w) or (z3.is_expr(w) and z3.is_expr(c["kwargs"][k]) and z3.eq(c["kwargs"][k], w)) or
        (not z3.is_expr(w) and not isinstance(w, (SOpaque, SKw)) and c["kwargs"][k] == w) for k, w in want_kwargs.items())
    out.append((f"{what}: every item is processed with the caller's options, all of them and nothing else",
                bool(kw_ok and c["bundle"] is bundle)))
    out.append((f"{what}: an entry is dropped exactly when {fname} returned None",
                z3.simplify(to_z3(kp)) if False else (to_z3(kp) == z3.Not(v.isnone))))
    return out


@register
class RefineDropletsBranches(Contract):
    prefer_variants = {"droplets.image_analysis:locate_droplets": "per-item", "droplets.image_analysis:refine_droplet": "per-item"}
    """refine_droplets(field, candidates, num_processes=p, **options) == [r for c in candidates if (r := refine_droplet(field, c,
    **options)) is not None] for every p"""
    key = f"{IA}:refine_droplets"
    variant = "branches"
    modular = False

    def cases(self):
        return [dict(num_processes=p) for p in NUMPROC]

    def setup(self, run, case):
        field = SOpaque("phase_field", term=z3.Int("phase_field"))
        cands, n, item = sym_items(run, "candidates")
        bundle = SKw("options", term=z3.Int("options"))
        self.ctx = (run, field, cands, n, item, bundle)
        return dict(phase_field=field, candidates=cands, num_processes=numproc_value(run, case["num_processes"]), bundle=bundle)

    def call(self, engine, run, fi, a, case):
        return engine.call_function(run, fi, [a["phase_field"], a["candidates"]], {"num_processes": a["num_processes"], "**": a["bundle"]})

    def post(self, a, ret, case):
        run, field, cands, n, item, bundle = self.ctx
        out = filtermap_clauses(run, ret, n, item, "refine_droplet", [field], {}, bundle, "refine_droplets")
        maps = run.ghost.get("executor_maps", [])
        if case["num_processes"] == "one":
            out.append(("num_processes == 1 works in this process (no executor)", not run.ghost.get("executors")))
        else:
            ex = run.ghost.get("executors", [])
            want = None if case["num_processes"] == "auto" else a["num_processes"]
            out.append(("the worker count only selects the pool size (auto -> None)", len(ex) == 1 and (ex[0] is want or (
                z3.is_expr(want) and z3.is_expr(ex[0]) and z3.eq(ex[0], want)))))
            out.append(("the pool is used through the order-preserving map, once", len(maps) == 1))
        return out


# EmulsionTimeCourse(emulsions, times=...) seen from from_storage: recorded
class ETCCtor(SObj):
    def __init__(self, cls, args, kwargs):
        super().__init__(cls, {})
        self.args, self.kwargs = args, kwargs


@register
class FromStorageBranches(Contract):
    prefer_variants = {"droplets.image_analysis:locate_droplets": "per-item", "droplets.image_analysis:refine_droplet": "per-item"}
    """EmulsionTimeCourse.from_storage(storage, num_processes=p, refine=r, **options): frame k of the result is
    locate_droplets(frame k of the storage, refine=r, **options), paired with storage.times, for every p"""
    key = f"{EM}:EmulsionTimeCourse.from_storage"
    variant = "branches"
    modular = False

    def cases(self):
        return [dict(num_processes=p, progress=g) for p in NUMPROC for g in ("none", "given")][:5]

    def setup(self, run, case):
        frames, n, item = sym_items(run, "frames")
        times = SOpaque("storage.times", term=z3.Int("storage_times"))

        class Storage(SOpaque):
            def sym_iter(self_inner, run2):
                return frames

            def sym_getattr(self_inner, run2, attr):
                if attr == "times":
                    return times
                return _MISSING
        storage = Storage("storage", term=z3.Int("storage"))
        refine = SOpaque("refine", term=z3.Int("refine_flag"), attrs={"truth": z3.Bool("refine_is_truthy")})
        bundle = SKw("options", term=z3.Int("options"))
        progress = None if case["progress"] == "none" else SOpaque("progress", term=z3.Int("progress"), attrs={"truth": z3.Bool("progress_truthy")})
        self.ctx = (run, frames, n, item, times, refine, bundle)
        cls = source.get_class(EM, "EmulsionTimeCourse")
        models.CONSTRUCTORS["EmulsionTimeCourse"] = lambda eng, run2, c, args, kw: ETCCtor(c, list(args), dict(kw))
        from pyvc.values import SClassRef
        return dict(cls=SClassRef(cls), storage=storage, num_processes=numproc_value(run, case["num_processes"]), refine=refine,
                    progress=progress, bundle=bundle)

    def call(self, engine, run, fi, a, case):
        return engine.call_function(run, fi, [a["cls"], a["storage"]],
                                    {"num_processes": a["num_processes"], "refine": a["refine"], "progress": a["progress"], "**": a["bundle"]})

    def post(self, a, ret, case):
        run, frames, n, item, times, refine, bundle = self.ctx
        if not isinstance(ret, ETCCtor):
            return [("returns cls(emulsions, times=storage.times)", False)]
        ems = ret.args[0] if ret.args else ret.kwargs.get("emulsions")
        out = [("the time stamps are the storage's, as a whole and in order", ret.kwargs.get("times") is times and len(ret.args) <= 1)]
        out += filtermap_clauses(run, ems, n, item, "locate_droplets", [], {"refine": refine}, bundle, "from_storage")
        if isinstance(ems, SFilterMap):
            out.append(("no frame is dropped", False))
        if case["num_processes"] != "one":
            ex = run.ghost.get("executors", [])
            want = None if case["num_processes"] == "auto" else a["num_processes"]
            out.append(("the worker count only selects the pool size (auto -> None)", len(ex) == 1 and (ex[0] is want or (
                z3.is_expr(want) and z3.is_expr(ex[0]) and z3.eq(ex[0], want)))))
        return out
