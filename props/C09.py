"""C09 -- analysis never aborts on valid input and returns finite droplets."""
from contracts import collections as co, droplets as dr, locate as lc, locmask as lm, parallel, refine as rf, render as rd, robust, tracks as tk

LEVEL = "other"
LEVEL_TEXT = ("Crash-freedom is decided as the sum of the implicit obligations (divisor != 0, index in range, call arity, None not dereferenced, roots of "
              "non-negative numbers) and callee preconditions generated while verifying, for ALL inputs, the functions on the analysis paths: "
              "rendering (get_phase_field / _get_phase_field of all five classes, polar_coordinates: found F3 call arity and F4 division by a zero "
              "distance; dimension mismatch raises ValueError), locate_droplets (every threshold rule x class request x grid family; modes > 0 in "
              "one dimension raises ValueError, a non-field TypeError, an unknown grid NotImplementedError - and nothing else), "
              "locate_droplets_in_mask (dispatch), _locate_droplets_in_mask_cartesian (whole body, all periodicity masks: indices in range, "
              "divisor v_l + v_h != 0), _spherical and both cylindrical functions (empty on-axis selection -> empty emulsion: F1), SphericalDroplet.from_volume (finite radius >= 0 for volume >= 0), from_droplet, "
              "refine_droplet up to the optimiser call (least_squares requires a feasible finite start: found F10), "
              "DropletTrack.__init__/append, both matchers of from_emulsion_time_course as a whole (scipy cdist requires non-empty inputs: found F5; matrix and list indices in range) and its frame loop (unknown method -> ValueError). "
              "Each historical defect F1..F5, F10 re-appears as a named failed obligation (or, for the cylindrical path, a fuzz violation) when "
              "its fix is reverted. NOT proved: the optimiser internals (least_squares / minimize_scalar "
              "black boxes), finiteness of fitted parameters - these are covered by the seeded "
              "fuzz over the documented request space (bounded) - hence level 'other'.")
LEVEL_NOTE = ("ASSUMED: contracts of numpy / scipy.ndimage / scipy.optimize.least_squares / scipy cdist / py-pde grids as listed in the evidence; "
              "A-FP (NaN/inf from float overflow are not modelled); everything behind the optimiser call is bounded only")
CONTRACTS = [c.ident for c in (rd.PolarCoordinates(), rd.GetPhaseField(), rd.BinaryImage(), rd.DimensionMismatch(), lc.LocateDroplets(), lc.FromDroplet(),
                               lm.LocateInMaskDispatch(), lm.LocateCartesian(), lm.LocateSpherical(), lm.LocateCylSingle(), lm.LocateCylWrapper(), dr.FromVolume(), rf.RefineDroplet(),
                               tk.TrackInit(), tk.MatchDistancePre(), tk.MatchOverlap(), tk.MatchDistanceLoops(), tk.FromTimeCourse(), co.TrackAppend())]
LEMMAS = []
CLAUSES = {"rendering any valid droplet on a compatible grid completes, finite field": "proved (cell-wise) modulo A-PDE; mismatch -> ValueError proved",
           "locating in any finite field, any documented option combination": "proved for all grid families up to the optimiser; refinement internals bounded",
           "tracking any time course incl. empty frames": "both matchers and the frame loop proved call-safe; whole courses also fuzzed",
           "only documented invalid requests raise, with the documented error": "proved for locate_droplets / get_phase_field",
           "returned droplets are finite": "from_volume proved; fitted parameters bounded"}
BOUNDED = [robust.AnalysisFuzz()]
