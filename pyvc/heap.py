"""Boogie-style heap for objects that live in collections of symbolic length.

References are z3 Ints.  Per field there is one z3 array (`run.heap.arr[name]`), updated functionally on
writes.  `alloc0` bounds the references that exist in the pre-state; new objects get alloc0, alloc0+1, ...
so a new reference is distinct from every earlier one.

  droplet object   ref --data--> record ref --radius/width/...--> value ; position(rec, j), amplitudes(rec, j)
  list object      length + elems : Int -> ref     (Emulsion, DropletTrackList, python lists of symbolic length)
  matrix           n + at(i, j)                    (numpy 2-d float arrays of symbolic size)
"""
from __future__ import annotations

import ast
from fractions import Fraction

import z3

from . import ops
from .values import (SArr, SClassRef, SExc, SMaybeNaN, SNative, SObj, SRec, SSeq, Undecided, const_of, is_num, is_z3,
                     to_real, to_z3)

I, Rl, B = z3.IntSort(), z3.RealSort(), z3.BoolSort()


def INF():
    """np.inf as a real constant larger than every finite quantity a precondition declares finite."""
    return z3.Real("INF")


class Heap:
    def __init__(self, run):
        self.run = run
        self.arr = {}
        self.alloc0 = z3.Int("alloc0")
        self.ptr = self.alloc0          # next free reference (symbolic allocation pointer)
        self.layout = {}     # record kind -> {field: kind}

    def array(self, name, nidx=1, sort=None):
        if name not in self.arr:
            self.arr[name] = z3.Array(f"H_{name}", *([I] * nidx), sort if sort is not None else Rl)
        return self.arr[name]

    VEC = 4      # vector fields (position, dim <= 3) are flattened: index = ref * VEC + j  (standard 1-index arrays)

    def _flat(self, name, idx):
        if name in self.FLAT and len(idx) == 2:
            return (to_z3(idx[0]) * self.VEC + to_z3(idx[1]),)
        return tuple(to_z3(i) for i in idx)

    FLAT = {"position"}

    def read(self, name, *idx, sort=None):
        idx = self._flat(name, idx)
        return z3.Select(self.array(name, len(idx), sort), *idx)

    def write(self, name, val, *idx, sort=None):
        idx = self._flat(name, idx)
        a = self.array(name, len(idx), sort)
        v = to_z3(val)
        if a.range() == Rl and z3.is_int(v):
            v = z3.ToReal(v)
        self.arr[name] = z3.Store(a, *idx, v)

    def new_ref(self):
        r = self.ptr
        self.ptr = self.ptr + 1
        return r

    def havoc_ptr(self):
        """at a loop cut: an unknown number of allocations has happened"""
        old = self.ptr
        self.ptr = self.run.fresh_int("ptr")
        self.run.assume(self.ptr >= old)

    def allocated(self, ref):
        """well-formedness of a reference that exists in the pre-state"""
        return z3.And(ref >= 0, ref < self.alloc0)

    def havoc(self, names):
        for nm in names:
            if nm in self.arr:
                a = self.arr[nm]
                self.arr[nm] = z3.Const(f"H_{nm}!{next(self.run.counter)}", a.sort())


def heap_of(run) -> Heap:
    h = run.ghost.get("__heap__")
    if h is None:
        h = Heap(run)
        run.ghost["__heap__"] = h
    return h


class _VecProxy:
    """list-like view of a vector field of a heap record"""

    def __init__(self, rec, field, n):
        self.rec, self.field, self.n = rec, field, n

    def __len__(self):
        return self.n

    def __getitem__(self, k):
        if isinstance(k, slice):
            return [self[j] for j in range(*k.indices(self.n))]
        if k < 0:
            k += self.n
        return self.rec.heap.read(self.field, self.rec.ref, k)

    def __setitem__(self, k, v):
        if isinstance(k, slice):
            idx = list(range(*k.indices(self.n)))
            vals = list(v)
            if len(vals) != len(idx):
                raise Undecided("resizing a record field")
            for j, x in zip(idx, vals):
                self.rec.heap.write(self.field, x, self.rec.ref, j)
            return
        if k < 0:
            k += self.n
        self.rec.heap.write(self.field, v, self.rec.ref, k)

    def __iter__(self):
        return iter([self[j] for j in range(self.n)])


class SHeapVec(SArr):
    def __init__(self, rec, field, n):
        self.elems = _VecProxy(rec, field, n)
        self.ndim = 1
        self.kind = "float"
        self.rec = rec
        self.field = field

    def copy(self):
        return SArr(list(self.elems), 1, "float")


class SRecRef(SRec):
    """numpy record stored on the heap.  `layout`: field -> 'real' | 'maybe_nan' | ('vec', n) | ('seq', length term)"""

    def __init__(self, run, ref, layout, name="rec"):
        self.run = run
        self.heap = heap_of(run)
        self.ref = ref
        self.layout = layout
        self.name = name

    @property
    def fields(self):
        return {k: self.get(k) for k in self.layout}

    def names(self):
        return list(self.layout)

    def get(self, k):
        if k not in self.layout:
            raise KeyError(k)
        kind = self.layout[k]
        if kind == "real":
            return self.heap.read(k, self.ref)
        if kind == "maybe_nan":
            return SMaybeNaN(self.heap.read(k + "__nan", self.ref, sort=B), self.heap.read(k, self.ref))
        if kind[0] == "vec":
            return SHeapVec(self, k, kind[1])
        if kind[0] == "seq":
            arr_now = self.heap.array(k, 2)
            ref = self.ref
            return SSeq(kind[1], lambda i: z3.Select(arr_now, ref, to_z3(i)), f"{self.name}.{k}", "array")
        raise Undecided(kind)

    def set(self, k, v):
        kind = self.layout[k]
        if kind == "real":
            if isinstance(v, SMaybeNaN):
                raise Undecided("NaN stored into a plain real field")
            self.heap.write(k, v, self.ref)
        elif kind == "maybe_nan":
            if isinstance(v, SMaybeNaN):
                self.heap.write(k + "__nan", v.isnan, self.ref, sort=B)
                self.heap.write(k, v.val, self.ref)
            else:
                self.heap.write(k + "__nan", False, self.ref, sort=B)
                self.heap.write(k, v, self.ref)
        else:
            raise Undecided(f"whole-field store into {k}")

    def copy(self):
        new = self.heap.new_ref()
        out = SRecRef(self.run, new, self.layout, self.name + "'")
        for k, kind in self.layout.items():
            if kind == "real":
                self.heap.write(k, self.heap.read(k, self.ref), new)
            elif kind == "maybe_nan":
                self.heap.write(k + "__nan", self.heap.read(k + "__nan", self.ref, sort=B), new, sort=B)
                self.heap.write(k, self.heap.read(k, self.ref), new)
            elif kind[0] == "vec":
                for j in range(kind[1]):
                    self.heap.write(k, self.heap.read(k, self.ref, j), new, j)
            elif kind[0] == "seq":
                # copy of a symbolic-length vector: row `new` of the 2-index array becomes row `ref`
                a = self.heap.array(k, 2)
                jj = z3.Int("jj")
                rr = z3.Int("rr")
                self.heap.arr[k] = z3.Lambda([rr, jj], z3.If(rr == new, z3.Select(a, self.ref, jj), z3.Select(a, rr, jj)))
        return out


def droplet_layout(cls_name, dim, modes=None):
    lay = {"position": ("vec", dim), "radius": "real"}
    if cls_name != "SphericalDroplet":
        lay["interface_width"] = "maybe_nan"
    if cls_name.startswith("Perturbed"):
        lay["amplitudes"] = ("seq", modes)
    return lay


class _HeapFields:
    """`fields` of a heap object: only `data` (record reference) is stored"""

    def __init__(self, obj):
        self.obj = obj

    def __contains__(self, k):
        return k == "data"

    def __getitem__(self, k):
        if k != "data":
            raise KeyError(k)
        o = self.obj
        return SRecRef(o.run, o.heap.read("data", o.ref, sort=I), o.layout, f"obj{o.oid}.data")

    def __setitem__(self, k, v):
        if k != "data":
            raise Undecided(f"attribute {k} on a heap droplet")
        o = self.obj
        if isinstance(v, SRecRef):
            o.heap.write("data", v.ref, o.ref, sort=I)
        elif isinstance(v, SRec):
            r = promote_record(o.run, v, o.layout)
            o.heap.write("data", r.ref, o.ref, sort=I)
        else:
            raise Undecided("data := non-record")

    def get(self, k, default=None):
        return self[k] if k == "data" else default


class SRefObj(SObj):
    """droplet object on the heap"""

    def __init__(self, run, cls, ref, layout, tag=None):
        SObj._ids += 1
        self.oid = SObj._ids
        self.cls = cls
        self.run = run
        self.heap = heap_of(run)
        self.ref = ref
        self.layout = layout
        self.tag = tag
        self.fields = _HeapFields(self)

    def __repr__(self):
        return f"<heap {self.cls.name} ref={self.ref}>"

    def sym_eq(self, E, other):
        if isinstance(other, SRefObj):
            return self.ref == other.ref
        return False


def promote_record(run, rec: SRec, layout):
    """Move a locally built record onto the heap (fresh record reference)."""
    if isinstance(rec, SRecRef):
        return rec
    h = heap_of(run)
    r = h.new_ref()
    out = SRecRef(run, r, layout, rec.name)
    for k, kind in layout.items():
        v = rec.get(k)
        if kind in ("real", "maybe_nan"):
            out.set(k, v)
        elif kind[0] == "vec":
            for j in range(kind[1]):
                h.write(k, v.elems[j], r, j)
        elif kind[0] == "seq":
            a = h.array(k, 2)
            jj, rr = z3.Int("jj"), z3.Int("rr")
            src = v
            if isinstance(src, SSeq):
                body = to_real(src.at(jj))
            else:
                raise Undecided("promotion of concrete amplitude arrays")
            h.arr[k] = z3.Lambda([rr, jj], z3.If(rr == r, body, z3.Select(a, rr, jj)))
    return out


def promote_object(run, obj: SObj, layout):
    """Give a locally built droplet object a heap identity (fresh object reference)."""
    if isinstance(obj, SRefObj):
        return obj
    h = heap_of(run)
    rec = promote_record(run, obj.fields["data"], layout)
    r = h.new_ref()
    h.write("data", rec.ref, r, sort=I)
    return SRefObj(run, obj.cls, r, layout, tag=obj.tag)


# ---------------------------------------------------------------------------
class SListObj(SObj):
    """A python list (or list subclass instance) of symbolic length holding heap references.

    elem(i) is a z3 Int (reference); `wrap(ref)` builds the python-side value of an element."""

    def __init__(self, run, cls, length, elems, wrap, fields=None, tag=None):
        SObj._ids += 1
        self.oid = SObj._ids
        self.cls = cls                      # ClassInfo of the list subclass or None for a plain list
        self.run = run
        self.length = length
        self.elems = elems                  # z3 array Int -> Int
        self.wrap = wrap
        self.fields = fields if fields is not None else {}
        self.tag = tag

    def __repr__(self):
        return f"<list {self.cls.name if self.cls else 'list'} len={self.length}>"

    # sequence protocol used by the engine / models
    def sym_len(self, run):
        return self.length

    def at(self, i):
        return self.wrap(z3.Select(self.elems, to_z3(i)))

    def sym_iter(self, run):
        elems = self.elems
        return SSeq(self.length, lambda i: self.wrap(z3.Select(elems, to_z3(i))), f"iter({self.tag})", "iter")

    def sym_truth(self, E):
        return to_z3(self.length) > 0

    def raw_getitem(self, run, idx):
        from .engine import SymRaise
        if isinstance(idx, slice):
            lo = 0 if idx.start is None else idx.start
            if idx.stop is None and idx.step is None and const_of(lo) is not None and const_of(lo) >= 0:
                lo = int(const_of(lo))
                L = to_z3(self.length)
                n = z3.If(L > lo, L - lo, z3.IntVal(0))
                k = z3.Int("k")
                return SListObj(run, None, n, z3.Lambda([k], z3.Select(self.elems, k + lo)), self.wrap, tag=f"{self.tag}[{lo}:]")
            raise Undecided("general slice of a symbolic list")
        i = to_z3(idx)
        L = to_z3(self.length)
        c = const_of(idx)
        if c is not None and c < 0:
            i = L + int(c)
            ok = i >= 0
        else:
            ok = z3.And(i >= 0, i < L)
        if getattr(run, "try_depth", 0) > 0:
            if not run.branch(ok):
                raise SymRaise(SExc("IndexError", ("list index out of range",)))
        else:
            run.oblige(f"list index in range ({self.tag})", ok, kind="implicit")
        return self.at(i)

    def raw_pop(self, run, idx=None):
        from .engine import SymRaise
        L = to_z3(self.length)
        i = L - 1 if idx is None else to_z3(idx)
        run.oblige(f"pop index in range ({self.tag})", z3.And(i >= 0, i < L), kind="implicit")
        val = self.at(i)
        k = z3.Int("k")
        old = self.elems
        self.elems = z3.Lambda([k], z3.If(k < i, z3.Select(old, k), z3.Select(old, k + 1)))
        self.length = L - 1
        return val

    def raw_append(self, run, v):
        ref = self.unwrap(run, v)
        L = to_z3(self.length)
        self.elems = z3.Store(self.elems, L, ref)
        self.length = L + 1

    def unwrap(self, run, v):
        if isinstance(v, SRefObj):
            return v.ref
        if hasattr(v, "ref"):
            return v.ref
        if isinstance(v, SObj) and getattr(self, "elem_layout", None):
            return promote_object(run, v, self.elem_layout).ref
        raise Undecided(f"storing {type(v).__name__} into a symbolic list")

    def list_super(self, run, attr):
        return list_method(self, run, attr)


def list_method(lst, run, attr):
    if attr == "append":
        return SNative(lambda run, a, k: lst.raw_append(run, a[-1]), "list.append")
    if attr == "pop":
        return SNative(lambda run, a, k: lst.raw_pop(run, a[-1] if len(a) > (1 if a and a[0] is lst else 0) else None), "list.pop")
    if attr == "__getitem__":
        return SNative(lambda run, a, k: lst.raw_getitem(run, a[-1]), "list.__getitem__")
    if attr == "__init__":
        return SNative(lambda run, a, k: None, "list.__init__")
    if attr == "__repr__":
        return SNative(lambda run, a, k: "<list>", "list.__repr__")
    raise Undecided(f"list.{attr} on a symbolic list")


# ---------------------------------------------------------------------------
class SMat:
    """2-d float array of symbolic size (rows x cols) with entries at(i, j) (reals; INF() for np.inf)."""

    def __init__(self, rows, cols, at, name="mat"):
        self.rows, self.cols, self.at, self.name = rows, cols, at, name

    def sym_len(self, run):
        return self.rows

    def sym_getattr(self, run, attr):
        from .engine import _MISSING
        if attr == "shape":
            return (self.rows, self.cols)
        if attr == "ndim":
            return 2
        return _MISSING

    def sym_getitem(self, run, idx):
        if isinstance(idx, tuple) and len(idx) == 2 and not any(isinstance(x, slice) for x in idx):
            i, j = to_z3(idx[0]), to_z3(idx[1])
            run.oblige(f"matrix index in range ({self.name})",
                       z3.And(i >= 0, i < to_z3(self.rows), j >= 0, j < to_z3(self.cols)), kind="implicit")
            return self.at(i, j)
        raise Undecided(f"matrix index {idx!r}")

    def sym_setitem(self, run, idx, v):
        if isinstance(idx, tuple) and len(idx) == 2:
            i, j = idx
            old = self.at
            if isinstance(i, slice) and i == slice(None):
                jj = to_z3(j)
                val = mat_val(v)
                self.at = lambda a, b: z3.If(b == jj, val, old(a, b))
                return
            if isinstance(j, slice) and j == slice(None):
                ii = to_z3(i)
                val = mat_val(v)
                self.at = lambda a, b: z3.If(a == ii, val, old(a, b))
                return
            ii, jj = to_z3(i), to_z3(j)
            run.oblige(f"matrix index in range ({self.name})",
                       z3.And(ii >= 0, ii < to_z3(self.rows), jj >= 0, jj < to_z3(self.cols)), kind="implicit")
            val = mat_val(v)
            self.at = lambda a, b: z3.If(z3.And(a == ii, b == jj), val, old(a, b))
            return
        if hasattr(idx, "mask_of") and idx.mask_of is self:
            # dists[dists > max_dist] = inf
            old = self.at
            val = mat_val(v)
            pred = idx.pred
            self.at = lambda a, b: z3.If(pred(old(a, b)), val, old(a, b))
            return
        raise Undecided(f"matrix store {idx!r}")

    def sym_compare(self, run, op, other, reflected):
        if reflected or not (is_num(other) or hasattr(other, "sign")):
            return NotImplemented
        o = mat_val(other)
        f = {ast.Gt: lambda x: x > o, ast.GtE: lambda x: x >= o, ast.Lt: lambda x: x < o, ast.LtE: lambda x: x <= o}.get(type(op))
        if f is None:
            return NotImplemented
        return SMask(self, f)

    def sym_havoc(self, run, name):
        f = z3.Function(f"{name}!{next(run.counter)}", I, I, Rl)
        return SMat(run.fresh_int(name + "_rows"), run.fresh_int(name + "_cols"), lambda a, b: f(to_z3(a), to_z3(b)), name)


class SMask:
    def __init__(self, mat, pred):
        self.mask_of = mat
        self.pred = pred


def mat_val(v):
    from .values import SInf
    if isinstance(v, SInf):
        return INF() if v.sign > 0 else -INF()
    return to_real(v)
