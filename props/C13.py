"""C13 -- a perturbed droplet's volume, surface, curvature and outline match its shape."""
from contracts import perturbed as pt, droplets as dr, lemmas
from pyvc.bounded import ContractSampling

LEVEL = "proof"
CONTRACTS = [c.ident for c in (
    pt.SphericalIndexLM(), pt.SphericalIndexK(), pt.SphericalIndexCount(), pt.HarmonicReal(), pt.HarmonicRealK(),
    pt.HarmonicSymmetric(), pt.Distance2D(), pt.Curvature2D(), pt.SurfaceApprox2D(), pt.Volume2D(), pt.VolumeSetter2D(),
    pt.SurfaceArea2D(), pt.Distance3D(), pt.Curvature3D(), pt.DistanceAxi(), pt.CurvatureAxi(), pt.VolumeApprox3D(),
    pt.VolumeApproxAxi(), pt.Volume3D())]
LEMMAS = ["isqrt-unique-and-mode-index-bijection"]
BOUNDED = [ContractSampling("perturbed-contracts-sampled", CONTRACTS,
                            "each method on 10 (quick) / 150 (thorough) seeded droplets: 0-8 modes incl. odd counts and zero amplitudes, radii 0.5-7")]
