#!/bin/bash
# process_round.sh <round-dir> <pid>: confirm the seeded changes an independent agent left in <round-dir>/<pid> (verify_seed.sh), keep the confirmed
# ones under seeded/<pid>-<n> (numbering continues), remove the scratch worktree, and run the property's quick check against each kept change.
RD="$1"; PID="$2"
HERE="$(cd "$(dirname "$0")/.." && pwd)"
WT="$RD/$PID"
[ -d "$WT" ] || { echo "no worktree $WT"; exit 2; }
OFF=$(ls "$HERE/seeded" | grep -c "^$PID-")
for f in "$WT"/seed_*.diff; do
    k=$(basename "$f" .diff); k=${k#seed_}
    "$HERE/tools/verify_seed.sh" "$WT" "$k"
done
NEW=$(/usr/bin/python3 "$HERE/tools/keep_seeds.py" "$PID" "$WT" "$OFF" | tee /dev/stderr | awk '/^kept/{print $2}' | xargs -n1 basename 2>/dev/null)
git -C /repo worktree remove --force "$WT"
[ -n "$NEW" ] && "$HERE/tools/seed_matrix.sh" -j 2 $NEW
