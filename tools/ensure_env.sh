#!/bin/sh
# Builds /verif/.venv: a python3.12 venv that sees /venv's site-packages (the repo's
# own dependencies + the editable install of /repo) through a .pth file and carries the
# verification tooling from the offline wheelhouse.  Nothing is fetched.
set -e
HERE="$(cd "$(dirname "$0")/.." && pwd)"
VENV="$HERE/.venv"
STAMP="$VENV/.ok"
if [ -f "$STAMP" ] && "$VENV/bin/python" -c "import z3, jsonschema, droplets" >/dev/null 2>&1; then
    exit 0
fi
rm -rf "$VENV"
/venv/bin/python -m venv "$VENV"
SP="$("$VENV/bin/python" -c 'import sysconfig; print(sysconfig.get_paths()["purelib"])')"
echo "import site; site.addsitedir('/venv/lib/python3.12/site-packages')" > "$SP/zz_repo_deps.pth"
PIP_NO_INDEX=1 "$VENV/bin/python" -m pip install -q --no-index --find-links /opt/veriftools/wheels \
    z3-solver jsonschema >/dev/null
"$VENV/bin/python" -c "import z3, jsonschema, droplets, numpy, scipy, pde; print('env ok', z3.get_version_string())"
touch "$STAMP"
