"""Bounded tier (stand-in, never counted as proved): the same contracts, in their concrete
interpretation, checked at run time against the real functions on enumerated / sampled inputs."""
from __future__ import annotations

import json
import traceback


class Bounded:
    name = ""
    bound = ""

    def run(self, tier, seed):
        raise NotImplementedError

    def replay(self, rec):
        return dict(violated=[], note="no replay implemented")


class ContractSampling(Bounded):
    """Run `concrete_run` of the listed contracts on their `bounded_inputs`."""

    def __init__(self, name, idents, bound):
        self.name = name
        self.idents = idents
        self.bound = bound

    def run(self, tier, seed):
        from .contract import REGISTRY
        ev, distinct, viols, samples = 0, set(), [], []
        for ident in self.idents:
            c = REGISTRY[ident]
            for ci, case in enumerate(c.cases()):
                if not hasattr(c, "bounded_inputs"):
                    continue
                for inp in c.bounded_inputs(case, tier, seed):
                    ev += 1
                    key = (ident, ci, json.dumps(inp, sort_keys=True, default=str))
                    distinct.add(key)
                    try:
                        res = c.concrete_run(case, inp)
                    except Exception:
                        res = dict(violated=["harness exception"], observed=traceback.format_exc())
                    if len(samples) < 3:
                        samples.append(dict(contract=ident, case=c.case_name(case), input=inp,
                                            observed=str(res.get("observed"))[:200] if res else None))
                    if res and res.get("violated"):
                        viols.append(dict(signature=f"{ident}[{c.case_name(case)}]:{res['violated'][0]}",
                                          what=f"{ident} case {c.case_name(case)}: clause(s) {res['violated']} fail",
                                          contract=ident, case_index=ci, inputs=inp, native=res))
        # one violation per (contract, case, clause)
        uniq = {}
        for v in viols:
            uniq.setdefault(v["signature"], v)
        return dict(evaluations=ev, distinct=len(distinct), violations=list(uniq.values()), samples=samples)

    def replay(self, rec):
        from .contract import REGISTRY
        c = REGISTRY[rec["contract"]]
        return c.concrete_run(c.cases()[rec["case_index"]], rec["inputs"])
