"""C11 -- merging droplets conserves volume and centre of mass."""
from contracts import droplets as dr, lemmas, spherical as sp
from pyvc.bounded import Bounded, ContractSampling, LeanCrossCheck

LEVEL = "proof"
LEVEL_TEXT = 'The interface-width accessors the width clause rests on are under contract (a width of exactly 0 is a width, None / NaN is `unset`). Both merge_data closures and DropletBase.merge are verified for all real radii/positions/widths with positive total volume, dims 1-3 and every aliasing pattern of (drop1, drop2, out): volume additivity, volume-weighted centre, mean width, frame conditions and in-place/out-of-place object identity; operand-order independence, uniqueness and grouping independence are z3 lemmas over the contract. The compiled path is sampled against the Python path (bounded stand-in).'
LEVEL_NOTE = 'A-FP; A-NB (sampled); the nd conversion closures are used through their separately verified contracts; class-creation hook binding _merge_data is checked structurally; induction principle over merge trees is trusted; pyvc engine semantics'
CONTRACTS = [c.ident for c in (dr.MergeSpherical(), dr.MergeDiffuse(), dr.Merge(), sp.RadiusFromVolumeNd(),
                               sp.VolumeFromRadiusNd(), sp.NdFactoryRadius(), sp.NdFactoryVolume(), dr.SetState(), dr.WidthSetter(), dr.WidthGetter())]
LEMMAS = ["merge-spec-algebra", "V_d-and-S_d-injective-on-nonnegative-radii"]


class JitMerge(Bounded):
    """A-NB stand-in: the register_jitable merge functions called from numba-compiled code agree with
    the pure-Python call on sampled records."""
    name = "compiled-merge-agrees-with-python"
    bound = "24 (quick) / 400 (thorough) seeded operand pairs per class and dimension, incl. out aliasing drop1"

    def run(self, tier, seed):
        import numba as nb
        import numpy as np
        import droplets.droplets as dd
        from numpy.lib.recfunctions import structured_to_unstructured as s2u
        rng = np.random.default_rng(seed + 11)
        ev, viol, distinct = 0, [], set()
        n = 24 if tier == "quick" else 400
        for cls in (dd.SphericalDroplet, dd.DiffuseDroplet):
            merge = cls._merge_data

            @nb.njit
            def drive(a, b, out):
                merge(a, b, out)

            for dim in (1, 2, 3):
                for k in range(n // 6):
                    def mk():
                        args = [rng.uniform(-3, 3, dim), float(rng.uniform(0.1, 3))]
                        if cls is dd.DiffuseDroplet:
                            args.append(float(rng.uniform(0, 2)))
                        return cls(*args)
                    a, b, o1, o2 = mk(), mk(), mk(), mk()
                    alias = k % 2 == 1
                    if alias:
                        a2 = a.copy()
                        cls._merge_data(a.data, b.data, out=a.data)
                        drive(a2.data, b.data, a2.data)
                        r1, r2 = a.data, a2.data
                    else:
                        cls._merge_data(a.data, b.data, out=o1.data)
                        drive(a.data, b.data, o2.data)
                        r1, r2 = o1.data, o2.data
                    ev += 1
                    distinct.add((cls.__name__, dim, k))
                    if not np.allclose(s2u(r1), s2u(r2), rtol=1e-12, atol=0, equal_nan=True):
                        viol.append(dict(signature=f"{cls.__name__}:dim{dim}:alias{alias}",
                                         what=f"compiled and python merge differ for {cls.__name__} dim={dim} alias={alias}",
                                         inputs=dict(a=repr(a), b=repr(b)), native=dict(python=repr(r1), compiled=repr(r2))))
        uniq = {v["signature"]: v for v in viol}
        return dict(evaluations=ev, distinct=len(distinct), violations=list(uniq.values()))


BOUNDED = [ContractSampling("merge-contracts-sampled", CONTRACTS[:3] + [dr.SetState().ident, dr.WidthSetter().ident],
                            "each case (dimension x aliasing / class x inplace) on 8 (quick) / 120 (thorough) seeded operand sets"),
           JitMerge()]
BOUNDED.append(LeanCrossCheck())
