#!/bin/sh
# run_seed.sh <seed-id> [property]: apply a kept seeded change to /repo, run the property's quick check, undo it.
ID="$1"; PID="${2:-${ID%%-*}}"
D=/verif/seeded/$ID
git -C /repo diff --quiet || { echo "/repo not clean"; exit 9; }
git -C /repo apply "$D/patch.diff" || exit 9
trap 'git -C /repo checkout -- .' EXIT INT TERM
cd /verif && ./check "$PID" --tier quick --no-evidence > /verif/.scratch/seed_$ID.$PID.log 2>&1; RC=$?
echo "$ID on $PID: exit=$RC  $(grep -c '^VIOLATION' /verif/.scratch/seed_$ID.$PID.log) violation line(s)"
grep -E '^(VIOLATION|  failed|UNDECIDED|CHECKER)' /verif/.scratch/seed_$ID.$PID.log | head -8
