"""C01 -- locating a rendered emulsion returns each droplet once, with exact volume."""
from contracts import droplets as dr, lemmas, locate as lc, locmask as lm, render as rd, spherical as sp

LEVEL = "other"
LEVEL_TEXT = ("C01 is a composition; every link that is a per-function statement is under contract: RENDER (C03 contracts, re-verified here): a cell "
              "of the binary / sharp image is set exactly when its centre is closer to the droplet centre than the radius, in the grid's (periodic) "
              "metric; THRESHOLD (C18): the mask handed on is `data > tau`; LABEL/MERGE (C02: _locate_droplets_in_mask_cartesian, all periodicity "
              "masks): one candidate per merged component with volume == cell volume * number of cells and position == mean unwrapped cell "
              "centre, wrapped into the bounds by whole periods on periodic axes; spherical grids: radius == r_inner + stop * dr of the cluster "
              "that starts at the origin, else empty; dispatch by grid family; VOLUME (C12): from_volume(position, v) has V_d(radius) == v, so the "
              "reported volume IS the summed cell volume. Lemmas (z3): the located radius stop*dr of a centred droplet is within dr/2 of R; the "
              "midpoint of a covered run of cell centres is within h/2 of the centre (1-d half-cell lemma) and a positively weighted mean of such "
              "row means stays within h/2 (induction step over rows => per-axis half-cell bound for the centre of mass of a digital ball). NOT "
              "expressible as contracts: that a digital ball is connected and distinct balls are separated (exactly one droplet per original) - "
              "geometry of lattice point sets. The cylindrical locating functions are under contract as well (z = mean cell-centre z, summed cell volumes, half-open box). These and the end-to-end statement are covered by seeded "
              "render-locate configurations on all four grid families (bounded) - hence level 'other'.")
LEVEL_NOTE = ("ASSUMED: ndimage contracts, A-PDE (difference_vector = shortest periodic vector, transform, normalize_point), A-SUM, induction over rows / "
              "loop iterations; radially symmetric grids: inner radius 0 for the half-spacing clause; cylindrical grids bounded only (rendering across "
              "periodic z is done with explicit image droplets because of dependency defect D1); A-FP (knife-edge cells within 1e-9 of the surface "
              "are skipped by the bounded harness)")
CONTRACTS = [c.ident for c in (rd.GetPhaseField(), rd.BinaryImage(), rd.PolarCoordinates(), lc.LocateDroplets(), lm.LocateInMaskDispatch(),
                               lm.LocateCartesian(), lm.LocateSpherical(), lm.LocateCylSingle(), lm.LocateCylWrapper(), dr.FromVolume(), dr.Volume(), sp.RadiusFromVolume())]
LEMMAS = ["radial-extent-within-half-a-spacing", "conversion-round-trips", "periodic-wrap-is-roll-equivariant"]
CLAUSES = {"exactly one droplet per original": "bounded (digital-ball connectivity / separation is lattice geometry: not applicable to contracts)",
           "volume == total volume of the covered cells": "proved by composition (render contract, merge invariants, V(R(v)) == v)",
           "centre within half a spacing per axis (periodic metric)": "half-cell lemmas proved; composition over rows by induction (meta-argument); sampled",
           "radius within half a radial spacing (radially symmetric grids)": "proved (spherical contract + lemma)",
           "periodic positions inside the bounds": "proved modulo the normalize_point contract (A-PDE)",
           "cylindrical grids": "function contracts proved; end-to-end bounded"}
BOUNDED = [lm.RenderLocate()]
