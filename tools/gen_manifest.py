#!/usr/bin/env python3
"""Regenerate MANIFEST.json from the props/*.py modules (claimed checks) and NOT_APPLICABLE below."""
import importlib, json, os, sys
from pathlib import Path
HERE = Path(__file__).resolve().parent.parent
sys.path.insert(0, str(HERE))
ALL = [f"C{i:02d}" for i in range(1, 21)]
NOT_APPLICABLE = {
    "C05": "accuracy (relative error 1e-4) of a trust-region least-squares fit on discretised tanh profiles: a statement about "
           "floating-point optimiser convergence that no function contract within reach expresses or decides (DESIGN 7, C05); "
           "its crash component is covered by C04/C09",
}
checks, na = [], []
for pid in ALL:
    f = HERE / "props" / f"{pid}.py"
    if pid in NOT_APPLICABLE:
        na.append(dict(property_id=pid, reason=NOT_APPLICABLE[pid])); continue
    if not f.exists():
        na.append(dict(property_id=pid, reason="check not built yet (build in progress, see DESIGN.md section 10)")); continue
    src = f.read_text()
    ns = {}
    # read the declarative parts without importing z3 etc.
    import ast
    tree = ast.parse(src)
    for node in tree.body:
        if isinstance(node, ast.Assign) and isinstance(node.targets[0], ast.Name) and node.targets[0].id in (
                "LEVEL", "LEVEL_TEXT", "LEVEL_NOTE", "TECHNIQUE", "DESIGN_REF"):
            ns[node.targets[0].id] = ast.literal_eval(node.value)
    checks.append(dict(
        property_id=pid,
        quick_cmd=f"./check {pid} --tier quick",
        thorough_cmd=f"./check {pid} --tier thorough",
        evidence_file=f"evidence/{pid}.json",
        replay_cmd_template=f"./check {pid} --replay {{path}}",
        engine="pyvc",
        level_claimed=dict(category=ns.get("LEVEL", "proof"), text=ns.get("LEVEL_TEXT", ""), design_ref=ns.get("DESIGN_REF", f"DESIGN.md section 7, {pid}")),
        level_note=ns.get("LEVEL_NOTE", ""),
        technique=ns.get("TECHNIQUE", "contract-based deductive verification: VCs generated from the Python AST of the real functions by the pyvc symbolic executor, discharged by z3 (cvc5 / z3-4.8 for unknowns)"),
    ))
man = dict(
    version=1,
    setup_cmd="tools/ensure_env.sh",
    hooks=dict(guard="PYDROPLETS_VERIF",
               enable="no source hooks: contracts are sidecar files under /verif/contracts bound to the AST of /repo's working tree on every run",
               baseline_off_cmd="cd /repo && /venv/bin/python -m pytest -ra -q -p no:cacheprovider --timeout=900 --continue-on-collection-errors",
               source_commits=[], add_only=True),
    engines=[dict(name="pyvc", path="pyvc/", serves_properties=[c["property_id"] for c in checks],
                  kind_free_text="Python-AST symbolic executor generating verification conditions from /repo source + sidecar contracts, discharged by z3 5.1 (cvc5 / z3 4.8 for unknowns); bounded tier = the same contracts checked at run time on the real code")],
    checks=checks,
    notes="see DESIGN.md; exit codes: 0 held, 1 VIOLATION, 2 undecided (no VIOLATION line), 3 checker failure",
    not_applicable=na,
)
(HERE / "MANIFEST.json").write_text(json.dumps(man, indent=1) + "\n")
import jsonschema
jsonschema.validate(man, json.load(open("/root/.vp/MANIFEST.schema.json")))
print("MANIFEST ok:", [c["property_id"] for c in checks])
