"""Bounded tier (stand-in, never counted as proved): the same contracts, in their concrete
interpretation, checked at run time against the real functions on enumerated / sampled inputs."""
from __future__ import annotations

import json
import traceback


class Bounded:
    name = ""
    bound = ""

    def run(self, tier, seed):
        raise NotImplementedError

    def replay(self, rec):
        return dict(violated=[], note="no replay implemented")


class ContractSampling(Bounded):
    """Run `concrete_run` of the listed contracts on their `bounded_inputs`."""

    def __init__(self, name, idents, bound):
        self.name = name
        self.idents = idents
        self.bound = bound

    def run(self, tier, seed):
        from .contract import REGISTRY
        ev, distinct, viols, samples = 0, set(), [], []
        for ident in self.idents:
            c = REGISTRY[ident]
            for ci, case in enumerate(c.cases()):
                if not hasattr(c, "bounded_inputs"):
                    continue
                for inp in c.bounded_inputs(case, tier, seed):
                    ev += 1
                    key = (ident, ci, json.dumps(inp, sort_keys=True, default=str))
                    distinct.add(key)
                    try:
                        res = c.concrete_run(case, inp)
                    except Exception:
                        res = dict(violated=["harness exception"], observed=traceback.format_exc())
                    if len(samples) < 3:
                        samples.append(dict(contract=ident, case=c.case_name(case), input=inp,
                                            observed=str(res.get("observed"))[:200] if res else None))
                    if res and res.get("violated"):
                        viols.append(dict(signature=f"{ident}[{c.case_name(case)}]:{res['violated'][0]}",
                                          what=f"{ident} case {c.case_name(case)}: clause(s) {res['violated']} fail",
                                          contract=ident, case_index=ci, inputs=inp, native=res))
        # one violation per (contract, case, clause)
        uniq = {}
        for v in viols:
            uniq.setdefault(v["signature"], v)
        return dict(evaluations=ev, distinct=len(distinct), violations=list(uniq.values()), samples=samples)

    def replay(self, rec):
        from .contract import REGISTRY
        c = REGISTRY[rec["contract"]]
        return c.concrete_run(c.cases()[rec["case_index"]], rec["inputs"])


class LeanCrossCheck(Bounded):
    """Thorough tier only: Lean 4 + Mathlib re-checks the generic induction principles (lemmas/Induction.lean) that the z3 lemmas take for granted.
    A cross-check of the trusted base, not a deciding step: a failure is a CHECKER failure (exit 3), never a violation."""
    name = "lean-cross-check-of-induction-principles"
    bound = ("thorough tier: `lean lemmas/Induction.lean` (Lean 4.33 + Mathlib): invariant induction over reachable states and over operation lists, "
             "permutation invariance of sums, additivity over merge trees, suffix sums of a reversed list; quick tier: skipped")

    def run(self, tier, seed):
        import shutil
        import subprocess
        from pathlib import Path
        if tier != "thorough":
            return dict(evaluations=0, distinct=0, violations=[], samples=[dict(note="skipped in the quick tier")])
        f = Path(__file__).resolve().parent.parent / "lemmas" / "Induction.lean"
        if not shutil.which("lean"):
            raise RuntimeError("lean is not on PATH")
        p = subprocess.run(["lean", str(f)], capture_output=True, text=True, timeout=1500, cwd="/opt/veriftools/mathlib4")
        out = (p.stdout or "") + (p.stderr or "")
        if p.returncode != 0 or "error" in out or "sorry" in out:
            raise RuntimeError(f"Lean rejected lemmas/Induction.lean (exit {p.returncode}): {out[-1500:]}")
        n = f.read_text().count("\ntheorem ")
        return dict(evaluations=n, distinct=n, violations=[], samples=[dict(note=f"lean accepted {n} theorems")])
