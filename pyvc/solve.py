"""Discharge of verification conditions: z3 (python API) first, cvc5 and z3-4.8 CLI for unknowns."""
from __future__ import annotations

import os
import shutil
import subprocess
import tempfile
import time
from fractions import Fraction

import z3

Z3_TIMEOUT_MS = int(os.environ.get("PYVC_Z3_TIMEOUT_MS", "20000"))
CLI_TIMEOUT_S = int(os.environ.get("PYVC_CLI_TIMEOUT_S", "20"))


def _model_value(m, t):
    v = m.eval(t, model_completion=True)
    try:
        if z3.is_int_value(v):
            return v.as_long()
        if z3.is_rational_value(v):
            return str(Fraction(v.numerator_as_long(), v.denominator_as_long()))
        if z3.is_algebraic_value(v):
            return v.approx(20).as_decimal(17).rstrip("?")
        if z3.is_true(v):
            return True
        if z3.is_false(v):
            return False
    except Exception:
        pass
    return str(v)


def to_float(x):
    if isinstance(x, bool):
        return x
    if isinstance(x, int):
        return x
    if isinstance(x, str):
        try:
            return float(Fraction(x))
        except Exception:
            try:
                return float(x)
            except Exception:
                return x
    return x


def smt2_of(assumptions, goal):
    s = z3.Solver()
    for a in assumptions:
        s.add(a)
    s.add(z3.Not(goal))
    return "(set-logic ALL)\n" + s.to_smt2()


def run_cli(cmd, text, timeout):
    with tempfile.NamedTemporaryFile("w", suffix=".smt2", delete=False, dir=os.environ.get("TMPDIR", "/var/tmp")) as f:
        f.write(text)
        path = f.name
    try:
        t0 = time.time()
        p = subprocess.run(cmd + [path], capture_output=True, text=True, timeout=timeout + 5)
        out = (p.stdout or "").strip().splitlines()
        res = out[0].strip() if out else "unknown"
        return res, time.time() - t0
    except subprocess.TimeoutExpired:
        return "timeout", timeout
    finally:
        os.unlink(path)


def discharge(assumptions, goal, inputs=None, want_model=True, timeout_ms=None, fallbacks=True):
    """Returns dict(status= 'unsat'|'sat'|'unknown', backend, time_s, model)."""
    timeout_ms = timeout_ms or Z3_TIMEOUT_MS
    t0 = time.time()
    s = z3.Solver()
    s.set("timeout", timeout_ms)
    for a in assumptions:
        s.add(a)
    s.add(z3.Not(goal))
    r = s.check()
    dt = time.time() - t0
    ver = z3.get_version_string()
    if r == z3.unsat:
        return dict(status="unsat", backend=f"z3-{ver}", time_s=dt, model=None)
    if r == z3.sat:
        model = None
        if want_model and inputs:
            m = s.model()
            model = {k: _model_value(m, t) for k, t in inputs.items()}
        return dict(status="sat", backend=f"z3-{ver}", time_s=dt, model=model)
    if not fallbacks:
        return dict(status="unknown", backend=f"z3-{ver}", time_s=dt, model=None, reason=s.reason_unknown())
    # fallbacks
    text = smt2_of(assumptions, goal)
    tried = [f"z3-{ver}:unknown({s.reason_unknown()})"]
    for name, cmd in (("cvc5-1.0", ["/usr/bin/cvc5", "--lang=smt2", f"--tlimit={CLI_TIMEOUT_S * 1000}"]),
                      ("z3-4.8", ["/usr/bin/z3", f"-T:{CLI_TIMEOUT_S}"])):
        if not shutil.which(cmd[0]):
            continue
        res, dt2 = run_cli(cmd, text, CLI_TIMEOUT_S)
        dt += dt2
        if res == "unsat":
            return dict(status="unsat", backend=name, time_s=dt, model=None, tried=tried)
        if res == "sat":
            # a model from a CLI back end is not extracted; report sat without inputs
            return dict(status="sat", backend=name, time_s=dt, model=None, tried=tried)
        tried.append(f"{name}:{res}")
    return dict(status="unknown", backend="all", time_s=dt, model=None, tried=tried)


def is_sat(assumptions, timeout_ms=10000):
    s = z3.Solver()
    s.set("timeout", timeout_ms)
    for a in assumptions:
        s.add(a)
    r = s.check()
    return "sat" if r == z3.sat else ("unsat" if r == z3.unsat else "unknown")


def cross_check(assumptions, goal, timeout_s=10):
    """thorough tier: the same query on the independent back ends (SMT-LIB2 text -> /usr/bin/z3 4.8.12, /usr/bin/cvc5 1.0).
    Returns dict backend -> 'unsat' | 'sat' | 'unknown' | 'timeout' | 'error'."""
    text = smt2_of(assumptions, goal)
    out = {}
    for name, cmd in (("z3-4.8", ["/usr/bin/z3", f"-T:{timeout_s}"]), ("cvc5-1.0", ["/usr/bin/cvc5", "--lang=smt2", f"--tlimit={timeout_s * 1000}"])):
        if not shutil.which(cmd[0]):
            continue
        res, _ = run_cli(cmd, text, timeout_s)
        out[name] = res if res in ("unsat", "sat", "unknown", "timeout") else "error"
    return out
