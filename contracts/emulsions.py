"""Contracts for droplets/emulsions.py: distances and overlap removal (C10); collection operations (C20) follow."""
from __future__ import annotations

import itertools
import math

import z3

from pyvc import heap as H, models, ops, source, spec as S
from pyvc.bounded import Bounded
from pyvc.contract import Contract, Lemma, loop, register
from pyvc.engine import LoopSpec, SymRaise, _MISSING
from pyvc.values import SArr, SExc, SNative, SObj, SOpaque, Undecided, const_of, to_real, to_z3

from .common import fnum, make_droplet

MOD = "droplets.emulsions"
DMOD = "droplets.droplets"
I, Rl = z3.IntSort(), z3.RealSort()
SQRT = ops.ufun("sqrt_f")


# --- the metric -----------------------------------------------------------------------------------
class SMetricGrid:
    """A grid seen only through `grid.distance(p, q, coords="cartesian")`: an uninterpreted metric D_g
    (assumed symmetric and non-negative, A-PDE).  D_g is *not* the Euclidean metric, so dropping `grid=` is noticed."""

    def __init__(self, dim):
        self.dim = dim
        self.fn = z3.Function("Dg", *([Rl] * (2 * dim)), Rl)

    def dist_terms(self, p, q):
        return self.fn(*[to_real(x) for x in p], *[to_real(x) for x in q])

    def sym_getattr(self, run, attr):
        if attr == "distance":
            def dist(run, a, k):
                if k.get("coords", a[2] if len(a) > 2 else "grid") != "cartesian":
                    run.oblige("grid.distance is called with coords='cartesian' for droplet positions", False, kind="requires")
                p, q = a[0], a[1]
                run.trust("A-PDE: grid.distance(p, q, coords='cartesian') is the grid's (periodic) metric: symmetric, non-negative")
                return self.dist_terms(list(p.elems), list(q.elems))
            return SNative(dist, "grid.distance")
        if attr == "dim":
            return self.dim
        if attr == "periodic":
            # an arbitrary periodicity mask: whether an axis is periodic must not change WHICH metric is used (the grid's own metric
            # already is Euclidean along non-periodic axes)
            return [z3.Bool(f"grid_periodic_{a}") for a in range(self.dim)]
        return _MISSING


def DE(dim):
    """Euclidean distance as a named spec function DE(p, q) = sqrt(sum (p_j - q_j)^2); the definition is an axiom that is
    only handed to the proofs that need to unfold it (get_pairwise_distances, overlaps)."""
    return z3.Function(f"DE{dim}", *([Rl] * (2 * dim)), Rl)


def dist_spec(grid, p, q):
    """spec distance between position vectors (lists of terms): Euclid or D_g"""
    if grid is None:
        return DE(len(p))(*[to_real(x) for x in p], *[to_real(x) for x in q])
    return grid.dist_terms(p, q)


def metric_facts(grid, dim, define=False):
    """facts about the metric as quantified axioms over positions: symmetry and non-negativity (assumed for D_g,
    consequences of the definition for DE); with define=True also the definition of DE"""
    xs = [z3.Real(f"mx{j}") for j in range(dim)]
    ys = [z3.Real(f"my{j}") for j in range(dim)]
    f = DE(dim) if grid is None else grid.fn
    out = [z3.ForAll(xs + ys, z3.And(f(*xs, *ys) == f(*ys, *xs), f(*xs, *ys) >= 0))]
    if grid is None and define:
        s = sum(((x - y) * (x - y) for x, y in zip(xs[1:], ys[1:])), (xs[0] - ys[0]) * (xs[0] - ys[0]))
        out.append(z3.ForAll(xs + ys, f(*xs, *ys) == SQRT(s)))
    return out


# --- symbolic emulsions -----------------------------------------------------------------------------
class EmView:
    """read access to the droplets of a symbolic emulsion in a given heap state"""

    def __init__(self, run, dim, cls_name, elems, heap_arrays=None):
        self.run, self.dim, self.cls_name, self.elems = run, dim, cls_name, elems
        h = H.heap_of(run)
        self.arr = dict(heap_arrays if heap_arrays is not None else h.arr)
        self.h = h

    def _arr(self, name, nidx=1, sort=None):
        if name in self.arr:
            return self.arr[name]
        return self.h.array(name, nidx, sort)

    def ref(self, k):
        return z3.Select(self.elems, to_z3(k))

    def rec(self, ref):
        return z3.Select(self._arr("data", 1, I), ref)

    def radius_of_ref(self, ref):
        return z3.Select(self._arr("radius"), self.rec(ref))

    def pos_of_ref(self, ref):
        return [z3.Select(self._arr("position", 1), self.rec(ref) * H.Heap.VEC + j) for j in range(self.dim)]

    def radius(self, k):
        return self.radius_of_ref(self.ref(k))

    def pos(self, k):
        return self.pos_of_ref(self.ref(k))


def sym_emulsion(run, name, dim, cls_name="SphericalDroplet"):
    h = H.heap_of(run)
    for nm, nidx, srt in (("data", 1, I), ("radius", 1, None), ("position", 1, None)):
        h.array(nm, nidx, srt)
    L = run.input_int(f"{name}_len")
    run.assume(L >= 0)
    elems = z3.Array(f"{name}_elems", I, I)
    cls = source.get_class(DMOD, cls_name)
    lay = H.droplet_layout(cls_name, dim)
    k = z3.Int("k")
    run.assume(z3.ForAll([k], z3.Implies(z3.And(k >= 0, k < L), z3.And(h.allocated(z3.Select(elems, k)),
                                                                      h.allocated(z3.Select(h.array("data", 1, I), z3.Select(elems, k)))))))
    ecls = source.get_class(MOD, "Emulsion")
    em = H.SListObj(run, ecls, L, elems, lambda ref: H.SRefObj(run, cls, ref, lay), fields={"dtype": SOpaque("dtype")}, tag=name)
    em.elem_layout = lay
    em.dim = dim
    em.cls_name = cls_name
    return em


def SD(grid):
    """surface distance between two droplets *by reference* (pre-state heap): a named spec function whose definition
       SD(a, b) = D(pos(a), pos(b)) - (radius(a) + radius(b)),  CD(a, b) = D(pos(a), pos(b))
    (D = Euclid or the grid metric) is handed only to the proofs that unfold it."""
    return z3.Function("SDg" if grid is not None else "SDe", I, I, Rl)


def CD(grid):
    return z3.Function("CDg" if grid is not None else "CDe", I, I, Rl)


def sd_definitions(view, grid):
    a, b = z3.Ints("da db")
    d = dist_spec(grid, view.pos_of_ref(a), view.pos_of_ref(b))
    return [z3.ForAll([a, b], z3.And(CD(grid)(a, b) == d, SD(grid)(a, b) == d - (view.radius_of_ref(a) + view.radius_of_ref(b))))]


def sd_symmetry(grid):
    a, b = z3.Ints("ya yb")
    return [z3.ForAll([a, b], z3.And(SD(grid)(a, b) == SD(grid)(b, a), CD(grid)(a, b) == CD(grid)(b, a), CD(grid)(a, b) >= 0))]


def dsub(view, grid, a, b, sub=True):
    if sub is True:
        return SD(grid)(a, b)
    if sub is False:
        return CD(grid)(a, b)
    return z3.If(sub, SD(grid)(a, b), CD(grid)(a, b))


def finite_facts(run, view, grid, L, extra=()):
    """precondition 'finite positions and radii': every surface distance (and every extra quantity) is below INF"""
    a, b = z3.Ints("fa fb")
    out = [z3.ForAll([a, b], z3.And(SD(grid)(a, b) < H.INF(), SD(grid)(a, b) > -H.INF()))]
    for x in extra:
        out.append(z3.And(to_real(x) < H.INF(), to_real(x) > -H.INF()))
    return out


# ===================================================================================================
class PairwiseBase(Contract):
    def cases(self):
        return [dict(dim=d, grid=g) for d in (1, 2, 3) for g in ("none", "given")]


KEY_PD = f"{MOD}:Emulsion.get_pairwise_distances"


def pd_value(view, grid, sub, a, b):
    return dsub(view, grid, view.ref(a), view.ref(b), sub)


class _PDOuter(LoopSpec):
    """for i in range(num): rows/columns below i are final, the rest is still zero"""
    inner = False

    def _ctx(self, env):
        me = env["self"]
        g = env["grid"]
        view = EmView(env.run, me.dim, me.cls_name, me.elems)
        sub = env["subtract_radius"]
        sub = sub if isinstance(sub, bool) else to_z3(sub)
        return me, (g if g is not None else None), view, sub

    def havoc(self, run, env):
        m = env["dists"]
        f = z3.Function(f"dists!{next(run.counter)}", I, I, Rl)
        m.at = lambda a, b: f(to_z3(a), to_z3(b))

    def done(self, env, i, a, b):
        mn = z3.If(a < b, a, b)
        return mn < i

    def invariant(self, run, env, i, seq):
        me, grid, view, sub = self._ctx(env)
        m = env["dists"]
        n = to_z3(me.length)
        a, b = z3.Ints("ia ib")
        yield ("matrix is len x len", z3.And(to_z3(m.rows) == n, to_z3(m.cols) == n, to_z3(env["num"]) == n))
        yield ("entries of finished pairs are the (surface) distances, all others are still zero",
               z3.ForAll([a, b], z3.Implies(z3.And(a >= 0, a < n, b >= 0, b < n),
                                            m.at(a, b) == z3.If(z3.And(a != b, self.done(env, i, a, b)), pd_value(view, grid, sub, a, b),
                                                                z3.RealVal(0)))))


loop(KEY_PD, 0)(_PDOuter)


@loop(KEY_PD, 1)
class _PDInner(_PDOuter):
    """for j in range(i + 1, num): additionally the pairs (i, i+1 .. j-1) are final"""

    def done(self, env, t, a, b):
        i = to_z3(env["i"])
        mn = z3.If(a < b, a, b)
        mx = z3.If(a < b, b, a)
        return z3.Or(mn < i, z3.And(mn == i, mx < i + 1 + t))


@register
class PairwiseDistances(PairwiseBase):
    key = KEY_PD

    def setup(self, run, case):
        me = sym_emulsion(run, "self", case["dim"])
        grid = SMetricGrid(case["dim"]) if case["grid"] == "given" else None
        sub = run.input_bool("subtract_radius")
        view0 = EmView(run, case["dim"], "SphericalDroplet", me.elems)
        for f in metric_facts(grid, case["dim"], define=True) + sd_definitions(view0, grid):
            run.assume(f)
        self.ctx = (run, me, grid, sub)
        self.elems0 = me.elems
        return dict(self=me, subtract_radius=sub, grid=grid)

    def post(self, a, ret, case):
        run, me, grid, sub = self.ctx
        if not isinstance(ret, H.SMat):
            return [("returns a matrix", False)]
        view = EmView(run, case["dim"], "SphericalDroplet", self.elems0)
        n = to_z3(me.length)
        x, y = z3.Ints("px py")
        rng = z3.And(x >= 0, x < n, y >= 0, y < n)
        return [("matrix is len x len", z3.And(to_z3(ret.rows) == n, to_z3(ret.cols) == n)),
                ("zero diagonal", z3.ForAll([x], z3.Implies(z3.And(x >= 0, x < n), ret.at(x, x) == 0))),
                ("entry (i, j) is the (periodic) centre distance, minus both radii if requested",
                 z3.ForAll([x, y], z3.Implies(z3.And(rng, x != y), ret.at(x, y) == pd_value(view, grid, sub, x, y)))),
                ("symmetric", z3.ForAll([x, y], z3.Implies(rng, ret.at(x, y) == ret.at(y, x)))),
                ("the emulsion is not modified", z3.And(to_z3(me.length) == n, z3.eq(me.elems, self.elems0)))]

    def apply(self, engine, run, fi, args, kwargs):
        me = args[0]
        b = dict(zip(["subtract_radius", "grid"], args[1:]))
        b.update(kwargs)
        sub = b.get("subtract_radius", False)
        grid = b.get("grid")
        if not isinstance(me, H.SListObj):
            raise Undecided("get_pairwise_distances on a concrete emulsion")
        view = EmView(run, me.dim, me.cls_name, me.elems)
        sub = sub if isinstance(sub, bool) else to_z3(sub)
        n = me.length
        run.trust(f"contract:{self.key} (verified separately)")
        g = grid if isinstance(grid, SMetricGrid) else None
        if grid is not None and g is None:
            raise Undecided("unmodelled grid object")
        return H.SMat(n, n, lambda i, j: z3.If(i == j, z3.RealVal(0), pd_value(view, g, sub, i, j)), "pairwise")

    # concrete
    def bounded_inputs(self, case, tier, seed):
        import random
        rng = random.Random(seed + case["dim"])
        for t in range(6 if tier == "quick" else 60):
            n = [0, 1, 2, 3, 5, 4][t % 6]
            yield dict(n=n, pos=[[rng.choice([0.5, 1.5, 2.5, 3.5, 7.5]) for _ in range(case["dim"])] for _ in range(n)],
                       rad=[rng.choice([0.5, 1.0, 1.5]) for _ in range(n)], sub=bool(t % 2))
        if case.get("grid") != "given":
            # centres far from the origin compared with their separations (all values exactly representable): the centre distance is the norm
            # of the DIFFERENCE of the positions - formulas that are equal over the reals but cancel in floating point are off by O(1) here
            for off in (1e8, -3e7):
                yield dict(n=4, pos=[[off + x + 0.5 * a for a in range(case["dim"])] for x in (0.5, 1.5, 3.5, 7.5)], rad=[0.5, 1.0, 0.5, 1.5], sub=True)

    def concrete_run(self, case, inputs):
        import numpy as np
        em, grid = build_emulsion(case, inputs)
        M = em.get_pairwise_distances(subtract_radius=inputs["sub"], grid=grid)
        bad = []
        n = len(em)
        if M.shape != (n, n):
            bad.append("matrix is len x len")
        else:
            for i in range(n):
                for j in range(n):
                    exp = 0.0 if i == j else oracle_dist(grid, em[i].position, em[j].position) - (
                        (em[i].radius + em[j].radius) if inputs["sub"] else 0.0)
                    if not math.isclose(M[i, j], exp, rel_tol=1e-12, abs_tol=1e-12):
                        bad.append("entry (i, j) is the (periodic) centre distance, minus both radii if requested")
            if not np.array_equal(M, M.T):
                bad.append("symmetric")
        return dict(violated=sorted(set(bad)), observed=repr(M), inputs=inputs)


def build_emulsion(case, inputs):
    import droplets
    import pde
    dim = case["dim"]
    grid = None
    if case.get("grid") == "given":
        # a box of length 8 with cells of size 1/4 (NOT a unit grid: cell counts and physical lengths differ), mixed periodicity
        grid = pde.CartesianGrid([(0, 8)] * dim, 32, periodic=[True, False, True][:dim])
    em = droplets.Emulsion([droplets.SphericalDroplet(p, r) for p, r in zip(inputs["pos"], inputs["rad"])])
    return em, grid


def oracle_dist(grid, p, q):
    import numpy as np
    d = np.asarray(q, dtype=float) - np.asarray(p, dtype=float)
    if grid is not None:
        for ax in range(grid.dim):
            if grid.periodic[ax]:
                L = grid.axes_bounds[ax][1] - grid.axes_bounds[ax][0]
                d[ax] = (d[ax] + L / 2) % L - L / 2
    return float(np.sqrt(np.sum(d * d)))


# ---------------------------------------------------------------------------------------------------
@register
class Overlaps(Contract):
    key = f"{DMOD}:SphericalDroplet.overlaps"

    def cases(self):
        return [dict(dim=d, grid=g) for d in (1, 2, 3) for g in ("none", "given")]

    def setup(self, run, case):
        from .common import sym_droplet
        a = sym_droplet(run, "self", case["dim"])
        b = sym_droplet(run, "other", case["dim"])
        grid = SMetricGrid(case["dim"]) if case["grid"] == "given" else None
        for f in metric_facts(grid, case["dim"], define=True):
            run.assume(f)
        self.ctx = (a, b, grid)
        return dict(self=a, other=b, grid=grid)

    def post(self, a, ret, case):
        me, other, grid = self.ctx
        p, q = list(me.fields["data"].get("position").elems), list(other.fields["data"].get("position").elems)
        d = dist_spec(grid, p, q)
        surf = d - (to_real(me.fields["data"].get("radius")) + to_real(other.fields["data"].get("radius")))
        r = ret if isinstance(ret, bool) else to_z3(ret)
        return [("overlaps exactly when the surface distance (same metric) is negative", r == (surf < 0))]

    def apply(self, engine, run, fi, args, kwargs):
        me, other = args[0], args[1]
        grid = args[2] if len(args) > 2 else kwargs.get("grid")
        g = grid if isinstance(grid, SMetricGrid) else None
        if grid is not None and g is None:
            raise Undecided("unmodelled grid object")
        p = list(me.fields["data"].get("position").elems)
        q = list(other.fields["data"].get("position").elems)
        run.trust(f"contract:{self.key} (verified separately)")
        return dist_spec(g, p, q) - (to_real(me.fields["data"].get("radius")) + to_real(other.fields["data"].get("radius"))) < 0

    def bounded_inputs(self, case, tier, seed):
        import random
        rng = random.Random(seed + 41 + case["dim"])
        for t in range(12 if tier == "quick" else 200):
            yield dict(pos=[[rng.choice([0.5, 1.5, 2.5, 7.5, 3.0]) for _ in range(case["dim"])] for _ in range(2)],
                       rad=[rng.choice([0.5, 1.0, 1.5, 2.0]) for _ in range(2)], n=2, sub=True)

    def concrete_run(self, case, inputs):
        em, grid = build_emulsion(case, inputs)
        a, b = em[0], em[1]
        got = bool(a.overlaps(b, grid))
        surf = oracle_dist(grid, a.position, b.position) - (a.radius + b.radius)
        if abs(surf) < 1e-12:
            return dict(violated=[], observed="touching (knife edge) skipped", inputs=inputs)
        ok = got == (surf < 0)
        return dict(violated=[] if ok else ["overlaps exactly when the surface distance (same metric) is negative"],
                    observed=got, expected=surf < 0, inputs=inputs)


# ---------------------------------------------------------------------------------------------------
class SNNVec:
    """result of Emulsion.get_neighbor_distances for >= 2 droplets: entry i = distance to the droplet whose CENTRE is nearest (Euclid)"""

    def __init__(self, run, view, n, sub):
        c = next(run.counter)
        self.run, self.view, self.n, self.sub = run, view, to_z3(n), sub
        self.nn = z3.Function(f"nearest_centre!{c}", I, I)
        i, j = z3.Ints("ni nj")
        inr = lambda x: z3.And(x >= 0, x < self.n)     # noqa: E731
        run.define(z3.ForAll([i], z3.Implies(inr(i), z3.And(inr(self.nn(i)), self.nn(i) != i))), "nearest-centre neighbour (definition)")
        run.define(z3.ForAll([i, j], z3.Implies(z3.And(inr(i), inr(j), j != i),
                                                CD(None)(view.ref(i), view.ref(self.nn(i))) <= CD(None)(view.ref(i), view.ref(j)))),
                   "nearest-centre neighbour (definition)")

    def at(self, i):
        i = to_z3(i)
        return dsub(self.view, None, self.view.ref(i), self.view.ref(self.nn(i)), self.sub)

    def sym_len(self, run):
        return self.n

    def sym_getitem(self, run, idx):
        i = to_z3(idx)
        run.oblige("index in range (neighbour distances)", z3.And(i >= 0, i < self.n), kind="implicit")
        return self.at(i)

    def sym_getattr(self, run, attr):
        if attr in ("min", "max"):
            def red(run2, a, k):
                m, w = run2.fresh_real(f"nn_{attr}"), run2.fresh_int(f"nn_arg{attr}")
                i = z3.Int("nr")
                run2.define(z3.And(w >= 0, w < self.n, m == self.at(w)), f"{attr} of a non-empty vector is attained")
                run2.define(z3.ForAll([i], z3.Implies(z3.And(i >= 0, i < self.n), (m <= self.at(i)) if attr == "min" else (m >= self.at(i)))),
                            f"{attr} of a vector bounds every entry")
                return m
            return SNative(red, f"ndarray.{attr}")
        from pyvc.engine import _MISSING
        return _MISSING


@register
class NeighborDistancesCall(Contract):
    """Emulsion.get_neighbor_distances at call sites of verified functions.  ASSUMED (the k-d tree query is outside the subset; the function itself
    is covered by the bounded stand-in `neighbor-distances-and-from_random` only): for >= 2 droplets entry i is the Euclidean distance between
    droplet i and the droplet whose centre is nearest to it - minus both radii if requested - which is in general NOT the smallest surface distance."""
    key = f"{MOD}:Emulsion.get_neighbor_distances"

    def cases(self):
        return []

    def apply(self, engine, run, fi, args, kwargs):
        me = args[0]
        sub = kwargs.get("subtract_radius", args[1] if len(args) > 1 else False)
        if not isinstance(me, H.SListObj):
            raise Undecided("get_neighbor_distances on a concrete emulsion")
        if not run.branch(to_z3(me.length) >= 2):
            raise Undecided("get_neighbor_distances of fewer than two droplets (empty / NaN vector)")
        run.trust(f"ASSUMED contract:{self.key} (nearest-CENTRE neighbour by a k-d tree; bounded stand-in only)")
        view = EmView(run, me.dim, me.cls_name, me.elems)
        return SNNVec(run, view, me.length, sub if isinstance(sub, bool) else to_z3(sub))


# ---------------------------------------------------------------------------------------------------
KEY_RO = f"{MOD}:Emulsion.remove_overlapping"


class ROGhost:
    """ghost state of remove_overlapping: original list E0/L0 and the maps between current and original indices"""

    def __init__(self, run, me):
        self.E0 = me.elems
        self.L0 = to_z3(me.length)
        self.fresh(run)

    def fresh(self, run):
        c = next(run.counter)
        self.idx = z3.Function(f"idx!{c}", I, I)          # current index -> original index
        self.inv = z3.Function(f"inv!{c}", I, I)          # original index -> current index (if not removed)
        self.removed = z3.Function(f"removed!{c}", I, z3.BoolSort())
        self.wit = z3.Function(f"wit!{c}", I, I)          # removed original -> original it was too close to


@loop(KEY_RO, 0)
class ROLoop(LoopSpec):
    has_variant = True

    def _ctx(self, env):
        me = env["self"]
        grid = env["grid"]
        view = EmView(env.run, me.dim, me.cls_name, me.elems)
        return me, (grid if grid is not None else None), view

    def init_ghost(self, run, env):
        me = env["self"]
        g = ROGhost(run, me)
        run.ghost["ro"] = g
        j = z3.Int("gj")
        # initially idx = inv = identity, nothing removed
        run.assume(z3.ForAll([j], z3.And(g.idx(j) == j, g.inv(j) == j, z3.Not(g.removed(j)))))

    def havoc(self, run, env):
        me = env["self"]
        g = run.ghost["ro"]
        g.fresh(run)
        me.length = run.fresh_int("len")
        me.elems = z3.Const(f"elems!{next(run.counter)}", me.elems.sort())
        # `dists` is re-bound in the body: the engine gives it a fresh matrix (SMat.sym_havoc)

    def variant(self, run, env):
        return to_z3(env["dists"].rows)

    def invariant(self, run, env, it, seq):
        me, grid, view = self._ctx(env)
        g = run.ghost["ro"]
        m = env["dists"]
        n = to_z3(me.length)
        md = to_real(env["min_distance"])
        k, l, j = z3.Ints("rk rl rj")
        v0 = EmView(run, me.dim, me.cls_name, g.E0)
        inr = lambda x: z3.And(x >= 0, x < n)
        yield ("matrix and list stay aligned", z3.And(to_z3(m.rows) == n, to_z3(m.cols) == n, n >= 0, n <= g.L0))
        yield ("every current element is an original object; order is preserved",
               z3.And(z3.ForAll([k], z3.Implies(inr(k), z3.And(g.idx(k) >= 0, g.idx(k) < g.L0, z3.Select(me.elems, k) == z3.Select(g.E0, g.idx(k)),
                                                               z3.Not(g.removed(g.idx(k))), g.inv(g.idx(k)) == k))),
                      z3.ForAll([k, l], z3.Implies(z3.And(inr(k), inr(l), k < l), g.idx(k) < g.idx(l)))))
        yield ("matrix entries are the surface distances of the remaining originals (inf on the diagonal)",
               z3.ForAll([k, l], z3.Implies(z3.And(inr(k), inr(l)),
                                            m.at(k, l) == z3.If(k == l, H.INF(), dsub(v0, grid, v0.ref(g.idx(k)), v0.ref(g.idx(l)))))))
        yield ("every original is either still present or was removed next to a witness at least as large",
               z3.ForAll([j], z3.Implies(z3.And(j >= 0, j < g.L0), z3.If(
                   g.removed(j),
                   z3.And(g.wit(j) >= 0, g.wit(j) < g.L0, g.wit(j) != j,
                          dsub(v0, grid, v0.ref(j), v0.ref(g.wit(j))) < md, v0.radius(g.wit(j)) >= v0.radius(j)),
                   z3.And(inr(g.inv(j)), g.idx(g.inv(j)) == j)))))
        sep0 = run.ghost.get("ro_sep0")
        if sep0 is not None:
            yield ("if all pairs were separated initially nothing has been removed",
                   z3.Implies(sep0, z3.And(n == g.L0, z3.ForAll([k], z3.Implies(inr(k), g.idx(k) == k)))))

    def before_body(self, run, env, it, seq):
        me = env["self"]
        g = run.ghost["ro"]
        run.ghost["ro_old"] = dict(idx=g.idx, inv=g.inv, removed=g.removed, wit=g.wit, n=to_z3(me.length))

    def after_body(self, run, env, it, seq):
        """ghost update after a removal: which position p was popped is read off the (real) list length / x, y"""
        me, grid, view = self._ctx(env)
        g = run.ghost["ro"]
        old = run.ghost["ro_old"]
        x, y = to_z3(env["x"]), to_z3(env["y"])
        v0 = EmView(run, me.dim, me.cls_name, g.E0)
        # the code removes the smaller of the closest pair; p = popped current index, q = the one kept
        bigger_x = v0.radius(old["idx"](x)) > v0.radius(old["idx"](y))
        p = z3.If(bigger_x, y, x)
        q = z3.If(bigger_x, x, y)
        jp, jq = old["idx"](p), old["idx"](q)
        c = next(run.counter)
        nidx, ninv = z3.Function(f"idx!{c}", I, I), z3.Function(f"inv!{c}", I, I)
        nrem, nwit = z3.Function(f"removed!{c}", I, z3.BoolSort()), z3.Function(f"wit!{c}", I, I)
        k, j = z3.Ints("uk uj")
        run.define(z3.ForAll([k], nidx(k) == z3.If(k < p, old["idx"](k), old["idx"](k + 1))), "ghost update (definition)")
        run.define(z3.ForAll([j], z3.And(nrem(j) == z3.Or(old["removed"](j), j == jp),
                                         nwit(j) == z3.If(j == jp, jq, old["wit"](j)),
                                         ninv(j) == z3.If(old["inv"](j) > p, old["inv"](j) - 1, old["inv"](j)))),
                   "ghost update (definition)")
        g.idx, g.inv, g.removed, g.wit = nidx, ninv, nrem, nwit


class RemoveOverlappingBase(Contract):
    key = KEY_RO
    modular = False
    separated = False

    def cases(self):
        # the proof never reads positions (distances enter through SD by reference), so the VCs do not depend on the
        # dimension; they are generated for d = 2 with both metrics and once more for d = 3
        return [dict(dim=2, grid="none"), dict(dim=2, grid="given"), dict(dim=3, grid="given")]

    def setup(self, run, case):
        me = sym_emulsion(run, "self", case["dim"])
        grid = SMetricGrid(case["dim"]) if case["grid"] == "given" else None
        md = run.input_real("min_distance")
        view = EmView(run, case["dim"], "SphericalDroplet", me.elems)
        for f in sd_symmetry(grid) + finite_facts(run, view, grid, me.length, [md]):
            run.assume(f)
        self.ctx = (run, me, grid, md, me.elems, to_z3(me.length), dict(H.heap_of(run).arr))
        a, b = z3.Ints("sa sb")
        L0 = to_z3(me.length)
        sep = z3.ForAll([a, b], z3.Implies(z3.And(a >= 0, a < L0, b >= 0, b < L0, a != b),
                                           dsub(view, grid, view.ref(a), view.ref(b)) >= md))
        if self.separated:
            sb = z3.Bool("initially_separated")
            run.assume(sb)
            run.assume(sep)
            run.ghost["ro_sep0"] = sb
        return dict(self=me, min_distance=md, grid=grid)


@register
class RemoveOverlapping(RemoveOverlappingBase):
    def post(self, a, ret, case):
        run, me, grid, md, E0, L0, heap0 = self.ctx
        g = run.ghost.get("ro")
        if g is None:
            # the function returned without entering the removal loop (an early return): then nothing may have been removed - which is right
            # only if every pair was already separated - and the remaining clauses are those of the identity ghost maps
            g = ROGhost(run, me)
            g.E0, g.L0 = E0, L0
            jj = z3.Int("gj0")
            run.define(z3.ForAll([jj], z3.And(g.idx(jj) == jj, g.inv(jj) == jj, z3.Not(g.removed(jj)))), "ghost maps of an early return (identity)")
        n = to_z3(me.length)
        view = EmView(run, case["dim"], "SphericalDroplet", me.elems)
        v0 = EmView(run, case["dim"], "SphericalDroplet", E0, heap0)
        k, l, j = z3.Ints("qk ql qj")
        inr = lambda x: z3.And(x >= 0, x < n)
        h = H.heap_of(run)
        out = [("no remaining pair is closer (surface to surface, same metric) than min_distance",
                z3.ForAll([k, l], z3.Implies(z3.And(inr(k), inr(l), k != l), dsub(view, grid, view.ref(k), view.ref(l)) >= md))),
               ("survivors are original objects in their original order",
                z3.And(z3.ForAll([k], z3.Implies(inr(k), z3.And(g.idx(k) >= 0, g.idx(k) < L0, z3.Select(me.elems, k) == z3.Select(E0, g.idx(k))))),
                       z3.ForAll([k, l], z3.Implies(z3.And(inr(k), inr(l), k < l), g.idx(k) < g.idx(l))))),
               ("every removed droplet was too close to one at least as large",
                z3.ForAll([j], z3.Implies(z3.And(j >= 0, j < L0, g.removed(j)),
                                          z3.And(g.wit(j) >= 0, g.wit(j) < L0, g.wit(j) != j,
                                                 dsub(v0, grid, v0.ref(j), v0.ref(g.wit(j))) < md, v0.radius(g.wit(j)) >= v0.radius(j))))),
               ("every original that was not removed is still present",
                z3.ForAll([j], z3.Implies(z3.And(j >= 0, j < L0, z3.Not(g.removed(j))), z3.And(inr(g.inv(j)), g.idx(g.inv(j)) == j)))),
               ("droplet data is not modified", z3.And(*[z3.eq(h.arr[nm], heap0[nm]) for nm in heap0])),
               ("returns None", ret is None)]
        return out

    # concrete
    def bounded_inputs(self, case, tier, seed):
        import random
        rng = random.Random(seed + 5 + case["dim"])
        lat = [0.5, 1.5, 2.5, 3.5]
        radii = [0.5, 1.0, 1.5]
        if tier == "thorough" and case["dim"] == 1:
            for n in range(0, 5):
                for pos in itertools.product(lat, repeat=n):
                    for rad in itertools.product(radii, repeat=n):
                        yield dict(n=n, pos=[[p] for p in pos], rad=list(rad), min_distance=0.0)
        for t in range(40 if tier == "quick" else 600):
            n = rng.choice([0, 1, 2, 3, 4, 5, 6])
            yield dict(n=n, pos=[[rng.choice(lat + [7.5]) for _ in range(case["dim"])] for _ in range(n)],
                       rad=[rng.choice(radii) for _ in range(n)], min_distance=rng.choice([0.0, 0.5, -0.5, 1.0, 0.0]))
        # strongly unequal radii: a small droplet overlaps a large one whose CENTRE is farther away than the centre of its nearest neighbour (a
        # nearest-centre-neighbour query does not see that pair), and droplets nested inside larger ones
        d = case["dim"]
        pad = lambda x: [x] + [0.25] * (d - 1)      # noqa: E731
        yield dict(n=4, pos=[pad(-2.5), pad(-1.5), pad(0.0), pad(1.05)], rad=[0.01, 0.6, 1.0, 0.01], min_distance=0.0)
        yield dict(n=4, pos=[pad(1.05), pad(0.0), pad(-1.5), pad(-2.5)], rad=[0.01, 1.0, 0.6, 0.01], min_distance=0.0)
        yield dict(n=3, pos=[pad(0.0), pad(0.1), pad(3.0)], rad=[2.0, 0.05, 0.9], min_distance=0.2)
        # NEARLY tied radii: the marginally smaller droplet comes first - it is the one to remove (no tolerance in `at least as large`)
        yield dict(n=2, pos=[pad(0.0), pad(1.0)], rad=[1.0, 1.000002], min_distance=0.0)
        yield dict(n=3, pos=[pad(4.0), pad(0.0), pad(1.0)], rad=[0.3, 2.0, 2.0 + 1e-9], min_distance=0.0)
        for t in range(30 if tier == "quick" else 600):
            n = rng.choice([3, 4, 5, 6, 8])
            yield dict(n=n, pos=[[rng.uniform(0, 6) for _ in range(d)] for _ in range(n)],
                       rad=[10 ** rng.uniform(-2.3, 0.3) for _ in range(n)], min_distance=rng.choice([0.0, 0.05, -0.05]))

    def concrete_run(self, case, inputs):
        return check_remove_overlapping(case, inputs)


def check_remove_overlapping(case, inputs):
    em, grid = build_emulsion(case, inputs)
    orig = list(em)
    md = inputs["min_distance"]
    kwargs = dict(min_distance=md)
    if grid is not None:
        kwargs["grid"] = grid
    try:
        em.remove_overlapping(**kwargs)
    except Exception as e:   # noqa: BLE001
        return dict(violated=[f"unexpected exception {type(e).__name__}: {e}"], inputs=inputs)
    bad = []
    sd = lambda a, b: oracle_dist(grid, a.position, b.position) - (a.radius + b.radius)
    tol = 1e-9
    for a, b in itertools.combinations(em, 2):
        if sd(a, b) < md - tol:
            bad.append("no remaining pair is closer (surface to surface, same metric) than min_distance")
    ids = [id(o) for o in orig]
    pos = []
    for d in em:
        if id(d) not in ids:
            bad.append("survivors are original objects in their original order")
            break
        pos.append(ids.index(id(d)))
    if pos != sorted(pos):
        bad.append("survivors are original objects in their original order")
    surv = {id(d) for d in em}
    for o in orig:
        if id(o) not in surv:
            if not any(w is not o and sd(o, w) < md + tol and w.radius >= o.radius for w in orig):
                bad.append("every removed droplet was too close to one at least as large")
    if orig:
        rmax = max(o.radius for o in orig)
        big = [o for o in orig if o.radius == rmax]
        if len(big) == 1 and id(big[0]) not in surv:
            bad.append("a strictly largest droplet always survives")
    before = [id(d) for d in em]
    em.remove_overlapping(**kwargs)
    if [id(d) for d in em] != before:
        bad.append("a second call removes nothing")
    return dict(violated=sorted(set(bad)), observed=f"{len(orig)} -> {len(em)} droplets", inputs=inputs)


@register
class RemoveOverlappingIdempotent(RemoveOverlappingBase):
    """second call removes nothing: with every pair already separated the emulsion is left unchanged"""
    variant = "already-separated"
    separated = True

    def post(self, a, ret, case):
        run, me, grid, md, E0, L0, heap0 = self.ctx
        g = run.ghost.get("ro")
        n = to_z3(me.length)
        k = z3.Int("ik")
        return [("nothing is removed from an emulsion whose pairs are all separated",
                 z3.And(n == L0, z3.ForAll([k], z3.Implies(z3.And(k >= 0, k < n), z3.Select(me.elems, k) == z3.Select(E0, k)))))]


@register
class LargestSurvives(Lemma):
    """a strictly largest droplet has no witness 'at least as large', so by the removal clause it survives"""
    name = "strictly-largest-droplet-survives"

    def obligations(self):
        rad = z3.Function("rad", I, Rl)
        removed = z3.Function("removed", I, z3.BoolSort())
        wit = z3.Function("wit", I, I)
        L0, j, b = z3.Ints("L0 j b")
        clause = z3.ForAll([j], z3.Implies(z3.And(j >= 0, j < L0, removed(j)),
                                           z3.And(wit(j) >= 0, wit(j) < L0, wit(j) != j, rad(wit(j)) >= rad(j))))
        strictly = z3.ForAll([j], z3.Implies(z3.And(j >= 0, j < L0, j != b), rad(j) < rad(b)))
        yield ("largest survives", [b >= 0, b < L0, clause, strictly], z3.Not(removed(b)))


@register
class EuclidFacts(Lemma):
    """symmetry and non-negativity of DE follow from its definition (so they are not extra assumptions)"""
    name = "euclidean-distance-symmetric-nonnegative"

    def obligations(self):
        for dim in (1, 2, 3):
            xs = [z3.Real(f"x{j}") for j in range(dim)]
            ys = [z3.Real(f"y{j}") for j in range(dim)]
            s = sum(((x - y) * (x - y) for x, y in zip(xs[1:], ys[1:])), (xs[0] - ys[0]) * (xs[0] - ys[0]))
            s2 = sum(((y - x) * (y - x) for x, y in zip(xs[1:], ys[1:])), (ys[0] - xs[0]) * (ys[0] - xs[0]))
            a, b = z3.Reals("a b")
            yield (f"dim {dim}: sqrt(|p-q|^2) == sqrt(|q-p|^2) >= 0", [a >= 0, a * a == s, b >= 0, b * b == s2], z3.And(a == b, a >= 0))


@register
class SDSymmetric(Lemma):
    """SD / CD inherit symmetry and CD >= 0 from the metric (so remove_overlapping may use them without the definitions)"""
    name = "surface-distance-symmetric"

    def obligations(self):
        for dim in (1, 2, 3):
            for grid in (None, SMetricGrid(dim)):
                P = z3.Function("P", I, I, Rl)
                Rr = z3.Function("R", I, Rl)
                a, b, x, y = z3.Ints("a b x y")
                pos = lambda r: [P(r, z3.IntVal(j)) for j in range(dim)]
                d = lambda u, v: dist_spec(grid, pos(u), pos(v))
                defs = [z3.ForAll([a, b], z3.And(CD(grid)(a, b) == d(a, b), SD(grid)(a, b) == d(a, b) - (Rr(a) + Rr(b))))]
                yield (f"dim {dim}, {'grid' if grid else 'euclid'}: SD, CD symmetric, CD >= 0", defs + metric_facts(grid, dim),
                       z3.And(SD(grid)(x, y) == SD(grid)(y, x), CD(grid)(x, y) == CD(grid)(y, x), CD(grid)(x, y) >= 0))
