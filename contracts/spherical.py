"""Contracts for droplets/tools/spherical.py (and pde.grids.spherical.volume_from_radius).

Spec functions (pyvc.spec): V_d(r) = 2r, πr², 4πr³/3;  S_d(r) = 2, 2πr, 4πr².
R_d(v) is defined *relationally*: the unique r >= 0 with V_d(r) = v.
"""
from __future__ import annotations

import math

import z3

from pyvc import spec as S
from pyvc.contract import Contract, register
from pyvc.engine import SymRaise
from pyvc.values import SCell, SExc, SFunc, Undecided, const_of, to_real

from .common import fnum

MOD = "droplets.tools.spherical"


def _val(x):
    return x.v if isinstance(x, SCell) else x


REL = {
    # relation(d, x, ret) -> [(clause, formula)]
    "radius_from_volume": lambda d, x, r: [("result is non-negative", S.ge(r, 0)),
                                           (f"V_{d}(result) == volume", S.eq(S.V(d, r), x))],
    "volume_from_radius": lambda d, x, r: [(f"result == V_{d}(radius)", S.eq(r, S.V(d, x)))],
    "surface_from_radius": lambda d, x, r: [(f"result == S_{d}(radius)", S.eq(r, S.S(d, x)))],
    "radius_from_surface": lambda d, x, r: [("result is non-negative", S.ge(r, 0)),
                                            (f"S_{d}(result) == surface", S.eq(S.S(d, r), x))],
}


class Conv(Contract):
    """A conversion function `f(x[, dim])`."""
    rel = ""
    argname = "x"
    takes_dim = True
    dims = (1, 2, 3)
    fixed_dim = None            # for dimension-specialised variants
    raises_for = {}             # dim -> exception class that must be raised
    other_exc = "NotImplementedError"
    kinds = ("scalar", "array")

    def cases(self):
        out = []
        ds = list(self.dims) + (["other"] if self.takes_dim else [])
        for d in ds:
            for k in self.kinds:
                out.append(dict(dim=d, arg=k))
        return out

    def setup(self, run, case):
        x = run.input_real(self.argname)
        run.assume(x >= 0)
        a = {self.argname: SCell(x, "arg") if case["arg"] == "array" else x}
        if self.takes_dim:
            if case["dim"] == "other":
                d = run.input_int("dim")
                run.assume(z3.And(d != 1, d != 2, d != 3))
                a["dim"] = d
            else:
                a["dim"] = case["dim"]
        return a

    def post(self, a, ret, case):
        d = case["dim"]
        if d == "other":
            return [(f"unsupported dimension must raise {self.other_exc}", False)]
        if d in self.raises_for:
            return [(f"dim={d} must raise {self.raises_for[d]}", False)]
        x = _val(a[self.argname])
        out = []
        if case["arg"] == "array":
            out.append(("array argument gives an array over the same index space",
                        isinstance(ret, SCell) and ret.space == a[self.argname].space))
        r = _val(ret)
        if not (isinstance(r, z3.ExprRef) or isinstance(r, (int,)) or hasattr(r, "numerator")):
            return out + [(f"result is a number (got {type(r).__name__})", False)]
        r = S.R(r)
        return out + REL[self.rel](d, x, r)

    def raises(self, a, exc, case):
        d = case["dim"]
        want = self.other_exc if d == "other" else self.raises_for.get(d)
        if want is None:
            return [(f"no exception escapes (raised {exc.cls_name})", False)]
        return [(f"raises {want} (raised {exc.cls_name})", exc.cls_name == want)]

    # -- modular use
    def apply(self, engine, run, fi, args, kwargs):
        params = [p.arg for p in fi.node.args.args]
        b = dict(zip(params, args))
        b.update(kwargs)
        x = b[params[0]]
        d = self.fixed_dim if not self.takes_dim else b.get("dim")
        dc = const_of(d) if d is not None else None
        if dc is None:
            from pyvc.values import to_z3
            for cand in self.dims:
                if run.branch(to_z3(d) == cand):
                    dc = cand
                    break
            else:
                raise SymRaise(SExc(self.other_exc, ()))
        if dc not in self.dims:
            raise SymRaise(SExc(self.other_exc, ()))
        if dc in self.raises_for:
            raise SymRaise(SExc(self.raises_for[dc], ()))
        xv = to_real(_val(x))
        run.oblige(f"requires of {fi.qualname}: {params[0]} >= 0", xv >= 0, kind="requires")
        r = run.fresh_real(self.rel)
        for nm, f in REL[self.rel](int(dc), xv, r):
            run.assume(f)
        run.trust(f"contract:{self.key} (verified separately)")
        return SCell(r, x.space) if isinstance(x, SCell) else r

    # -- concrete side
    def native(self, case):
        """python callable f(x) of the real code for this case"""
        raise NotImplementedError

    def realise(self, case, model):
        if not model:
            return None
        return {self.argname: fnum(model.get(self.argname, 1.0)), "dim": model.get("dim")}

    def concrete_run(self, case, inputs):
        import numpy as np
        d = case["dim"]
        x = float(inputs[self.argname])
        violated, observed = [], None
        try:
            if d == "other":
                dd = int(inputs.get("dim") or 4)
                f = self.native(dict(case, dim=dd))
            else:
                f = self.native(case)
            arg = np.full((2, 3), x) if case["arg"] == "array" else x
            ret = f(arg)
            observed = repr(ret)
        except Exception as e:      # noqa: BLE001
            want = self.other_exc if d == "other" else self.raises_for.get(d)
            if want is None or type(e).__name__ != want:
                violated.append(f"unexpected exception {type(e).__name__}: {e}")
            return dict(violated=violated, observed=f"raised {type(e).__name__}", inputs=inputs)
        if d == "other" or d in self.raises_for:
            violated.append("must raise")
            return dict(violated=violated, observed=observed, inputs=inputs)
        if case["arg"] == "array":
            if not (isinstance(ret, np.ndarray) and ret.shape == arg.shape):
                violated.append(f"array argument gives an array of the same shape (got {observed})")
                return dict(violated=violated, observed=observed, inputs=inputs)
            # zero-size arrays are arrays, too: every variant maps them to an array of the same (empty) shape
            for shp in ((0,), (0, 3)):
                try:
                    r0 = f(np.zeros(shp))
                    if not (isinstance(r0, np.ndarray) and r0.shape == shp):
                        violated.append(f"array argument gives an array of the same shape (zero-size argument of shape {shp} gave {r0!r})")
                except Exception as e:      # noqa: BLE001
                    violated.append(f"array argument gives an array of the same shape (zero-size argument of shape {shp} raised {type(e).__name__})")
            vals = [float(v) for v in ret.flat]
        else:
            try:
                vals = [float(ret)]
            except Exception:
                violated.append("result is a number")
                return dict(violated=violated, observed=observed, inputs=inputs)
        for r in vals:
            for nm, ok in REL[self.rel](d, x, r):
                if not ok:
                    violated.append(nm)
        return dict(violated=sorted(set(violated)), observed=observed, inputs=inputs)

    def bounded_inputs(self, case, tier, seed):
        import random
        rng = random.Random(seed * 7919 + hash(self.ident) % 1000)
        n = 12 if tier == "quick" else 200
        xs = [0.0, 1.0, 1e-15, 1e15, 2.5, 1e-14]
        xs += [10 ** rng.uniform(-15, 15) for _ in range(n)]
        for x in xs:
            yield {self.argname: x, "dim": 4 if case["dim"] == "other" else case["dim"]}


def _sph():
    import droplets.tools.spherical as sp
    return sp


# ---------------------------------------------------------------------------
@register
class RadiusFromVolume(Conv):
    key = f"{MOD}:radius_from_volume"
    rel, argname = "radius_from_volume", "volume"

    def native(self, case):
        return lambda v: _sph().radius_from_volume(v, case["dim"])


@register
class SurfaceFromRadius(Conv):
    key = f"{MOD}:surface_from_radius"
    rel, argname = "surface_from_radius", "radius"

    def native(self, case):
        return lambda r: _sph().surface_from_radius(r, case["dim"])


@register
class RadiusFromSurface(Conv):
    key = f"{MOD}:radius_from_surface"
    rel, argname = "radius_from_surface", "surface"
    raises_for = {1: "RuntimeError"}

    def native(self, case):
        return lambda s: _sph().radius_from_surface(s, case["dim"])


@register
class PdeVolumeFromRadius(Conv):
    """Dependency function, extracted from site-packages and verified (not assumed)."""
    key = "pde.grids.spherical:volume_from_radius"
    rel, argname = "volume_from_radius", "radius"

    def native(self, case):
        from pde.grids.spherical import volume_from_radius
        return lambda r: volume_from_radius(r, case["dim"])


@register
class RadiusFromVolumeNd(Conv):
    key = f"{MOD}:make_radius_from_volume_nd_compiled.<radius_from_volume>"
    rel, argname = "radius_from_volume", "volume"

    def native(self, case):
        f = _sph().make_radius_from_volume_nd_compiled()
        return lambda v: f(v, case["dim"])


@register
class VolumeFromRadiusNd(Conv):
    key = f"{MOD}:make_volume_from_radius_nd_compiled.<volume_from_radius_impl>"
    rel, argname = "volume_from_radius", "radius"

    def native(self, case):
        f = _sph().make_volume_from_radius_nd_compiled()
        return lambda r: f(r, case["dim"])


class Factory(Conv):
    """`make_X_compiled(dim)` returns a function; the contract is about that function:
    make_X_compiled(d)(x) satisfies the relation of dimension d  (jit = identity, A-NB)."""
    modular = False
    takes_dim = True
    inner_param = "x"

    def call(self, engine, run, fi, a, case):
        f = engine.call_function(run, fi, [a["dim"]], {})
        run.inputs.setdefault(self.argname, None)
        return engine.invoke(run, f, [a[self.argname]], {})

    def native(self, case):
        fac = getattr(_sph(), self.key.split(":")[1])
        return fac(case["dim"])


@register
class MakeRadiusFromVolume(Factory):
    key = f"{MOD}:make_radius_from_volume_compiled"
    rel, argname = "radius_from_volume", "volume"


@register
class MakeVolumeFromRadius(Factory):
    key = f"{MOD}:make_volume_from_radius_compiled"
    rel, argname = "volume_from_radius", "radius"


@register
class MakeSurfaceFromRadius(Factory):
    key = f"{MOD}:make_surface_from_radius_compiled"
    rel, argname = "surface_from_radius", "radius"


@register
class NdFactoryRadius(Factory):
    """make_radius_from_volume_nd_compiled()(v, d)"""
    key = f"{MOD}:make_radius_from_volume_nd_compiled"
    rel, argname = "radius_from_volume", "volume"

    def call(self, engine, run, fi, a, case):
        f = engine.call_function(run, fi, [], {})
        if not (isinstance(f, SFunc) and f.info.key == RadiusFromVolumeNd.key):
            raise Undecided("factory no longer returns the function under contract")
        run._verifying = None     # use the verified contract of the inner function
        return engine.invoke(run, f, [a[self.argname], a["dim"]], {})

    def native(self, case):
        f = _sph().make_radius_from_volume_nd_compiled()
        return lambda v: f(v, case["dim"])


@register
class NdFactoryVolume(NdFactoryRadius):
    key = f"{MOD}:make_volume_from_radius_nd_compiled"
    rel, argname = "volume_from_radius", "radius"

    def call(self, engine, run, fi, a, case):
        f = engine.call_function(run, fi, [], {})
        if not (isinstance(f, SFunc) and f.info.key == VolumeFromRadiusNd.key):
            raise Undecided("factory no longer returns the function under contract")
        run._verifying = None
        return engine.invoke(run, f, [a[self.argname], a["dim"]], {})

    def native(self, case):
        f = _sph().make_volume_from_radius_nd_compiled()
        return lambda r: f(r, case["dim"])


@register
class SurfaceOverloadDim1(Conv):
    """The numba `@overload` of the dim == 1 surface helper: the implementation numba selects for an
    array-typed / scalar-typed argument (this text, not the Python fallback, is what compiled code runs)."""
    key = f"{MOD}:make_surface_from_radius_compiled.<ol_surface_from_radius>"
    rel, argname = "surface_from_radius", "radius"
    modular = False
    takes_dim = False
    dims = (1,)
    fixed_dim = 1

    def call(self, engine, run, fi, a, case):
        from pyvc.values import SOpaque
        is_arr = case["arg"] == "array"
        typ = SOpaque("numba-type", attrs={"isinstance": lambda run, n: (n == "numba.types.Array") == is_arr
                                           if n == "numba.types.Array" else False})
        from pyvc.engine import Frame
        from pyvc.values import SModule
        from pyvc import source
        clo = Frame(None, {"nb": SModule("numba")}, None, source.load_module(fi.module))
        impl = engine.call_function(run, fi, [typ], {}, closure=clo)
        run.trust("numba @overload: the returned implementation is what compiled code executes for that argument type")
        return engine.invoke(run, impl, [a[self.argname]], {})

    def native(self, case):
        return _sph().make_surface_from_radius_compiled(1)
