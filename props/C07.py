"""C07 -- tracks follow droplet identity."""
from contracts import collections as co, emulsions as em, tracks as tk
from pyvc.bounded import ContractSampling

LEVEL = "other"
LEVEL_TEXT = "Proved: SphericalDroplet.overlaps <=> surface distance < 0 in the same metric (Euclidean, or the uninterpreted grid metric so that a dropped grid= is noticed), for dims 1-3; in the 'distance' matcher the matrix handed to the greedy loop has one row per alive track's last position and one column per droplet of the frame and is computed with grid.distance(coords='cartesian') when a grid is given, Euclidean otherwise; links are created through the verified DropletTrack.append / constructor. The 'overlap' matcher (match_tracks#0) is verified as a whole (any number of alive tracks / droplets): a droplet extends a track only if that track is an alive track whose last droplet overlaps it (tested with the grid's metric) AND it is the only such track; otherwise (none or several) it starts a new track - so identity is followed exactly when it is unambiguous, and a droplet overlapping nothing of the previous frame always starts a new track. For the 'distance' matcher the greedy-order, cut-off and one-to-one clauses are decided by the exhaustive small-scope oracle only (loops truncated) - hence level 'other'."
LEVEL_NOTE = 'A-FP; A-PDE metric symmetric/non-negative; scipy cdist contract; functools.partial; loops of match_tracks truncated (bounded oracle: all 1-d lattice time courses incl. splits/merges/empty frames, all pairs of <=3-droplet frames with distinct distances, random 1-3-d courses)'
CONTRACTS = [c.ident for c in (em.Overlaps(), tk.MatchDistancePre(), tk.MatchOverlap(), co.TrackAppend(), tk.TrackInit())]
LEMMAS = ["surface-distance-symmetric"]
BOUNDED = [tk.TrackingOracle(), ContractSampling("overlap-predicate-on-real-droplets", [em.Overlaps().ident],
                                                 "12/200 droplet pairs per dimension, Euclidean and periodic metric")]
