"""Decides one property: VC generation + discharge in a process pool, vacuity guards, replay of
counter-models on the real code, bounded stand-ins, known findings, evidence, exit code.

exit 0 held / 1 VIOLATION (+replay) / 2 undecided / 3 checker failure
"""
from __future__ import annotations

import argparse
import importlib
import json
import multiprocessing as mp
import os
import re
import sys
import time
import traceback
from pathlib import Path

HERE = Path(__file__).resolve().parent.parent
sys.path.insert(0, str(HERE))
SRC_ROOT = Path(os.environ.get("PYDROPLETS_SRC", "/repo")).resolve()
sys.path.insert(0, str(SRC_ROOT))     # the analysed tree is also the tree that is imported natively


def slug(s):
    return re.sub(r"[^A-Za-z0-9_.-]+", "_", s)[:120]


def load_known():
    p = HERE / "known_findings.jsonl"
    out = []
    if p.exists():
        for l in p.read_text().splitlines():
            l = l.strip()
            if l and not l.startswith("#"):
                out.append(json.loads(l))
    return out


def known_match(known, pid, sig):
    """sig: string identifying the failing obligation/input.  Only status == known suppresses."""
    for k in known:
        if k.get("status") == "known" and k.get("property") == pid and re.search(k["match"], sig):
            return k
    return None


def _bounded_task(args):
    modname, idx, tier, seed = args
    try:
        mp.current_process()._config["daemon"] = False     # bounded stand-ins may start worker processes themselves (C15)
        mod = importlib.import_module(modname)
        b = mod.BOUNDED[idx]
        t0 = time.time()
        r = b.run(tier, seed)
        r.setdefault("violations", [])
        r["name"] = b.name
        r["bound"] = b.bound
        r["time_s"] = round(time.time() - t0, 2)
        return r
    except Exception:
        return dict(name=f"{modname}#{idx}", crash=traceback.format_exc(), violations=[], evaluations=0, distinct=0,
                    bound="?")


_BASELINE = {}


def _vc_task(args):
    modname, task = args
    importlib.import_module(modname)
    from pyvc import contract, models
    # contracts install their own constructor / attribute models in setup(): restore the import-time state before every task so that a
    # pool worker that has verified one function does not carry its models into the next one
    if not _BASELINE:
        _BASELINE.update(ctor=dict(models.CONSTRUCTORS), native=list(models.NATIVE_ATTRS), ext=dict(models.EXTERNALS))
    else:
        models.CONSTRUCTORS.clear()
        models.CONSTRUCTORS.update(_BASELINE["ctor"])
        models.NATIVE_ATTRS[:] = _BASELINE["native"]
        models.EXTERNALS.clear()
        models.EXTERNALS.update(_BASELINE["ext"])
    return contract.run_task(task)


def main(argv=None):
    ap = argparse.ArgumentParser()
    ap.add_argument("property")
    ap.add_argument("--tier", default=os.environ.get("VERIF_TIER", "quick"), choices=["quick", "thorough"])
    ap.add_argument("--replay", default=None)
    ap.add_argument("--jobs", type=int, default=int(os.environ.get("VERIF_JOBS", "16")))
    ap.add_argument("--no-evidence", action="store_true")
    args = ap.parse_args(argv)
    pid = args.property
    os.environ["VERIF_TIER"] = args.tier       # contracts may offer more cases in the thorough tier
    seed = int(os.environ.get("VERIF_SEED", "0") or 0)
    t_start = time.time()
    modname = f"props.{pid}"
    try:
        prop = importlib.import_module(modname)
    except Exception:
        traceback.print_exc()
        print(f"CHECKER-FAILURE property={pid}: cannot load {modname}")
        return 3
    from pyvc import contract, source

    if args.replay:
        return do_replay_file(pid, args.replay)

    ok, got, want = source.check_tree_is_imported_tree()
    tree_note = f"analysed tree {want}; `import droplets` resolves to {got}"
    import logging
    logging.disable(logging.WARNING)
    import droplets as _d
    native = str(Path(_d.__file__).resolve().parent)
    if native != str((SRC_ROOT / "droplets").resolve()):
        print(f"CHECKER-FAILURE property={pid}: native import uses {native}, analysed tree is {SRC_ROOT}/droplets")
        return 3

    tasks = []
    only = getattr(prop, "CASE_FILTER", {})      # optional: ident -> predicate(case); a property may use a subset of a contract's cases
    for ident in getattr(prop, "CONTRACTS", []):
        c = contract.REGISTRY[ident]
        for i, case_ in enumerate(c.cases()):
            if ident in only and not only[ident](case_):
                continue
            tasks.append(("case", ident, i))
    for name in getattr(prop, "LEMMAS", []):
        tasks.append(("lemma", name))
    bounded = list(getattr(prop, "BOUNDED", []))

    ctx = mp.get_context("fork")
    results, bresults = [], []
    # every task has a deadline: a hung solver / engine loop must not hang the check (it becomes `undecided`, exit 2)
    budget = float(os.environ.get("VERIF_TASK_TIMEOUT", "900" if args.tier == "quick" else "7200"))
    with ctx.Pool(min(args.jobs, max(1, len(tasks) + len(bounded)))) as pool:
        ars = [(t, pool.apply_async(_vc_task, ((modname, t),))) for t in tasks]
        brs = [(i, pool.apply_async(_bounded_task, ((modname, i, args.tier, seed),))) for i in range(len(bounded))]
        deadline = time.time() + budget
        for t, ar in ars:
            try:
                results.append(ar.get(timeout=max(1.0, deadline - time.time())))
            except mp.TimeoutError:
                nm = t[1] if t[0] == "case" else "lemma:" + t[1]
                results.append(dict(contract=nm, key=nm, case=str(t[2]) if len(t) > 2 else "-", case_index=t[2] if len(t) > 2 else 0, obligations=[], covers=[],
                                    trusted=[], paths=0, undecided=f"no result within {budget:.0f} s (task abandoned)", time_s=budget, source_hash=None, span=None))
        for i, br in brs:
            try:
                bresults.append(br.get(timeout=max(1.0, deadline - time.time() + (600 if args.tier == "quick" else 7200))))
            except mp.TimeoutError:
                bresults.append(dict(name=f"{modname}#{i}", crash=f"bounded stand-in did not finish within its time budget", violations=[], evaluations=0,
                                     distinct=0, bound="?"))
        pool.terminate()

    known = load_known()
    violations, known_hits, undecided, crashes = [], [], [], []
    n_obl = n_dis = 0
    by_backend, solver_time = {}, 0.0
    funcs = {}
    trusted = set()
    vac = dict(requires_sat=0, covers_sat=0, covers_total=0, covers_unknown=0)
    samples = []
    failed = []
    cross = {"z3-4.8": {}, "cvc5-1.0": {}}
    for r in results:
        if r.get("crash"):
            crashes.append((r["contract"], r["crash"]))
            continue
        if r.get("undecided"):
            undecided.append(f"{r['contract']}[{r['case']}]: {r['undecided']}")
        if r["key"] and r.get("source_hash"):
            funcs[r["key"]] = dict(source_hash=r["source_hash"], span=r["span"])
        trusted |= set(r.get("trusted", []))
        for cv in r["covers"]:
            vac["covers_total"] += 1
            if cv["status"] == "sat":
                vac["covers_sat"] += 1
                if cv["name"] == "requires":
                    vac["requires_sat"] += 1
            elif cv["status"] == "unknown":
                vac["covers_unknown"] += 1
            elif cv["name"] == "requires" or cv["outcome"] == "lemma":
                crashes.append((r["contract"], f"vacuous: cover `{cv['name']}` of case {r['case']} is unsatisfiable"))
        exits_ok = [cv for cv in r["covers"] if (cv["name"].startswith("exit") or cv["name"] == "truncation point")
                    and cv["status"] in ("sat", "unknown")]
        has_failed = any(ob["status"] == "sat" for ob in r["obligations"])     # a failed obligation legitimately ends its path
        if r["contract"].startswith("lemma:") is False and not r.get("undecided") and not exits_ok and not has_failed:
            crashes.append((r["contract"], f"vacuous: no reachable exit in case {r['case']}"))
        for ob in r["obligations"]:
            n_obl += 1
            solver_time += ob["time_s"]
            if ob["status"] == "unsat":
                n_dis += 1
                by_backend[ob["backend"]] = by_backend.get(ob["backend"], 0) + 1
            elif ob["status"] == "sat":
                failed.append((r, ob))
            else:
                undecided.append(f"{ob['ident']} [{r['case']}]: solver unknown ({ob.get('tried')})")
            for bk, res in (ob.get("cross") or {}).items():
                cross[bk][res] = cross[bk].get(res, 0) + 1
                if res == "sat" and ob["status"] == "unsat":
                    crashes.append((ob["ident"], f"back ends disagree: {ob['backend']} says unsat, {bk} says sat"))
            if len(samples) < 4 and ob["status"] == "unsat":
                samples.append(dict(obligation=ob["ident"], case=r["case"], result=ob["status"], backend=ob["backend"],
                                    time_s=ob["time_s"], smt2_bytes=ob.get("smt2_bytes")))

    # --- failed obligations: replay on the real code
    # replays of runs against a scratch copy of the sources (seeded changes, mutants) are kept apart from those of /repo itself
    rdir = (HERE / "replays" / pid) if str(SRC_ROOT) == "/repo" else (HERE / ".scratch" / "replays-scratch" / pid)
    for r, ob in failed:
        c = contract.REGISTRY.get(r["contract"])
        sig = f"vc:{ob['ident']}[{r['case']}]"
        k = known_match(known, pid, sig)
        if k:
            known_hits.append((k, sig))
            continue
        rdir.mkdir(parents=True, exist_ok=True)
        rp = rdir / (slug(f"{ob['ident']}__{r['case']}") + ".json")
        rec = dict(property=pid, kind="vc", obligation=ob["ident"], obligation_name=ob["name"], contract=r["contract"],
                   case_index=r["case_index"], case=r["case"], function=ob["func"], line=ob["line"],
                   source=r.get("span"), solver=dict(status=ob["status"], backend=ob["backend"], model=ob.get("model"),
                                                     smt2_tail=ob.get("smt2")), tree=str(SRC_ROOT))
        reproduced = None
        lem = contract.LEMMAS.get(r["contract"][6:]) if r["contract"].startswith("lemma:") else None
        if lem is not None and hasattr(lem, "concrete_run"):
            try:
                res = lem.concrete_run(ob["name"], ob.get("model"))
                rec["inputs"], rec["native"] = ob.get("model"), res
                reproduced = bool(res and res.get("violated"))
            except Exception:
                rec["replay_error"] = traceback.format_exc()
        if c is not None:
            try:
                case = c.cases()[r["case_index"]]
                res = None
                try:
                    inputs = c.realise(case, ob.get("model"))
                    rec["inputs"] = inputs
                    res = c.concrete_run(case, inputs) if inputs is not None else None
                except Exception:
                    rec["model_replay_error"] = traceback.format_exc()[-1500:]
                rec["native"] = res
                reproduced = bool(res and res.get("violated"))
                if not reproduced:
                    res2 = c.search(case, args.tier, seed)
                    if res2 and res2.get("violated"):
                        rec["model_input_did_not_reproduce"] = dict(inputs=rec.get("inputs"), native=res)
                        rec["inputs"] = res2.get("inputs")
                        rec["native"] = res2
                        rec["found_by"] = "bounded search over the contract's input generator"
                        reproduced = True
            except Exception:
                rec["replay_error"] = traceback.format_exc()
        rec["reproduced_on_real_code"] = bool(reproduced)
        rp.write_text(json.dumps(rec, indent=1, default=str))
        rel = rp.relative_to(HERE)
        violations.append((f"replay={rel}" + ("" if reproduced else " no-failing-input-found"), sig))

    # --- bounded stand-ins
    bsum = []
    for b in bresults:
        if b.get("crash"):
            crashes.append((b["name"], b["crash"]))
            continue
        bsum.append(dict(function=b["name"], bound=b["bound"], evaluations=b.get("evaluations", 0),
                         distinct=b.get("distinct", 0), violations=len(b["violations"]), time_s=b.get("time_s")))
        for v in b["violations"]:
            sig = f"bounded:{b['name']}:{v.get('signature', v.get('what', ''))}"
            k = known_match(known, pid, sig)
            if k:
                known_hits.append((k, sig))
                continue
            rdir.mkdir(parents=True, exist_ok=True)
            rp = rdir / (slug(f"bounded__{b['name']}__{v.get('signature', 'x')}") + ".json")
            rp.write_text(json.dumps(dict(property=pid, kind="bounded", bounded=b["name"], **v, tree=str(SRC_ROOT)),
                                     indent=1, default=str))
            violations.append((f"replay={rp.relative_to(HERE)}", sig))

    wall = round(time.time() - t_start, 2)
    # --- verdict
    # a violation that was found (and replayed) stays a violation even if another task of the run crashed or stayed undecided; a crash
    # without any violation is a checker failure (on the unchanged tree that is what a broken check looks like)
    code = 0
    if violations:
        code = 1
    elif crashes:
        code = 3
    elif undecided:
        code = 2
    n_trivial = sum(r.get("trivial", 0) for r in results if not r.get("crash"))
    if n_obl + n_trivial == 0 and not bsum:
        crashes.append(("driver", "zero obligations generated"))
        code = 3

    if os.environ.get("PYVC_VERBOSE"):
        for r in sorted(results, key=lambda r: -r.get("time_s", 0))[:25]:
            print(f"  time {r.get('time_s'):8.2f}s paths={r.get('paths')} obl={len(r['obligations'])} {r['contract']}[{r['case']}]")
    for k, sig in known_hits:
        print(f"KNOWN-FINDING: property={pid} {k['what']}  [{sig}]")
    seen_v = set()
    for v, sig in violations:
        if v in seen_v:
            continue
        seen_v.add(v)
        print(f"VIOLATION property={pid} {v}")
        print(f"  failed: {sig}")
    for u in undecided[:40]:
        print(f"UNDECIDED {u}")
    for who, c in crashes:
        print(f"CHECKER-FAILURE {who}: {c}")

    level = getattr(prop, "LEVEL", "proof")
    if not args.no_evidence:
        ev = dict(
            property_id=pid, tier=args.tier, seed=seed, level=level, wall_s=wall,
            violations=len(seen_v),
            assumptions=sorted(set(getattr(prop, "ASSUMPTIONS", [])) | {
                "A-FP: Python/numpy floats are treated as mathematical reals, ints as mathematical integers",
                "engine: the pyvc symbolic executor implements the CPython semantics of the stated subset faithfully",
            }),
            coverage=dict(
                obligations=n_obl, discharged=n_dis,
                checker_cmd=f"./check {pid} --tier {args.tier}",
                trusted_base=sorted(trusted | set(getattr(prop, "TRUSTED", []))),
                explanation=(getattr(prop, "EXPLANATION", "") or getattr(prop, "LEVEL_TEXT", "") or
                             "contract-based deductive verification of the functions listed under functions_under_contract; "
                             "bounded stand-ins listed under bounded_standins are not counted as proved"),
                functions_under_contract=funcs,
                by_backend=by_backend, solver_time_s=round(solver_time, 3),
                cross_check_by_independent_backends=(cross if args.tier == "thorough" else "thorough tier only"),
                trivially_true_obligations_folded=sum(r.get("trivial", 0) for r in results),
                paths=sum(r.get("paths", 0) for r in results),
                cases=len([t for t in tasks if t[0] == "case"]), lemmas=len([t for t in tasks if t[0] == "lemma"]),
                vacuity=vac, undecided=undecided[:40], samples=samples or [dict(note="no discharged obligation")],
                bounded_standins=bsum, clauses=getattr(prop, "CLAUSES", {}),
                known_findings_reported=[k["what"] for k, _ in known_hits],
                evaluations=n_obl + sum(b["evaluations"] for b in bsum),
                distinct_nontrivial=n_obl + sum(b["distinct"] for b in bsum),
                rule="obligations: one SMT query per (function, case, path, clause) after folding syntactically true goals; "
                     "bounded stand-ins: see bounded_standins[].bound; distinct = distinct inputs by value",
                tree=tree_note,
            ))
        (HERE / "evidence").mkdir(exist_ok=True)
        (HERE / "evidence" / f"{pid}.json").write_text(json.dumps(ev, indent=1, default=str))
    print(f"[{pid}] tier={args.tier} obligations={n_obl} discharged={n_dis} failed={len(failed)} "
          f"undecided={len(undecided)} bounded={[(b['function'], b['evaluations'], b['violations']) for b in bsum]} "
          f"wall={wall}s exit={code}")
    return code


def do_replay_file(pid, path):
    from pyvc import contract
    rec = json.loads(Path(path).read_text())
    if rec.get("kind") == "bounded":
        prop = importlib.import_module(f"props.{pid}")
        for b in prop.BOUNDED:
            if b.name == rec["bounded"]:
                res = b.replay(rec)
                print(json.dumps(res, indent=1, default=str))
                return 1 if res.get("violated") else 0
        print("unknown bounded check")
        return 3
    if rec["contract"].startswith("lemma:"):
        importlib.import_module(f"props.{pid}")
        res = contract.LEMMAS[rec["contract"][6:]].concrete_run(rec["obligation_name"], rec.get("inputs"))
    else:
        c = contract.REGISTRY[rec["contract"]]
        case = c.cases()[rec["case_index"]]
        res = c.concrete_run(case, rec.get("inputs"))
    print(json.dumps(res, indent=1, default=str))
    if res and res.get("violated"):
        print(f"VIOLATION property={pid} replay={path}")
        return 1
    return 0


if __name__ == "__main__":
    sys.exit(main())
