"""Contract for droplets/image_analysis.py:refine_droplet (C04 wrapper part, C09 call-site safety, C19 promotion)."""
from __future__ import annotations

import z3

from pyvc import models, ops, source
from pyvc.contract import Contract, register
from pyvc.engine import SymRaise, _MISSING
from pyvc.values import (SArr, SCell, SDtype, SExc, SInf, SMaybeNaN, SNative, SObj, SOpaque, SRec, SSeq, Undecided, const_of, is_num,
                         to_real, to_z3)

from .common import sym_droplet
from .gridmodel import SField, SGrid, SGridPoint

IA = "droplets.image_analysis"
DM = "droplets.droplets"
Rl = z3.RealSort()


# --- numpy helpers used by refine_droplet (trusted models) ----------------------------------------------
@models.external("numpy.lib.recfunctions.structured_to_unstructured")
def s2u(engine, run, a, k):
    rec = a[0]
    if not isinstance(rec, SRec):
        raise Undecided("structured_to_unstructured of a non-record")
    out = []
    for name in rec.names():
        v = rec.get(name)
        if isinstance(v, SArr):
            out.extend(v.elems)
        elif isinstance(v, SMaybeNaN):
            run.oblige(f"record field `{name}` holds a number when the parameters are flattened", z3.Not(to_z3(v.isnan)), kind="implicit")
            out.append(v.val)
        elif isinstance(v, SSeq):
            raise Undecided("flattening a record with a symbolic number of amplitudes")
        else:
            out.append(v)
    return SArr(out)


@models.external("numpy.lib.recfunctions.unstructured_to_structured")
def u2s(engine, run, a, k):
    arr = a[0]
    dt = k.get("dtype", a[1] if len(a) > 1 else None)
    if not (isinstance(arr, SArr) and isinstance(dt, SDtype)):
        raise Undecided("unstructured_to_structured")
    fields = {}
    pos = 0
    vals = list(arr.elems)
    for name in dt.rec.names():
        v = dt.rec.get(name)
        if isinstance(v, SArr):
            fields[name] = SArr(vals[pos: pos + len(v)])
            pos += len(v)
        else:
            fields[name] = vals[pos]
            pos += 1
    if pos != len(vals):
        run.oblige("unstructured_to_structured: number of values matches the dtype", False, kind="implicit")
        raise SymRaise(SExc("ValueError", ()))
    return SRec(fields, "refined")


_old_ones = models.EXTERNALS["numpy.ones"]


@models.external("numpy.ones")
def np_ones_bool(engine, run, a, k):
    dt = k.get("dtype")
    if isinstance(dt, SNative) and dt.name == "bool":
        n = const_of(a[0])
        if n is None:
            raise Undecided("boolean array of symbolic length")
        return SArr([True] * int(n), 1, "bool")
    return _old_ones(engine, run, a, k)


def _patch_array_indexing():
    from pyvc import engine as E
    orig_set = E.Engine.setitem

    def setitem(self, run, obj, idx, v):
        if isinstance(obj, SArr) and isinstance(idx, list) and all(isinstance(i, int) for i in idx):
            for i in idx:
                if not (-len(obj) <= i < len(obj)):
                    run.oblige("index in range", False, kind="implicit")
                    raise SymRaise(SExc("IndexError", ()))
                obj.elems[i] = v
            return
        if isinstance(obj, SArr) and isinstance(idx, SArr) and idx.kind == "bool":
            sel = [j for j, b in enumerate(idx.elems) if b is True]
            vals = list(v.elems) if isinstance(v, SArr) else [v] * len(sel)
            if len(vals) != len(sel):
                run.oblige("boolean-mask assignment: number of values matches the mask", False, kind="implicit")
                raise SymRaise(SExc("ValueError", ()))
            for j, x in zip(sel, vals):
                obj.elems[j] = x
            return
        return orig_set(self, run, obj, idx, v)
    E.Engine.setitem = setitem
    orig_get = models.getitem

    def getitem(engine, run, obj, idx):
        if isinstance(obj, SArr) and isinstance(idx, SArr) and idx.kind == "bool":
            if len(idx) != len(obj):
                run.oblige("boolean mask has the length of the array", False, kind="implicit")
                raise SymRaise(SExc("IndexError", ()))
            return SArr([x for x, b in zip(obj.elems, idx.elems) if b is True], 1, obj.kind)
        if isinstance(obj, SCell) and isinstance(idx, SCell) and idx.kind == "bool":
            # data[mask]: the Skolem cell is from now on a cell of the masked region (new storage: boolean indexing copies)
            run.assume(idx.v if not isinstance(idx.v, bool) else z3.BoolVal(idx.v))
            run.ghost.setdefault("masked_reads", []).append((obj, idx))
            return SCell(obj.v, "masked", obj.kind)
        return orig_get(engine, run, obj, idx)
    models.getitem = getitem


_patch_array_indexing()


def _cell_red(attr):
    def f(engine, run, a, k):
        v = a[0]
        if isinstance(v, SCell):
            return engine.invoke(run, models.native_attr(engine, run, v, attr), [], {})
        raise Undecided(f"np.{attr} of {type(v).__name__}")
    return f


# numpy.min / numpy.max of an image region: generic model in pyvc/models.py (reduction of the Skolem cell's array)


@models.external("scipy.ndimage.binary_dilation")
def binary_dilation(engine, run, a, k):
    """Assumed: binary_dilation(mask, iterations >= 1) is a superset of mask (same shape)"""
    m = a[0]
    it = k.get("iterations", 1)
    run.oblige("binary_dilation: iterations >= 1", to_z3(it) >= 1, kind="requires")
    b = run.fresh_bool("dilated")
    mv = m.v if not isinstance(m.v, bool) else z3.BoolVal(m.v)
    run.define(z3.Implies(mv, b), "dilation is extensive")
    run.ghost["fit_region"] = dict(mask=m, dilated=b)
    run.trust("scipy: binary_dilation contains the original mask")
    return SCell(b, m.space, "bool")


class LSResult:
    def __init__(self, x):
        self.x = x

    def sym_getattr(self, run, attr):
        if attr == "x":
            return self.x
        return _MISSING


@models.external("scipy.optimize.least_squares")
def least_squares(engine, run, a, k):
    """Assumed contract of scipy.optimize.least_squares(fun, x0, bounds=(lb, ub), **params):
    requires lb < ub (strictly), lb <= x0 <= ub and finite residuals at x0 (ValueError otherwise); fun is called only at points inside the bounds;
    ensures lb <= result.x <= ub, cost(result.x) <= cost(x0), and result.x == x0 if the residual at x0 is zero."""
    fun, x0 = a[0], a[1]
    lb, ub = k["bounds"]
    if not all(isinstance(v, SArr) for v in (x0, lb, ub)) or not (len(x0) == len(lb) == len(ub)):
        run.oblige("least_squares: x0 and both bounds have the same length", False, kind="requires")
        raise SymRaise(SExc("ValueError", ()))
    names = run.ghost.get("param_names") or [f"p{j}" for j in range(len(x0))]

    def le(p, q):
        if isinstance(p, SInf) or isinstance(q, SInf):
            if isinstance(p, SInf):
                return p.sign < 0
            return q.sign > 0
        return to_real(p) <= to_real(q)
    for j, (x, l_, u_) in enumerate(zip(x0.elems, lb.elems, ub.elems)):
        nm = names[j] if j < len(names) else f"p{j}"
        c = le(l_, x)
        run.oblige(f"requires of least_squares: initial guess `{nm}` is not below its lower bound", c, kind="requires")
        c = le(x, u_)
        run.oblige(f"requires of least_squares: initial guess `{nm}` is not above its upper bound", c, kind="requires")
        # scipy: "Each lower bound must be strictly less than each upper bound" (ValueError otherwise)
        if isinstance(l_, SInf) or isinstance(u_, SInf):
            strict = (isinstance(l_, SInf) and l_.sign < 0) or (isinstance(u_, SInf) and u_.sign > 0)
        else:
            strict = to_real(l_) < to_real(u_)
        run.oblige(f"requires of least_squares: the lower bound of `{nm}` is strictly below its upper bound", strict, kind="requires")
    # the residual function is evaluated at the start and at arbitrary feasible points: it must not raise there
    run.ghost["ls"] = dict(x0=SArr(list(x0.elems)), lb=lb, ub=ub, params=dict((kk, vv) for kk, vv in k.items() if kk != "bounds"))
    res0 = engine.invoke(run, fun, [SArr(list(x0.elems))], {})
    run.ghost["ls"]["residual_at_x0"] = res0
    xs = []
    for j, (l_, u_) in enumerate(zip(lb.elems, ub.elems)):
        v = run.fresh_real(f"fit_{names[j] if j < len(names) else j}")
        if not isinstance(l_, SInf):
            run.assume(v >= to_real(l_))
        if not isinstance(u_, SInf):
            run.assume(v <= to_real(u_))
        xs.append(v)
    x = SArr(xs)
    engine.invoke(run, fun, [SArr(list(xs))], {})         # a call at the final (arbitrary feasible) point
    # ... which need not be the LAST call: the optimiser may evaluate the residual (finite-difference probes) at any other feasible point
    # afterwards.  Whatever the callback leaves behind in shared state must therefore not be taken for the result.
    probe = []
    for j, (l_, u_) in enumerate(zip(lb.elems, ub.elems)):
        v = run.fresh_real(f"probe_{names[j] if j < len(names) else j}")
        if not isinstance(l_, SInf):
            run.assume(v >= to_real(l_))
        if not isinstance(u_, SInf):
            run.assume(v <= to_real(u_))
        probe.append(v)
    engine.invoke(run, fun, [SArr(probe)], {})
    run.ghost["ls"]["x"] = x
    run.trust("ASSUMED contract of scipy.optimize.least_squares (feasible start required; feasible result; cost does not increase)")
    return LSResult(x)


# grid attributes needed here
_old_grid_getattr = SGrid.sym_getattr


def _grid_getattr(self, run, attr):
    if attr == "coordinate_constraints":
        run.trust("A-PDE: coordinate_constraints = [] (Cartesian), all axes (spherical / polar), [0, 1] (cylindrical)")
        return {"cartesian": [], "unit": [], "spherical": list(range(self.dim)), "cylindrical": [0, 1]}[self.kind]
    if attr == "normalize_point":
        def norm(run2, a, k):
            p = a[0]
            if not isinstance(p, SGridPoint):
                raise Undecided("normalize_point of a non-grid point")
            if k or len(a) > 1:
                # e.g. reflect=True: another map (points outside non-periodic axes are mirrored) - not the wrap by whole periods
                run2.oblige(f"normalize_point is called without options (got {sorted(k)}): only periodic axes may change, by whole periods", False,
                            kind="ensures", assume_after=False)
                raise run2.PathEnd()
            cart = p.cart
            out = []
            per = [z3.Bool(f"{self.name}_periodic{j}") for j in range(self.dim)]
            lo = [z3.Real(f"{self.name}_lo{j}") for j in range(self.dim)]
            hi = [z3.Real(f"{self.name}_hi{j}") for j in range(self.dim)]
            cons = {"cartesian": [], "unit": [], "spherical": list(range(self.dim)), "cylindrical": [0, 1]}[self.kind]
            for j in range(self.dim):
                old = to_real(cart.elems[j])
                if j in cons:
                    out.append(old)        # coordinates fixed by the symmetry are mapped to themselves
                    continue
                v = run2.fresh_real(f"wrapped{j}")
                m = run2.fresh_int(f"periods{j}")
                run2.assume(hi[j] > lo[j])
                run2.assume(z3.If(per[j], z3.And(v >= lo[j], v <= hi[j], v == old + z3.ToReal(m) * (hi[j] - lo[j])), v == old))
                out.append(v)
            run2.ghost["normalized"] = dict(old=list(cart.elems), new=out, periodic=per, lo=lo, hi=hi)
            run2.trust("A-PDE: transform(normalize_point(transform(p))) wraps periodic axes into the box by whole periods and keeps the rest")
            return SGridPoint(SArr(out))
        return SNative(norm, "grid.normalize_point")
    return _old_grid_getattr(self, run, attr)


SGrid.sym_getattr = _grid_getattr

# mode counts deliberately differ from the space dimension
PARAMS = {"SphericalDroplet": [], "DiffuseDroplet": [], "PerturbedDroplet2D": 4, "PerturbedDroplet3D": 5, "PerturbedDroplet3DAxisSym": 4}
CANDS = [("SphericalDroplet", 1, "cartesian"), ("SphericalDroplet", 2, "cartesian"), ("DiffuseDroplet", 3, "cartesian"),
         ("DiffuseDroplet", 2, "spherical"), ("SphericalDroplet", 3, "spherical"), ("DiffuseDroplet", 3, "cylindrical"),
         ("PerturbedDroplet2D", 2, "cartesian"), ("PerturbedDroplet3D", 3, "cartesian"), ("PerturbedDroplet3DAxisSym", 3, "cylindrical")]


@register
class RefineDroplet(Contract):
    key = f"{IA}:refine_droplet"
    modular = False
    max_paths = 600

    def cases(self):
        out = []
        for cls, dim, kind in CANDS:
            for levels in ("fixed", "auto"):
                for adj in (False, True):
                    out.append(dict(cls=cls, dim=dim, grid=kind, levels=levels, adjust_values=adj))
        # exactly ONE intensity level supplied, the other automatic
        for cls, dim, kind in (("SphericalDroplet", 2, "cartesian"), ("DiffuseDroplet", 3, "cartesian"), ("DiffuseDroplet", 2, "spherical")):
            for levels in ("vmin-only", "vmax-only"):
                for adj in (False, True):
                    out.append(dict(cls=cls, dim=dim, grid=kind, levels=levels, adjust_values=adj))
        out.append(dict(cls="SphericalDroplet", dim=2, grid="cartesian", levels="fixed", adjust_values=False, not_a_field=True))
        out.append(dict(cls="DiffuseDroplet", dim=2, grid="cartesian", levels="fixed", adjust_values=False, params="given"))
        out.append(dict(cls="DiffuseDroplet", dim=2, grid="cartesian", levels="auto", adjust_values=True, params="given"))
        return out

    def setup(self, run, case):
        dim = case["dim"]
        modes = PARAMS[case["cls"]] or None
        on_axis = case["grid"] in ("spherical", "cylindrical")
        d = sym_droplet(run, "droplet", dim, case["cls"], modes=modes if modes else 0, on_axis=False)
        rec = d.fields["data"]
        run.assume(rec.get("radius") >= 0)
        cons = {"cartesian": [], "spherical": list(range(dim)), "cylindrical": [0, 1]}[case["grid"]]
        if "interface_width" in rec.fields:
            w = rec.get("interface_width")
            run.assume(z3.Or(w.isnan, w.val >= 0))
        if "amplitudes" in rec.fields:
            for a_ in rec.get("amplitudes").elems:
                run.assume(z3.And(a_ >= -1, a_ <= 1))
        if case["cls"].endswith("AxisSym"):
            run.assume(z3.And(rec.get("position").elems[0] == 0, rec.get("position").elems[1] == 0))
        grid = SGrid(run, dim, case["grid"])
        data = SCell(run.input_real("image_value"), "cells")
        field = SField(grid, data) if not case.get("not_a_field") else SOpaque("not-a-field")
        vmin = run.input_real("vmin") if case["levels"] in ("fixed", "vmin-only") else None
        vmax = run.input_real("vmax") if case["levels"] in ("fixed", "vmax-only") else None
        if case["levels"] == "fixed" and case["adjust_values"]:
            # documented use: vmax is the inside value, vmin the outside value
            run.assume(vmax >= vmin)
        if case["levels"] in ("vmin-only", "vmax-only"):
            # requires (documented use: vmin is the outside, vmax the inside value): a supplied outside level is not above the brightest value of
            # the fit region, a supplied inside level not below its darkest one - otherwise the intensity range would be negative
            def hook(run2, cell, attr, r, vmin=vmin, vmax=vmax):
                if attr == "max" and vmin is not None:
                    run2.assume(r >= vmin)
                if attr == "min" and vmax is not None:
                    run2.assume(r <= vmax)
            run.ghost["reduction_hook"] = hook
        self.ctx = dict(run=run, d=d, grid=grid, field=field, data=data, vmin=vmin, vmax=vmax, cons=cons,
                        old=rec.copy(), old_data_v=data.v)
        names = [f"position[{j}]" for j in range(dim) if j not in cons] + ["radius", "interface_width"] + \
            [f"amplitudes[{j}]" for j in range(modes or 0)]
        if case["adjust_values"]:
            names += ["vmin", "intensity range (vmax - vmin)"]
        run.ghost["param_names"] = names
        self.ctx["params"] = {"max_nfev": SOpaque("caller's max_nfev")} if case.get("params") == "given" else None
        self.ctx["params0"] = dict(self.ctx["params"]) if self.ctx["params"] is not None else None
        return dict(phase_field=field, droplet=d, vmin=vmin, vmax=vmax, adjust_values=case["adjust_values"],
                    tolerance=run.input_real("tolerance"), least_squares_params=self.ctx["params"])

    def raises(self, a, exc, case):
        if case.get("not_a_field"):
            return [("a non-field raises TypeError", exc.cls_name == "TypeError")]
        return [(f"refining a valid candidate raises nothing (raised {exc.cls_name})", False)]

    def post(self, a, ret, case):
        c = self.ctx
        run = c["run"]
        if case.get("not_a_field"):
            return [("a non-field must raise TypeError", False)]
        dim = case["dim"]
        want = case["cls"] if case["cls"] != "SphericalDroplet" else "DiffuseDroplet"
        if not (isinstance(ret, SObj) and ret.cls.name == want):
            return [(f"returns a droplet of the candidate's class, at least DiffuseDroplet ({want})", False)]
        rec = ret.fields["data"]
        ls = run.ghost.get("ls")
        if ls is None:
            return [("the fit is delegated to least_squares", False)]
        out = []
        old = c["old"]
        cons = c["cons"]
        # result within bounds (from the optimiser's feasibility)
        w = rec.get("interface_width")
        wv = w.val if isinstance(w, SMaybeNaN) else w
        out.append(("radius and interface width of the result are non-negative", z3.And(to_real(rec.get("radius")) >= 0, to_real(wv) >= 0)))
        if "amplitudes" in rec.fields:
            amps = rec.get("amplitudes").elems
            out.append(("perturbation amplitudes of the result lie in [-1, 1]", z3.And(*[z3.And(to_real(x) >= -1, to_real(x) <= 1) for x in amps])))
            out.append(("the number of amplitudes is kept", len(amps) == len(old.get("amplitudes").elems)))
        # constrained coordinates untouched
        pos = rec.get("position").elems
        for j in cons:
            out.append((f"coordinate {j}, fixed by the grid's symmetry, is left untouched", to_real(pos[j]) == to_real(old.get("position").elems[j])))
        nz = run.ghost.get("normalized")
        if nz is None:
            out.append(("the final position is normalised by the grid", False))
        else:
            for j in range(dim):
                if j not in cons:
                    out.append((f"coordinate {j} is wrapped into the box if the axis is periodic (by whole periods), else it is the fitted value",
                                z3.And(to_real(pos[j]) == nz["new"][j], z3.eq(to_real(nz["old"][j]), to_real(ls["x"].elems[[jj for jj in range(dim) if jj not in cons].index(j)])))))
        # the image is not modified
        out.append(("the image is not modified", c["field"].data is c["data"] and z3.eq(to_real(c["data"].v), to_real(c["old_data_v"]))))
        # start of the fit = the candidate's free parameters
        nfree = len([j for j in range(dim) if j not in cons])
        x0 = ls["x0"].elems
        exp0 = [old.get("position").elems[j] for j in range(dim) if j not in cons] + [old.get("radius")]
        out.append(("the fit starts from the candidate's position and radius",
                    z3.And(*[to_real(x) == to_real(y) for x, y in zip(x0[: nfree + 1], exp0)])))
        # ... and from the candidate's interface width: the width it carries (a width of exactly 0 included), the grid's typical discretization
        # only when it carries none
        if len(x0) > nfree + 1:
            w_old = old.get("interface_width") if "interface_width" in old.fields else None
            hgrid = c["grid"].h
            if isinstance(w_old, SMaybeNaN):
                want_w = z3.If(w_old.isnan, hgrid, w_old.val)
            elif w_old is None:
                want_w = hgrid
            else:
                want_w = to_real(w_old)
            out.append(("the fit starts from the candidate's interface width (also a width of exactly 0); the grid's typical discretization only for an unset width",
                        to_real(x0[nfree + 1]) == want_w))
        else:
            out.append(("the interface width is a fit parameter", False))
        fr = run.ghost.get("fit_region")
        out.append(("the fit region is the dilated binary image of the candidate", fr is not None))
        reds = [(cell, attr) for (cell, attr, r) in run.ghost.get("cell_reduction_list", [])]
        rl0 = {attr: r for (cell, attr, r) in run.ghost.get("cell_reduction_list", [])}
        if case["levels"] != "fixed":
            want_red = {"auto": ["max", "min"], "vmin-only": ["max"], "vmax-only": ["min"]}[case["levels"]]
            out.append(("automatic intensity levels are the extremes of the image over the fit region (not of the whole image)",
                        all(a_ in [x for _, x in reds] for a_ in want_red) and all(cell.space == "masked" for cell, _ in reds)))
        # the levels that enter the residual: a SUPPLIED level as supplied, an automatic one = the extreme over the fit region.  Relational form
        # (no need to name the profile): shifting those two levels by a constant shifts the residual vmin + (vmax - vmin) * profile - image by it
        res0 = ls.get("residual_at_x0")
        lv = {"vmin": c["vmin"] if c["vmin"] is not None else rl0.get("min"), "vmax": c["vmax"] if c["vmax"] is not None else rl0.get("max")}
        if isinstance(res0, SCell) and z3.is_expr(res0.v) and all(z3.is_expr(v) and z3.is_const(v) for v in lv.values()):
            delta = z3.Real("level_shift")
            shifted = z3.substitute(to_real(res0.v), (lv["vmin"], lv["vmin"] + delta), (lv["vmax"], lv["vmax"] + delta))
            out.append(("the residual is formed with the intensity levels of the request: a supplied level is used as supplied, an automatic one is the "
                        "extreme over the fit region (shifting these two levels by a constant shifts the residual by the same constant)",
                        shifted == to_real(res0.v) + delta))
            # ... and it is affine in the inside level with the outside level as offset: residual == vmin + (vmax - vmin) * profile - image, where
            # profile := residual[vmax := vmin + 1] - residual[vmax := vmin].  Holds for EITHER sign of vmax - vmin (a droplet darker than its
            # surroundings is a valid request when the levels are supplied and not fitted)
            r_ = to_real(res0.v)
            at = lambda e: z3.substitute(r_, (lv["vmax"], e))     # noqa: E731
            prof = at(lv["vmin"] + 1) - at(lv["vmin"])
            out.append(("the residual is vmin + (vmax - vmin) * profile - image for either sign of vmax - vmin (profile = residual at vmax = vmin + 1 minus "
                        "residual at vmax = vmin; at vmax = vmin the residual is vmin - image)",
                        z3.And(r_ == at(lv["vmin"]) + (lv["vmax"] - lv["vmin"]) * prof, at(lv["vmin"]) == lv["vmin"] - to_real(c["old_data_v"]))))
        else:
            out.append(("the residual is formed with the intensity levels of the request (supplied, or the extremes over the fit region)", False))
        if c.get("params0") is not None:
            now = c["params"]
            out.append(("the caller's least_squares_params only gains the tolerance defaults (no per-call data such as bounds is stored in it)",
                        set(now) - set(c["params0"]) <= {"ftol", "xtol", "gtol"} and all(now[k] is v for k, v in c["params0"].items())))
            out.append(("the bounds handed to least_squares are those of this droplet, the caller's options are forwarded",
                        "max_nfev" in ls["params"] and ls["params"]["max_nfev"] is c["params0"]["max_nfev"]))
        if case["adjust_values"]:
            # the two intensity parameters are fitted whenever there is an intensity range to fit; for a vanishing range (constant image over
            # the fit region / vmin == vmax) their bounds would be degenerate and the droplet parameters alone are fitted
            base = len(exp0) + 1 + (len(old.get("amplitudes").elems) if "amplitudes" in old.fields else 0)
            vr = (lv["vmax"] - lv["vmin"]) if lv["vmax"] is not None and lv["vmin"] is not None else None
            extra2 = z3.BoolVal(len(x0) == base + 2)
            extra0 = z3.BoolVal(len(x0) == base)
            out.append(("with fitted intensity levels the parameter vector has two extra entries (none when the intensity range vanishes)",
                        z3.Or(extra2, extra0) if vr is None else z3.And(z3.Implies(vr != 0, extra2), z3.Implies(vr == 0, extra0))))
        return out

    # --- concrete side: real fits observed by wrapping least_squares as seen from droplets.image_analysis
    def realise(self, case, model):
        if not model:
            return None
        from .common import fnum
        out = dict(seed=1)
        for k in ("vmin", "vmax"):
            if k in model:
                out[k] = fnum(model[k])
        return out

    def bounded_inputs(self, case, tier, seed):
        for t in range(2 if tier == "quick" else 10):
            yield dict(seed=seed * 10 + t, vmin=[0.0, 10.0, -2.0][t % 3], vmax=[1.0, 11.0, 6.0][t % 3], noise=[0.0, 0.02][t % 2],
                       from_self=(t % 2 == 0))
        if case["grid"] == "cartesian":
            yield dict(seed=seed * 10, vmin=0.0, vmax=1.0, noise=0.0, from_self=True, outside=True)
        if case["levels"] in ("vmin-only", "vmax-only"):
            # an interface much wider than the fit region: the extremes of the image over the region differ a lot from the true levels, so a
            # supplied level that is replaced by the automatic one changes the fit
            yield dict(seed=seed * 10 + 4, vmin=0.0, vmax=1.0, noise=0.0, from_self=True, wide=True)
            yield dict(seed=seed * 10 + 6, vmin=-2.0, vmax=6.0, noise=0.0, from_self=True, wide=True)

    def concrete_run(self, case, inputs):
        return refine_check(case, inputs)


def refine_check(case, inputs):
    import numpy as np
    import droplets
    import pde
    from droplets import image_analysis as ia
    from .locate import make_grid
    if case.get("not_a_field"):
        try:
            ia.refine_droplet(np.zeros((4, 4)), droplets.SphericalDroplet([1, 1], 1))
        except TypeError:
            return dict(violated=[], inputs=inputs)
        except Exception as e:   # noqa: BLE001
            return dict(violated=[f"a non-field raises TypeError (raised {type(e).__name__})"], inputs=inputs)
        return dict(violated=["a non-field must raise TypeError"], inputs=inputs)
    rng = np.random.default_rng(int(inputs.get("seed", 0)))
    kind, dim, cls = case["grid"], case["dim"], case["cls"]
    grid = make_grid(kind, dim, int(inputs.get("seed", 0)))
    if kind == "cylindrical" and int(inputs.get("seed", 0)) % 2 == 1:
        grid = pde.CylindricalSymGrid(8, (4, 20), (16, 32), periodic_z=True)       # z-range that does not contain 0
    sym = kind != "cartesian"
    if kind == "cartesian":
        lo = np.array([b[0] for b in grid.axes_bounds])
        size = np.array([b[1] - b[0] for b in grid.axes_bounds])
        pos = lo + size * rng.uniform(0.35, 0.65, dim)
        if inputs.get("seed", 0) % 3 == 1:
            pos = pos + size * np.array(grid.periodic, dtype=float)        # a full period outside the box on periodic axes
        if inputs.get("outside"):
            nonper = [ax for ax in range(dim) if not grid.periodic[ax]]
            if nonper:
                pos[nonper[0]] = lo[nonper[0]] - 1.5                        # centre outside the box along a NON-periodic axis
    elif kind == "spherical":
        pos = np.zeros(dim)
    else:
        pos = np.array([0.0, 0.0, 0.5 * sum(grid.axes_bounds[1]) + rng.uniform(-1, 1)])
    R = 3.0 + rng.random() + (2.0 if inputs.get("outside") else 0.0)
    true = droplets.DiffuseDroplet(pos, R, 3.0 if inputs.get("wide") else 1.0)
    vmin, vmax = float(inputs.get("vmin", 0.0)), float(inputs.get("vmax", 1.0))
    if vmax < vmin:
        vmin, vmax = vmax, vmin
    if vmax == vmin:
        vmax = vmin + 1.0
    img = true.get_phase_field(grid, vmin=vmin, vmax=vmax)
    if inputs.get("noise"):
        img.data += inputs["noise"] * (vmax - vmin) * rng.standard_normal(img.data.shape)
    if case["levels"] == "auto" and kind == "cartesian" and dim >= 2 and int(inputs.get("seed", 0)) % 2 == 1:
        # a second, twice as bright droplet far away from the candidate
        far = lo + size * np.array([0.9, 0.1, 0.5][:dim])
        img.data += 2 * (vmax - vmin) * droplets.DiffuseDroplet(far, 1.2, 0.5).get_phase_field(grid).data
    modes = PARAMS[cls] or 0
    guess_pos = pos if inputs.get("from_self") else pos + (0 if sym and kind == "spherical" else 1) * np.array(
        [0.3 if not (kind == "cylindrical" and j < 2) else 0.0 for j in range(dim)])
    gr = R if inputs.get("from_self") else R * 0.9
    if cls == "SphericalDroplet":
        cand = droplets.SphericalDroplet(guess_pos, gr)
    elif cls == "DiffuseDroplet":
        cand = droplets.DiffuseDroplet(guess_pos, gr, true.interface_width if inputs.get("from_self") else None)
    else:
        import droplets.droplets as _dd
        cand = getattr(_dd, cls)(guess_pos, gr, 1.0, np.zeros(modes))
    before_img = img.data.copy()
    cand0 = cand.copy()
    seen = {}
    real_ls = ia.optimize.least_squares

    def spy(fun, x0, *args, **kw):
        res = real_ls(fun, x0, *args, **kw)
        seen.update(x0=np.array(x0, dtype=float), bounds=kw.get("bounds"), x=res.x.copy(), cost0=0.5 * float(np.sum(np.asarray(fun(np.array(x0))) ** 2)),
                    cost=float(res.cost))
        # the assumed optimiser contract allows residual evaluations at ANY feasible point, in any order; the last one made by this wrapper is a
        # probe next to the optimum (as finite-difference steps are), so code that takes the callback's leftovers for the result is exposed
        lb_, ub_ = kw.get("bounds", (-np.inf, np.inf))
        fun(np.clip(res.x + 1e-3 * (1 + np.abs(res.x)), lb_, ub_))
        return res
    kw = dict(adjust_values=case["adjust_values"])
    kw.update(vmin=vmin if case["levels"] in ("fixed", "vmin-only") else None, vmax=vmax if case["levels"] in ("fixed", "vmax-only") else None)

    class _Opt:     # what droplets.image_analysis sees as `optimize`
        least_squares = staticmethod(spy)
    orig = ia.optimize
    ia.optimize = _Opt
    try:
        out = ia.refine_droplet(img, cand, **kw)
    except Exception as e:   # noqa: BLE001
        return dict(violated=[f"refining a valid candidate raises nothing (raised {type(e).__name__}: {e})"], inputs=inputs)
    finally:
        ia.optimize = orig
    bad = []
    want = cls if cls != "SphericalDroplet" else "DiffuseDroplet"
    if type(out).__name__ != want:
        bad.append(f"returns a droplet of the candidate's class, at least DiffuseDroplet ({want})")
    if not (out.radius >= 0 and (out.interface_width is None or out.interface_width >= 0)):
        bad.append("radius and interface width of the result are non-negative")
    if modes and (len(out.amplitudes) != modes or np.any(np.abs(out.amplitudes) > 1)):
        bad.append("perturbation amplitudes of the result lie in [-1, 1]")
    cons = grid.coordinate_constraints
    if any(out.position[j] != cand0.position[j] for j in cons):
        bad.append("coordinates fixed by the grid's symmetry are left untouched")
    if not np.array_equal(img.data, before_img):
        bad.append("the image is not modified")
    if kind == "cartesian":
        for ax in range(dim):
            lo_, hi_ = grid.axes_bounds[ax]
            if grid.periodic[ax] and not (lo_ - 1e-9 <= out.position[ax] <= hi_ + 1e-9):
                bad.append("the position is wrapped into the box along periodic axes")
    if seen:
        if seen["cost"] > seen["cost0"] * (1 + 1e-9) + 1e-300:
            bad.append("the squared deviation over the fitted region is no larger than the candidate's")
        if not case["adjust_values"]:
            # independent measure: deviation of the rendered droplet from the image over the fit region, with the levels
            # fixed by the caller or (automatic) the extremes of the image over that region
            from scipy import ndimage
            c0 = cand0 if hasattr(cand0, "interface_width") else droplets.DiffuseDroplet.from_droplet(cand0)
            if c0.interface_width is None:
                c0 = c0.copy()
                c0.interface_width = grid.typical_discretization
            region = ndimage.binary_dilation(c0._get_phase_field(grid, dtype=bool), iterations=1 + int(2 * c0.interface_width))
            if region.any():
                lo_v = vmin if case["levels"] in ("fixed", "vmin-only") else before_img[region].min()
                hi_v = vmax if case["levels"] in ("fixed", "vmax-only") else before_img[region].max()
                dev = lambda d: float(np.sum((lo_v + (hi_v - lo_v) * d._get_phase_field(grid)[region] - before_img[region]) ** 2))
                if dev(out) > dev(c0) * (1 + 1e-6) + 1e-12:
                    bad.append("the squared deviation from the image over the fitted region is no larger than the candidate's")
                # the optimiser's own starting cost must be the candidate's deviation measured with the levels of the request
                if abs(seen["cost0"] - 0.5 * dev(c0)) > 1e-9 * (1 + 0.5 * dev(c0)):
                    bad.append("the residual is formed with the intensity levels of the request: a supplied level is used as supplied, an automatic one is "
                               "the extreme over the fit region")
    else:
        bad.append("the fit is delegated to least_squares")
    if inputs.get("from_self") and not inputs.get("noise") and cls in ("DiffuseDroplet",) and case["levels"] == "fixed" and not case["adjust_values"]:
        d0 = np.array(list(true.position) + [true.radius, true.interface_width])
        d1 = np.array(list(out.position) + [out.radius, out.interface_width])
        if kind == "cartesian":
            for ax in range(dim):
                if grid.periodic[ax]:
                    L = grid.axes_bounds[ax][1] - grid.axes_bounds[ax][0]
                    d1[ax] = d0[ax] + ((d1[ax] - d0[ax] + L / 2) % L - L / 2)
        if not np.allclose(d0, d1, rtol=1e-6, atol=1e-6):
            bad.append("a candidate that rendered the image is returned unchanged up to solver tolerance")
    return dict(violated=sorted(set(bad)), observed=repr(out), inputs=inputs)
