"""C04 -- refinement never worsens the fit and respects bounds, symmetry and the box."""
from contracts import parallel as pl, refine as rf, render as rd, perturbed as pt
from pyvc.bounded import ContractSampling

LEVEL = "other"
LEVEL_TEXT = ("refine_droplet is verified as a wrapper around an ASSUMED optimiser contract, for every candidate class (mode counts different from "
              "the dimension), grid family, fixed/automatic/fitted intensity levels: result class = candidate's class, at least DiffuseDroplet; the "
              "start vector is the candidate's free parameters and lies within the bounds (this obligation found defect F10); bounds layout "
              "[position | radius | width | amplitudes] gives radius, width >= 0 and amplitudes in [-1, 1] for any feasible optimiser result; "
              "symmetry-fixed coordinates are never written; the final position is wrapped by whole periods on periodic axes; the image is never "
              "written; automatic levels are the extremes over the dilated candidate mask; the residual callback does not raise at the start or "
              "at any feasible point; the caller's options dict only gains tolerance defaults. 'Never worsens the fit' and the fixed-point clause "
              "rest on the assumed optimiser contract and are measured on real fits (bounded) - hence level 'other'.")
LEVEL_NOTE = ("ASSUMED: scipy.optimize.least_squares (feasible start required; result within bounds; cost non-increasing), binary_dilation is "
              "extensive, structured<->unstructured record conversion, A-PDE grid.transform/normalize_point/coordinate_constraints; A-FP; "
              "non-emptiness of the fit region is not proved; convergence/accuracy is C05 (not applicable)")
# refine_droplets (the plural entry point used by locate_droplets) must hand every candidate to refine_droplet with ALL of the caller's options, in
# both of its branches (serial / worker processes): its branch contract from C15 is part of C04
CONTRACTS = [rf.RefineDroplet().ident, pl.RefineDropletsBranches().ident]
LEMMAS = []
BOUNDED = [ContractSampling("refinement-on-real-images", CONTRACTS[:1], "2 (quick) / 10 (thorough) real fits per case (9 candidate kinds x fixed/auto levels x fitted levels on/off): wrapped least_squares observes start/bounds/costs; clean, noisy and rescaled images, candidates a period outside the box, cylindrical z-range without 0, a brighter droplet elsewhere for automatic levels; independent deviation measure over the fit region")]
