#!/bin/sh
# verify_seed.sh <worktree> <k>: confirm a seeded change: demo passes on pristine, fails with the change, suite passes with it
WT="$1"; K="$2"
cd "$WT" || exit 2
git checkout -q -- droplets
/venv/bin/python demo_$K.py >/dev/null 2>&1; P=$?
git apply seed_$K.diff || { echo "seed $K: patch does not apply" > verify_$K.txt; exit 2; }
/venv/bin/python demo_$K.py >/dev/null 2>&1; F=$?
/venv/bin/python -m pytest -q -p no:cacheprovider --timeout=900 -x tests >pytest_$K.log 2>&1; T=$?
git checkout -q -- droplets
echo "seed $K: demo_pristine_exit=$P demo_seeded_exit=$F tests_exit=$T $(tail -1 pytest_$K.log)" > verify_$K.txt
cat verify_$K.txt
