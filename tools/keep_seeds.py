#!/usr/bin/env python3
"""keep_seeds.py <pid> <worktree>: store verified seeded changes under /verif/seeded/<pid>-<k>/"""
import json, re, shutil, sys
from pathlib import Path
pid, wt = sys.argv[1], Path(sys.argv[2])
offset = int(sys.argv[3]) if len(sys.argv) > 3 else 0      # numbering offset for later seeding rounds
for vf in sorted(wt.glob("verify_*.txt")):
    k = re.search(r"verify_(\d+)", vf.name).group(1)
    line = vf.read_text().strip()
    m = re.search(r"demo_pristine_exit=(\d+) demo_seeded_exit=(\d+) tests_exit=(\d+)", line)
    if not m or m.group(1) != "0" or m.group(2) == "0" or m.group(3) != "0":
        print("NOT KEPT", pid, k, line); continue
    kk = int(k) + offset
    out = Path("/verif/seeded") / f"{pid}-{kk}"
    out.mkdir(parents=True, exist_ok=True)
    shutil.copy(wt / f"seed_{k}.diff", out / "patch.diff")
    shutil.copy(wt / f"demo_{k}.py", out / "demo.py")
    meta = json.loads((wt / f"seed_{k}.json").read_text())
    meta.update(id=f"{pid}-{kk}", property=pid, origin="independent sub-agent given only the property text and a scratch worktree",
                confirmed=dict(how="tools/verify_seed.sh in a scratch worktree: demo.py on the pristine checkout, demo.py with patch.diff applied, "
                                   "then the whole pinned suite (pytest -x tests) with patch.diff applied",
                               demo_exit_pristine=int(m.group(1)), demo_exit_seeded=int(m.group(2)),
                               suite_exit_seeded=int(m.group(3)), suite_tail=line.split("tests_exit=")[1][2:]))
    (out / "meta.json").write_text(json.dumps(meta, indent=1))
    print("kept", out)
