"""Symbolic model of a py-pde grid and of ScalarField (assumed contracts A-PDE, trusted base).

Only what the analysed functions use is modelled; every use is recorded in the trusted base.
"""
from __future__ import annotations

import ast
from fractions import Fraction

import z3

from pyvc import models, ops
from pyvc.engine import _MISSING, SymRaise
from pyvc.values import (SArr, SCell, SClassRef, SExc, SExternal, SNative, SOpaque, Undecided, const_of, to_real, to_z3)

GRID_CLASSES = {
    "cartesian": {"pde.grids.cartesian.CartesianGrid", "pde.grids.CartesianGrid", "pde.grids.base.GridBase"},
    "unit": {"pde.grids.cartesian.CartesianGrid", "pde.grids.CartesianGrid", "pde.grids.base.GridBase",
             "pde.grids.cartesian.UnitGrid", "pde.grids.UnitGrid"},
    "spherical": {"pde.grids.spherical.SphericalSymGridBase", "pde.grids.base.GridBase"},
    "cylindrical": {"pde.grids.cylindrical.CylindricalSymGrid", "pde.grids.CylindricalSymGrid", "pde.grids.base.GridBase"},
    "other": {"pde.grids.base.GridBase"},
}


class SGridPoint:
    """result of grid.transform(p, 'cartesian', 'grid')"""

    def __init__(self, cart):
        self.cart = cart


class SGrid:
    def __init__(self, run, dim, kind="cartesian", name="grid", num_axes=None):
        self.dim = dim
        self.kind = kind
        self.name = name
        self.num_axes = num_axes if num_axes is not None else {"spherical": 1, "cylindrical": 2}.get(kind, dim)
        self.h = run.input_real(f"{name}_typical_discretization")
        run.assume(self.h > 0)
        self.cell_coords = SOpaque(f"{name}.cell_coords")

    def __repr__(self):
        return f"SGrid({self.kind},{self.dim})"

    def sym_isinstance(self, run, t):
        if isinstance(t, SExternal):
            return t.name in GRID_CLASSES[self.kind]
        return False

    def sym_getattr(self, run, attr):
        run.trust(f"A-PDE: grid.{attr} as modelled in contracts/gridmodel.py")
        if attr == "dim":
            return self.dim
        if attr == "num_axes":
            return self.num_axes
        if attr == "typical_discretization":
            return self.h
        if attr == "cell_coords":
            return self.cell_coords
        if attr == "transform":
            def transform(run, a, k):
                src = k.get("source", a[1] if len(a) > 1 else None)
                tgt = k.get("target", a[2] if len(a) > 2 else None)
                p = a[0]
                if src == "cartesian" and tgt == "grid":
                    return SGridPoint(p)
                if src == "grid" and tgt == "cartesian" and isinstance(p, SGridPoint):
                    return p.cart
                raise Undecided(f"grid.transform {src}->{tgt}")
            return SNative(transform, "grid.transform")
        if attr == "difference_vector":
            def dv(run, a, k):
                p1, p2 = a[0], a[1]
                if p2 is self.cell_coords and isinstance(p1, SGridPoint):
                    comps = [run.input_real(f"diff{j}") for j in range(self.dim)]
                    run.ghost["dv"] = dict(origin=p1.cart, comps=comps)
                    return models.SStack([SCell(c, "cells") for c in comps], "cells")
                raise Undecided("grid.difference_vector between arbitrary points")
            return SNative(dv, "grid.difference_vector")
        return _MISSING


def _stack_norm(self, run, k):
    s = Fraction(0)
    for c in self.cells:
        s = ops.binop(run, ast.Add(), s, ops.binop(run, ast.Mult(), c.v, c.v))
    return SCell(ops.real_sqrt(run, s, "norm"), self.space)


models.SStack.sym_norm = _stack_norm

_old_lift = models._lift


def _lift2(fn):
    inner = _old_lift(fn)

    def go(run, x):
        if isinstance(x, models.SStack):
            return models.SStack([go(run, c) for c in x.cells], x.space)
        return inner(run, x)
    return go


models._lift = _lift2

# arccos / arctan2 with the facts the contracts rely on (trusted elementary-function facts)
def _arccos(engine, run, a, k):
    def f(run, x):
        xr = to_real(x)
        run.oblige("arccos: argument in [-1, 1]", z3.And(xr >= -1, xr <= 1), kind="implicit")
        r = ops.ufun("arccos_f")(xr)
        run.define(z3.And(ops.ufun("cos_f")(r) == xr, r >= 0, r <= ops.PI(), ops.ufun("sin_f")(r) >= 0,
                          ops.ufun("sin_f")(r) * ops.ufun("sin_f")(r) + xr * xr == 1), "arccos: cos(arccos x) = x, range [0, pi]")
        return r
    return models._lift(f)(run, a[0])


models.EXTERNALS["numpy.arccos"] = _arccos


def arctan2_term(run, y, x):
    yr, xr = to_real(y), to_real(x)
    r = ops.ufun("arctan2_f", 2)(yr, xr)
    h = ops.ufun("sqrt_f")(xr * xr + yr * yr)
    run.define(z3.And(h * h == xr * xr + yr * yr, h >= 0), "sqrt")
    run.define(z3.And(h * ops.ufun("cos_f")(r) == xr, h * ops.ufun("sin_f")(r) == yr, r > -ops.PI(), r <= ops.PI(),
                      z3.Implies(yr >= 0, r >= 0), z3.Implies(z3.And(xr == 0, yr == 0), r == 0)),
               "arctan2: hypot*cos(a) = x, hypot*sin(a) = y, a in (-pi, pi], a >= 0 for y >= 0")
    return r


def _arctan2(engine, run, a, k):
    y, x = a
    sp = next((v.space for v in (y, x) if isinstance(v, SCell)), None)
    r = arctan2_term(run, y.v if isinstance(y, SCell) else y, x.v if isinstance(x, SCell) else x)
    return SCell(r, sp) if sp else r


models.EXTERNALS["numpy.arctan2"] = _arctan2


# --- ScalarField ------------------------------------------------------------------------------
class SField:
    def __init__(self, grid, data, label=None, dtype=None):
        self.grid = grid
        self.data = data
        self.label = label
        self.dtype = dtype

    def sym_getattr(self, run, attr):
        if attr in ("grid", "data", "label"):
            return getattr(self, attr)
        if attr in ("average", "integral", "magnitude"):
            # py-pde: volume-weighted quantities of the field - uninterpreted, NOT the plain mean / sum of the data array
            run.trust(f"A-PDE: ScalarField.{attr} is a cell-volume weighted quantity (uninterpreted; differs from data.mean() on non-uniform cell volumes)")
            return z3.Real(f"field_{attr}")
        return _MISSING

    def sym_isinstance(self, run, t):
        return isinstance(t, SExternal) and t.name in ("pde.fields.ScalarField", "pde.fields.scalar.ScalarField",
                                                       "pde.fields.base.FieldBase")

    def sym_iop(self, run, op, other):
        if isinstance(other, SField) and isinstance(self.data, SCell) and isinstance(other.data, SCell):
            new = ops.binop(run, op, self.data, other.data)
            self.data.v = new.v
            return self
        return NotImplemented


@models.external("pde.fields.ScalarField", "pde.fields.scalar.ScalarField")
def scalar_field(engine, run, a, k):
    """Assumed: ScalarField(grid, data=..., label=..., dtype=...) wraps the data array (same cell values);
    without data the field is zero."""
    grid = a[0]
    data = k.get("data", a[1] if len(a) > 1 else None)
    if data is None:
        data = SCell(Fraction(0), "cells")
    elif not isinstance(data, SCell):
        data = SCell(data, "cells") if not isinstance(data, (SArr,)) else data
    else:
        data = SCell(data.v, data.space, data.kind)     # ScalarField copies the data
    return SField(grid, data, k.get("label"), k.get("dtype"))
