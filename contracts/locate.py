"""Contracts around droplets/image_analysis.py:locate_droplets (C18, C19, parts of C09/C14)."""
from __future__ import annotations

import z3

from pyvc import heap as H, models, ops, source, spec as S
from pyvc.contract import Contract, Lemma, loop, register
from pyvc.engine import LoopSpec, SymRaise, _MISSING
from pyvc.values import (SArr, SCell, SClassRef, SExc, SInf, SMaybeNaN, SNative, SObj, SOpaque, SSeq, Undecided, const_of, to_real,
                         to_z3)

from . import collections as co
from .common import sym_droplet
from .emulsions import EmView
from .gridmodel import SField, SGrid

IA = "droplets.image_analysis"
DM = "droplets.droplets"
EM = "droplets.emulsions"
I, Rl, B = z3.IntSort(), z3.RealSort(), z3.BoolSort()
TAG = {"SphericalDroplet": 1, "DiffuseDroplet": 2, "PerturbedDroplet2D": 3, "PerturbedDroplet3D": 4, "PerturbedDroplet3DAxisSym": 5}


def spec_class(dim, cyl, modes_pos, width_given, refine):
    """the class the request implies (property C19)"""
    if modes_pos:
        if dim == 2:
            return "PerturbedDroplet2D"
        return "PerturbedDroplet3DAxisSym" if cyl else "PerturbedDroplet3D"
    if width_given or refine:
        return "DiffuseDroplet"
    return "SphericalDroplet"


def layout(cls_name, dim, modes=None):
    return H.droplet_layout(cls_name, dim, modes)


def touch(run, lay):
    co.touch_layout(run, lay)
    h = H.heap_of(run)
    h.array("cls_tag", 1, I)
    if "amplitudes" in lay:
        h.array("amplitudes", 2)
    if "interface_width" in lay:
        h.array("interface_width")
        h.array("interface_width__nan", 1, B)


# ---------------------------------------------------------------------------------------------------
@register
class FromDroplet(Contract):
    """Cls.from_droplet(droplet, **kwargs): a droplet of class Cls with the data of `droplet`, overridden / completed by kwargs"""
    key = f"{DM}:DropletBase.from_droplet"

    def cases(self):
        out = []
        for tgt, dim in (("DiffuseDroplet", 1), ("DiffuseDroplet", 2), ("DiffuseDroplet", 3), ("PerturbedDroplet2D", 2),
                         ("PerturbedDroplet3D", 3), ("PerturbedDroplet3DAxisSym", 3)):
            for w in ("none", "given"):
                out.append(dict(target=tgt, source="SphericalDroplet", dim=dim, width=w))
        out.append(dict(target="DiffuseDroplet", source="DiffuseDroplet", dim=2, width="none"))
        return out

    def setup(self, run, case):
        src = sym_droplet(run, "droplet", case["dim"], case["source"], on_axis=case["target"].endswith("AxisSym"))
        run.assume(src.fields["data"].get("radius") >= 0)
        if case["source"] == "DiffuseDroplet":
            w0 = src.fields["data"].get("interface_width")
            run.assume(z3.Or(w0.isnan, w0.val >= 0))
        kw = {}
        if case["width"] == "given":
            w = run.input_real("interface_width")
            run.assume(w >= 0)
            kw["interface_width"] = w
        if case["target"].startswith("Perturbed"):
            m = run.input_int("modes")
            run.assume(m >= 1)
            kw["amplitudes"] = SSeq(m, lambda i: z3.RealVal(0), "zeros", "array")
        self.ctx = (run, src, kw, src.fields["data"].copy())
        self.kw = kw
        return dict(cls=SClassRef(source.get_class(DM, case["target"])), droplet=src)

    def call(self, engine, run, fi, a, case):
        return engine.call_function(run, fi, [a["cls"], a["droplet"]], dict(self.kw))

    def post(self, a, ret, case):
        run, src, kw, old = self.ctx
        if not (isinstance(ret, SObj) and ret.cls.name == case["target"]):
            return [(f"returns an instance of {case['target']}", False)]
        rec = ret.fields["data"]
        out = [("the result has its own data record", rec is not src.fields["data"]),
               ("radius is taken from the source", to_real(rec.get("radius")) == to_real(old.get("radius")))]
        p_new, p_old = rec.get("position"), old.get("position")
        out.append(("position is taken from the source (own storage)",
                    isinstance(p_new, SArr) and p_new is not src.fields["data"].get("position") and len(p_new) == case["dim"] and
                    z3.And(*[to_real(x) == to_real(y) for x, y in zip(p_new.elems, p_old.elems)])))
        w = rec.get("interface_width")
        if not isinstance(w, SMaybeNaN):
            w = SMaybeNaN(False, w)
        if "interface_width" in kw:
            out.append(("a supplied interface width is carried by the result",
                        z3.And(z3.Not(to_z3(w.isnan)), to_real(w.val) == kw["interface_width"])))
        elif case["source"] == "DiffuseDroplet":
            w0 = old.get("interface_width")
            out.append(("the interface width is taken from the source",
                        z3.And(to_z3(w.isnan) == to_z3(w0.isnan), z3.Implies(z3.Not(to_z3(w0.isnan)), to_real(w.val) == to_real(w0.val)))))
        else:
            out.append(("without a supplied width the interface width is unset", to_z3(w.isnan)))
        if "amplitudes" in kw:
            amp = rec.get("amplitudes")
            j = z3.Int("aj")
            out.append(("the result has exactly the requested number of amplitudes, all as given (zero)",
                        isinstance(amp, SSeq) and z3.And(to_z3(amp.length) == to_z3(kw["amplitudes"].length),
                                                         z3.ForAll([j], z3.Implies(z3.And(j >= 0, j < to_z3(amp.length)), to_real(amp.at(j)) == 0)))))
        return out

    def apply(self, engine, run, fi, args, kwargs):
        """call-site form for heap droplets (locate_droplets): allocate the converted droplet"""
        cls, src = args[0], args[1]
        if not (isinstance(cls, SClassRef) and isinstance(src, H.SRefObj)):
            return NotImplemented          # local objects: the body is executed instead
        tgt = cls.cls.name
        h = H.heap_of(run)
        dim = src.layout["position"][1]
        modes = kwargs["amplitudes"].length if "amplitudes" in kwargs else None
        if tgt.startswith("Perturbed") and modes is None:
            raise SymRaise(SExc("KeyError", ("amplitudes",)))
        extra = set(kwargs) - {"interface_width", "amplitudes"}
        if extra or ("interface_width" in kwargs and tgt == "SphericalDroplet") or ("amplitudes" in kwargs and not tgt.startswith("Perturbed")):
            run.oblige(f"from_droplet: {tgt} accepts the keyword arguments {sorted(kwargs)}", False, kind="requires", assume_after=False)
            raise SymRaise(SExc("TypeError", ("unexpected keyword",)))
        if tgt.startswith("Perturbed"):
            want = source.get_class(DM, tgt).lookup_const("dim")
            wd = const_of(engine.ev(run, want, __import__("pyvc.engine", fromlist=["Frame"]).Frame(None, {}, None, cls.cls.modinfo)))
            if wd != dim:
                raise SymRaise(SExc("ValueError", (f"Space dimension must be {wd}",)))
        lay = layout(tgt, dim, modes)
        touch(run, lay)
        srec = h.read("data", src.ref, sort=I)
        if tgt.endswith("AxisSym"):
            run.oblige("requires of PerturbedDroplet3DAxisSym: the droplet lies on the z-axis",
                       z3.And(h.read("position", srec, 0) == 0, h.read("position", srec, 1) == 0), kind="requires")
        nrec, nobj = h.new_ref(), h.new_ref()
        h.write("data", nrec, nobj, sort=I)
        h.write("cls_tag", TAG[tgt], nobj, sort=I)
        h.write("radius", h.read("radius", srec), nrec)
        for j in range(dim):
            h.write("position", h.read("position", srec, j), nrec, j)
        dt = run.fresh_int("dtype")
        run.assume(co.DTYPE_DIM(dt) == dim)
        h.write("dtype_tag", dt, nrec, sort=I)
        if "interface_width" in lay:
            if "interface_width" in kwargs:
                wv = kwargs["interface_width"]
                run.oblige("requires of from_droplet: interface_width >= 0", to_real(wv) >= 0, kind="requires")
                h.write("interface_width__nan", False, nrec, sort=B)
                h.write("interface_width", wv, nrec)
            elif "interface_width" in src.layout:
                h.write("interface_width__nan", h.read("interface_width__nan", srec, sort=B), nrec, sort=B)
                h.write("interface_width", h.read("interface_width", srec), nrec)
            else:
                h.write("interface_width__nan", True, nrec, sort=B)
        if "amplitudes" in lay:
            a = h.array("amplitudes", 2)
            rr, jj = z3.Ints("rr jj")
            src_amp = kwargs["amplitudes"]
            h.arr["amplitudes"] = z3.Lambda([rr, jj], z3.If(rr == nrec, to_real(src_amp.at(jj)), z3.Select(a, rr, jj)))
        run.trust(f"contract:{self.key} (verified separately on local objects)")
        return H.SRefObj(run, cls.cls, nobj, lay)


# ---------------------------------------------------------------------------------------------------
def sym_droplet_list(run, name, dim, cls_name, modes=None, list_cls=None, length=None):
    """symbolic list of heap droplets of one class (pre-state or freshly havocked)"""
    h = H.heap_of(run)
    lay = layout(cls_name, dim, modes)
    touch(run, lay)
    L = length if length is not None else run.fresh_int(f"{name}_len")
    run.assume(to_z3(L) >= 0)
    elems = z3.Const(f"{name}_elems!{next(run.counter)}", z3.ArraySort(I, I))
    cls = source.get_class(DM, cls_name)
    lst = H.SListObj(run, list_cls, L, elems, lambda ref: H.SRefObj(run, cls, ref, lay), tag=name)
    lst.elem_layout, lst.dim, lst.cls_name = lay, dim, cls_name
    lst.fields = {"dtype": co.SDt(run.fresh_int("dtype"))} if list_cls is not None else {}
    k = z3.Int("lk")
    run.assume(z3.ForAll([k], z3.Implies(z3.And(k >= 0, k < to_z3(L)), z3.And(
        z3.Select(elems, k) >= 0, z3.Select(elems, k) < h.ptr, z3.Select(h.arr["data"], z3.Select(elems, k)) >= 0,
        z3.Select(h.arr["data"], z3.Select(elems, k)) < h.ptr,
        z3.Select(h.arr["cls_tag"], z3.Select(elems, k)) == TAG[cls_name],
        co.DTYPE_DIM(z3.Select(h.arr["dtype_tag"], z3.Select(h.arr["data"], z3.Select(elems, k)))) == dim,
        z3.Select(h.arr["radius"], z3.Select(h.arr["data"], z3.Select(elems, k))) >= 0))))
    return lst


@register
class LocateInMask(Contract):
    """locate_droplets_in_mask(mask): ASSUMED here (its own analysis is C01/C02): an emulsion of SphericalDroplets of the grid's
    dimension that depends on the mask only; unsupported grids raise."""
    key = f"{IA}:locate_droplets_in_mask"

    def cases(self):
        return []

    def apply(self, engine, run, fi, args, kwargs):
        mask = args[0]
        if not isinstance(mask, SField):
            raise Undecided("locate_droplets_in_mask on a non-field")
        grid = mask.grid
        run.ghost["mask"] = mask
        if grid.kind == "other":
            raise SymRaise(SExc("NotImplementedError", ()))
        run.trust("ASSUMED contract: locate_droplets_in_mask returns SphericalDroplets (dimension of the grid) determined by the mask alone")
        ecls = source.get_class(EM, "Emulsion")
        em = sym_droplet_list(run, "candidates", grid.dim, "SphericalDroplet", list_cls=ecls)
        if grid.kind == "cylindrical":
            k = z3.Int("ck")
            h = H.heap_of(run)
            rec = lambda kk: z3.Select(h.arr["data"], z3.Select(em.elems, kk))
            run.assume(z3.ForAll([k], z3.And(z3.Select(h.arr["position"], rec(k) * H.Heap.VEC) == 0,
                                             z3.Select(h.arr["position"], rec(k) * H.Heap.VEC + 1) == 0)))
            run.trust("ASSUMED: candidates on a cylindrical grid lie on the symmetry axis")
        run.ghost["candidates0"] = dict(elems=em.elems, length=to_z3(em.length), arrs=co.snapshot(run))
        return em


def _remove_small_apply(self, engine, run, fi, args, kwargs):
    """call-site form of Emulsion.remove_small (contract verified in C20): order-preserving filter radius > min_radius"""
    me = args[0]
    mr = args[1] if len(args) > 1 else kwargs.get("min_radius", SInf(-1))
    if not isinstance(me, H.SListObj):
        raise Undecided("remove_small on a concrete emulsion")
    if isinstance(mr, SInf):
        if mr.sign < 0:
            return None
        raise Undecided("remove_small(+inf)")
    h = H.heap_of(run)
    E0, L0 = me.elems, to_z3(me.length)
    c = next(run.counter)
    idx, inv = z3.Function(f"rsidx!{c}", I, I), z3.Function(f"rsinv!{c}", I, I)
    n = run.fresh_int("len")
    elems = z3.Const(f"elems!{c}", me.elems.sort())
    rad = lambda ref: z3.Select(h.arr["radius"], z3.Select(h.arr["data"], ref))
    k, l = z3.Ints("fk fl")
    m = to_real(mr)
    run.assume(z3.And(n >= 0, n <= L0))
    run.assume(z3.ForAll([k], z3.Implies(z3.And(k >= 0, k < n), z3.And(idx(k) >= 0, idx(k) < L0, rad(z3.Select(E0, idx(k))) > m,
                                                                         z3.Select(elems, k) == z3.Select(E0, idx(k)), inv(idx(k)) == k))))
    run.assume(z3.ForAll([k, l], z3.Implies(z3.And(k >= 0, k < l, l < n), idx(k) < idx(l))))
    run.assume(z3.ForAll([l], z3.Implies(z3.And(l >= 0, l < L0, rad(z3.Select(E0, l)) > m), z3.And(inv(l) >= 0, inv(l) < n, idx(inv(l)) == l))))
    run.assume(z3.Implies(z3.ForAll([l], z3.Implies(z3.And(l >= 0, l < L0), rad(z3.Select(E0, l)) > m)),
                          z3.And(n == L0, z3.ForAll([k], z3.Implies(z3.And(k >= 0, k < n), z3.And(idx(k) == k, z3.Select(elems, k) == z3.Select(E0, k)))))))
    me.elems, me.length = elems, n
    run.ghost.setdefault("remove_small_calls", []).append(dict(E0=E0, L0=L0, idx=idx, inv=inv, mr=m, elems=elems, n=n))
    run.trust(f"contract:{self.key} (verified in C20)")
    return None


co.RemoveSmall.modular = True
co.RemoveSmall.apply = _remove_small_apply


@register
class RefineDroplets(Contract):
    """refine_droplets(phase_field, candidates, num_processes=, **kwargs): ASSUMED here (C04/C15): one refined droplet per
    candidate, in order; class = candidate's class, at least DiffuseDroplet; number of amplitudes kept; radius >= 0."""
    key = f"{IA}:refine_droplets"

    def cases(self):
        return []

    def apply(self, engine, run, fi, args, kwargs):
        field, cands = args[0], args[1]
        kw = dict(kwargs)
        run.ghost["refine_call"] = dict(field=field, candidates=cands, kwargs=kw)
        if not isinstance(cands, H.SListObj):
            raise Undecided("refine_droplets on a concrete list")
        k0 = cands.cls_name
        k1 = "DiffuseDroplet" if k0 == "SphericalDroplet" else k0
        modes = cands.elem_layout["amplitudes"][1] if "amplitudes" in cands.elem_layout else None
        h = H.heap_of(run)
        for nm in ("radius", "position", "interface_width", "interface_width__nan", "amplitudes", "data", "dtype_tag", "cls_tag"):
            pass
        # refinement allocates new droplets; nothing is known about their values except validity
        h.havoc_ptr()
        out = sym_droplet_list(run, "refined", cands.dim, k1, modes, length=run.fresh_int("n_refined"))
        run.assume(to_z3(out.length) == to_z3(cands.length))
        run.trust("ASSUMED contract: refine_droplets returns one droplet per candidate (class >= DiffuseDroplet, same mode count)")
        return out


def _emulsion_ctor(engine, run, cls, args, kwargs):
    """Emulsion(droplets, copy=True, ...): ASSUMED here (operations verified in C20): members are copies of the given
    droplets in order; Emulsion() is empty."""
    ecls = cls
    droplets = args[0] if args else kwargs.get("droplets")
    copy = kwargs.get("copy", True)
    if droplets is None or (isinstance(droplets, list) and not droplets):
        lst = H.SListObj(run, ecls, z3.IntVal(0), z3.K(I, z3.IntVal(0)), lambda ref: (_ for _ in ()).throw(Undecided("empty emulsion element")))
        dt = kwargs.get("dtype")
        lst.fields = {"dtype": None if dt is None else co.SDt(run.fresh_int("dtype"))}
        lst.dim = lst.cls_name = lst.elem_layout = None
        return lst
    if isinstance(droplets, H.SListObj):
        src = droplets
        h = H.heap_of(run)
        out = sym_droplet_list(run, "emulsion", src.dim, src.cls_name, src.elem_layout.get("amplitudes", (None, None))[1]
                               if "amplitudes" in src.elem_layout else None, list_cls=ecls, length=run.fresh_int("n_em"))
        run.assume(to_z3(out.length) == to_z3(src.length))
        k = z3.Int("ek")
        if copy is True:
            h.havoc_ptr()
            run.assume(z3.ForAll([k], z3.Implies(z3.And(k >= 0, k < to_z3(src.length)), z3.And(
                z3.Select(out.elems, k) >= h.alloc0,
                co.rec_fields_equal({kk: vv for kk, vv in src.elem_layout.items() if vv in ("real", "maybe_nan") or vv[0] == "vec"}, h.arr,
                                    z3.Select(h.arr["data"], z3.Select(out.elems, k)), h.arr,
                                    z3.Select(h.arr["data"], z3.Select(src.elems, k)), src.dim)))))
        else:
            run.assume(z3.ForAll([k], z3.Implies(z3.And(k >= 0, k < to_z3(src.length)), z3.Select(out.elems, k) == z3.Select(src.elems, k))))
        run.ghost["emulsion_ctor"] = dict(src=src, out=out, copy=copy)
        run.trust("ASSUMED contract: Emulsion(droplets) holds (copies of) the given droplets in order")
        return out
    raise Undecided("Emulsion(...) of a concrete non-empty list")


models.CONSTRUCTORS["Emulsion"] = _emulsion_ctor


@register
class ThresholdOtsuCall(Contract):
    """call-site form of threshold_otsu (verified separately): an uninterpreted function of the data"""
    key = f"{IA}:threshold_otsu"

    def cases(self):
        return []

    def apply(self, engine, run, fi, args, kwargs):
        data = args[0]
        t = run.fresh_real("otsu")
        run.ghost["otsu"] = dict(data=data, value=t)
        run.trust(f"contract:{self.key} (returns the between-class-variance maximising bin centre; verified separately)")
        return t


# ---------------------------------------------------------------------------------------------------
KEY_LD = f"{IA}:locate_droplets"


@loop(KEY_LD, 0)
class LocateLoop(LoopSpec):
    """for droplet in candidates: result list = candidates converted to the requested class, in order"""

    def init_ghost(self, run, env):
        g = run.ghost["locate"]
        cand = env["candidates"]
        g["cand"] = dict(elems=cand.elems, length=to_z3(cand.length))
        K = g["K"]
        out = sym_droplet_list(run, "droplets", g["dim"], K, g["modes"], length=z3.IntVal(0))
        out.strict_cls = K
        env["droplets"] = out
        g["arrs_loop0"] = co.snapshot(run)

    def havoc(self, run, env):
        g = run.ghost["locate"]
        h = H.heap_of(run)
        out = env["droplets"]
        out.length = run.fresh_int("n_out")
        out.elems = z3.Const(f"out_elems!{next(run.counter)}", out.elems.sort())
        h.havoc([nm for nm in h.arr])
        h.havoc_ptr()

    def invariant(self, run, env, i, seq):
        g = run.ghost["locate"]
        h = H.heap_of(run)
        out = env["droplets"]
        cand = g["cand"]
        a0 = g["arrs_loop0"]
        K = g["K"]
        k, j = z3.Ints("vk vj")
        o = lambda kk: z3.Select(out.elems, kk)
        orec = lambda kk: z3.Select(h.arr["data"], o(kk))
        crec = lambda kk: z3.Select(a0["data"], z3.Select(cand["elems"], kk))
        yield ("one result per processed candidate", to_z3(out.length) == i)
        yield ("candidates are not modified", co.frame_old_records(run, a0, layout("SphericalDroplet", g["dim"])) if False else
               z3.ForAll([k], z3.Implies(z3.And(k >= 0, k < cand["length"]), z3.And(
                   z3.Select(h.arr["data"], z3.Select(cand["elems"], k)) == crec(k),
                   z3.Select(h.arr["radius"], crec(k)) == z3.Select(a0["radius"], crec(k)),
                   z3.Select(h.arr["cls_tag"], z3.Select(cand["elems"], k)) == TAG["SphericalDroplet"],
                   z3.Select(h.arr["dtype_tag"], crec(k)) == z3.Select(a0["dtype_tag"], crec(k)),
                   *[z3.Select(h.arr["position"], crec(k) * H.Heap.VEC + d) == z3.Select(a0["position"], crec(k) * H.Heap.VEC + d)
                     for d in range(g["dim"])]))))
        parts = [z3.Select(h.arr["cls_tag"], o(k)) == TAG[K], o(k) < h.ptr, orec(k) < h.ptr, o(k) >= 0, orec(k) >= 0,
                 z3.Select(h.arr["radius"], orec(k)) == z3.Select(a0["radius"], crec(k)),
                 co.DTYPE_DIM(z3.Select(h.arr["dtype_tag"], orec(k))) == g["dim"]]
        parts += [z3.Select(h.arr["position"], orec(k) * H.Heap.VEC + d) == z3.Select(a0["position"], crec(k) * H.Heap.VEC + d)
                  for d in range(g["dim"])]
        if K == "SphericalDroplet":
            parts.append(o(k) == z3.Select(cand["elems"], k))
        else:
            if g["width"] is not None:
                parts.append(z3.And(z3.Not(z3.Select(h.arr["interface_width__nan"], orec(k))),
                                    z3.Select(h.arr["interface_width"], orec(k)) == g["width"]))
            else:
                parts.append(z3.Select(h.arr["interface_width__nan"], orec(k)))
            if g["modes"] is not None:
                parts.append(z3.ForAll([j], z3.Implies(z3.And(j >= 0, j < g["modes"]), z3.Select(h.arr["amplitudes"], orec(k), j) == 0)))
        yield ("result k is candidate k converted to the requested class (position, radius kept; width / zero amplitudes as requested)",
               z3.ForAll([k], z3.Implies(z3.And(k >= 0, k < i), z3.And(*parts))))


def _strict_unwrap(orig):
    def unwrap(self, run, v):
        want = getattr(self, "strict_cls", None)
        if want is not None:
            got = v.cls.name if isinstance(v, SObj) else None
            if got != want:
                run.oblige(f"every located droplet has the class the request implies ({want}; got {got})", False, kind="ensures",
                           assume_after=False)
                raise run.PathEnd()
        return orig(self, run, v)
    return unwrap


H.SListObj.unwrap = _strict_unwrap(H.SListObj.unwrap)

THRESHOLDS = ("number", "extrema", "auto", "mean", "otsu")
GRIDS = (("cartesian", 1), ("cartesian", 2), ("cartesian", 3), ("spherical", 2), ("spherical", 3), ("cylindrical", 3))


@register
class LocateDroplets(Contract):
    key = KEY_LD
    modular = False

    def cases(self):
        out = []
        # C18: threshold rule x filter, on one grid
        for th in THRESHOLDS:
            for mr in ("finite", "-inf"):
                out.append(dict(grid="cartesian", dim=2, threshold=th, modes="0", width="none", refine=False, minimal_radius=mr))
            for kind, dim in (("spherical", 3), ("cylindrical", 3), ("cartesian", 1)):
                if th != "number":
                    out.append(dict(grid=kind, dim=dim, threshold=th, modes="0", width="none", refine=False, minimal_radius="finite"))
        # C19: class matrix
        for kind, dim in GRIDS:
            for modes in ("0", "pos"):
                for width in ("none", "given"):
                    for refine in (False, True):
                        out.append(dict(grid=kind, dim=dim, threshold="number", modes=modes, width=width, refine=refine,
                                        minimal_radius="finite"))
        out.append(dict(grid="other", dim=2, threshold="number", modes="0", width="none", refine=False, minimal_radius="finite"))
        out.append(dict(grid="cartesian", dim=2, threshold="number", modes="0", width="none", refine=False, minimal_radius="finite",
                        not_a_field=True))
        return out

    def setup(self, run, case):
        dim = case["dim"]
        grid = SGrid(run, dim, case["grid"])
        data = SCell(run.input_real("cell_value"), "cells")
        field = SField(grid, data) if not case.get("not_a_field") else SOpaque("not-a-field")
        th = run.input_real("threshold") if case["threshold"] == "number" else case["threshold"]
        modes = 0
        if case["modes"] == "pos":
            modes = run.input_int("modes")
            run.assume(modes >= 1)
        width = None
        if case["width"] == "given":
            width = run.input_real("interface_width")
            run.assume(width >= 0)
        mr = run.input_real("minimal_radius") if case["minimal_radius"] == "finite" else SInf(-1)
        cyl = case["grid"] == "cylindrical"
        K = spec_class(dim, cyl, case["modes"] == "pos", width is not None, False)
        run.ghost["locate"] = dict(K=K, dim=dim, modes=(modes if case["modes"] == "pos" else None), width=width)
        self.ctx = dict(run=run, grid=grid, field=field, data=data, th=th, modes=modes, width=width, mr=mr, K=K, cyl=cyl)
        refine_args = {"tolerance": run.input_real("tolerance")}
        self.ctx["refine_args"] = refine_args
        return dict(phase_field=field, threshold=th, minimal_radius=mr, modes=modes, interface_width=width, refine=case["refine"],
                    refine_args=refine_args, num_processes=1)

    def invalid(self, case):
        if case.get("not_a_field"):
            return "TypeError"
        if case["modes"] == "pos" and case["dim"] == 1:
            return "ValueError"
        if case["grid"] == "other":
            return "NotImplementedError"
        return None

    def raises(self, a, exc, case):
        want = self.invalid(case)
        if want is None:
            return [(f"a valid request raises nothing (raised {exc.cls_name})", False)]
        return [(f"the invalid request raises the documented {want} (raised {exc.cls_name})", exc.cls_name == want)]

    def post(self, a, ret, case):
        c = self.ctx
        run = c["run"]
        if self.invalid(case):
            return [(f"the invalid request must raise {self.invalid(case)}", False)]
        h = H.heap_of(run)
        out = []
        # ---- C18: the mask is data > tau with the documented tau
        mask = run.ghost.get("mask")
        if mask is None or not isinstance(mask.data, SCell):
            return [("droplets are located in a binary image of the field", False)]
        red = {attr: r for (cell, attr, r) in run.ghost.get("cell_reduction_list", []) if cell is c["data"]}
        th = case["threshold"]
        tau = None
        if th == "number":
            tau = c["th"]
        elif th in ("extrema", "auto"):
            if "min" in red and "max" in red:
                tau = (red["min"] + red["max"]) / 2
        elif th == "mean":
            tau = red.get("mean")
        elif th == "otsu":
            o = run.ghost.get("otsu")
            if o is not None and o["data"] is c["data"]:
                tau = o["value"]
        if tau is None:
            out.append((f"the threshold of rule `{th}` is computed from the field data as documented", False))
        else:
            mv = mask.data.v if isinstance(mask.data.v, z3.ExprRef) else z3.BoolVal(bool(mask.data.v))
            out.append((f"a cell is in the binary image exactly when it exceeds the threshold (rule `{th}`, strict comparison)",
                        z3.And(z3.BoolVal(mask.data.kind == "bool"), mv == (c["data"].v > tau))))
        out.append(("the binary image lives on the field's grid", mask.grid is c["grid"]))
        # ---- result
        if not isinstance(ret, H.SListObj) or ret.cls is None or ret.cls.name != "Emulsion":
            return out + [("returns an Emulsion", False)]
        K = spec_class(case["dim"], c["cyl"], case["modes"] == "pos", c["width"] is not None, case["refine"])
        n = to_z3(ret.length)
        k, j = z3.Ints("zk zj")
        o = lambda kk: z3.Select(ret.elems, kk)
        orec = lambda kk: z3.Select(h.arr["data"], o(kk))
        out.append((f"every located droplet has the class the request implies ({K})",
                    z3.And(z3.BoolVal(ret.cls_name == K), z3.ForAll([k], z3.Implies(z3.And(k >= 0, k < n), z3.Select(h.arr["cls_tag"], o(k)) == TAG[K])))))
        out.append(("the dimension of every droplet equals the grid's",
                    z3.ForAll([k], z3.Implies(z3.And(k >= 0, k < n), co.DTYPE_DIM(z3.Select(h.arr["dtype_tag"], orec(k))) == case["dim"]))))
        if case["modes"] == "pos":
            lay = ret.elem_layout
            out.append(("exactly the requested number of amplitudes", "amplitudes" in lay and z3.eq(to_z3(lay["amplitudes"][1]), to_z3(c["modes"]))))
        if c["width"] is not None and not case["refine"]:
            out.append(("a supplied width is carried by every unrefined result",
                        z3.ForAll([k], z3.Implies(z3.And(k >= 0, k < n), z3.And(z3.Not(z3.Select(h.arr["interface_width__nan"], orec(k))),
                                                                              z3.Select(h.arr["interface_width"], orec(k)) == c["width"])))))
        if not isinstance(c["mr"], SInf):
            out.append(("every returned droplet is larger than the minimal radius",
                        z3.ForAll([k], z3.Implies(z3.And(k >= 0, k < n), z3.Select(h.arr["radius"], orec(k)) > c["mr"]))))
            calls = run.ghost.get("remove_small_calls", [])
            out.append(("the size filter is applied before and after refinement", z3.BoolVal(len(calls) == 2) if True else None))
            if not case["refine"] and len(calls) == 2:
                c0 = run.ghost["candidates0"]
                first = calls[0]
                rad0 = lambda ref: z3.Select(c0["arrs"]["radius"], z3.Select(c0["arrs"]["data"], ref))
                out.append(("no candidate above the minimal radius is dropped (unrefined: the result has one droplet per such candidate)",
                            z3.ForAll([j], z3.Implies(z3.And(j >= 0, j < c0["length"], rad0(z3.Select(c0["elems"], j)) > c["mr"]),
                                                      z3.And(first["inv"](j) >= 0, first["inv"](j) < first["n"])))))
                out.append(("unrefined: the number of results equals the number of candidates above the minimal radius", n == first["n"]))
        # ---- refinement call (C14 / C19): options are forwarded
        rc = run.ghost.get("refine_call")
        if case["refine"]:
            out.append(("refinement is requested from refine_droplets with the field, all converted candidates and the refine_args",
                        rc is not None and rc["field"] is c["field"] and rc["kwargs"].get("tolerance") is c["refine_args"]["tolerance"]
                        and rc["kwargs"].get("num_processes") == 1))
        else:
            out.append(("no refinement without refine=True", rc is None))
        return out


@register
class AffineInvariance(Lemma):
    """Consequence of `mask == data > tau(data)`: a positive affine change of the intensities leaves the binary image unchanged
    for the automatic rules (and for a numeric threshold mapped the same way)."""
    name = "threshold-rules-are-affine-covariant"
    trusted = ("numpy: min, max and mean are covariant under x -> a x + b with a > 0 (min(a x + b) = a min(x) + b, ...)",)

    def obligations(self):
        a, b, x, mn, mx, me, t = z3.Reals("a b x mn mx me t")
        yield ("extrema / auto", [a > 0], ((a * x + b) > ((a * mn + b) + (a * mx + b)) / 2) == (x > (mn + mx) / 2))
        yield ("mean", [a > 0], ((a * x + b) > (a * me + b)) == (x > me))
        yield ("numeric threshold mapped the same way", [a > 0], ((a * x + b) > (a * t + b)) == (x > t))


# ===================================================================================================
# concrete side: real fields on real grids
def make_grid(kind, dim, variant=0):
    import pde
    if kind == "cartesian":
        per = [[False] * dim, [True] * dim, [True, False, True][:dim]][variant % 3]
        return pde.CartesianGrid([(-1.0, 15.0), (2.0, 18.0), (0.0, 16.0)][:dim], [32, 32, 16][:dim] if dim < 3 else [16, 16, 16], periodic=per)
    if kind == "spherical":
        return pde.PolarSymGrid(12, 24) if dim == 2 else pde.SphericalSymGrid(12, 24)
    if kind == "cylindrical":
        return pde.CylindricalSymGrid(8, (-2, 14), (16, 32), periodic_z=bool(variant % 2))
    raise ValueError(kind)


def make_field(grid, kind, dim, seed, vmin=0.0, vmax=1.0, noise=0.0):
    """two resolvable droplets (one for the symmetric grids) plus a tiny speck, rendered with a diffuse interface"""
    import numpy as np
    import droplets
    rng = np.random.default_rng(seed)
    if kind == "cartesian":
        lo = np.array([b[0] for b in grid.axes_bounds])
        size = np.array([b[1] - b[0] for b in grid.axes_bounds])
        ds = [droplets.DiffuseDroplet(lo + size * 0.3, 2.6 + 0.3 * rng.random(), 0.7),
              droplets.DiffuseDroplet(lo + size * 0.72, 1.9 + 0.3 * rng.random(), 0.7),
              droplets.DiffuseDroplet(lo + size * np.array([0.85, 0.2, 0.5][:dim]), 0.55, 0.5)]
    elif kind == "spherical":
        ds = [droplets.DiffuseDroplet(np.zeros(dim), 4.3 + rng.random(), 0.7)]
    else:
        ds = [droplets.DiffuseDroplet([0, 0, 2.0], 2.6 + 0.3 * rng.random(), 0.7), droplets.DiffuseDroplet([0, 0, 9.5], 1.9, 0.7)]
    f = droplets.Emulsion(ds).get_phasefield(grid)
    data = vmin + (vmax - vmin) * f.data
    if noise:
        data = data + noise * rng.standard_normal(data.shape)
    import pde
    return pde.ScalarField(grid, data)


def otsu_bruteforce_objective(data, nbins=256):
    """between-class variance for every admissible split of the nbins-histogram, straight from the definition"""
    import numpy as np
    counts, edges = np.histogram(np.ravel(data), bins=nbins)
    centers = (edges[1:] + edges[:-1]) / 2
    obj = np.full(nbins - 1, -np.inf)
    for k in range(nbins - 1):
        w1, w2 = counts[: k + 1].sum(), counts[k + 1:].sum()
        if w1 == 0 or w2 == 0:
            continue
        m1 = (counts[: k + 1] * centers[: k + 1]).sum() / w1
        m2 = (counts[k + 1:] * centers[k + 1:]).sum() / w2
        obj[k] = w1 * w2 * (m1 - m2) ** 2
    return centers, obj


def _conc_locate(self, case, inputs):
    import numpy as np
    import droplets
    import pde
    from droplets.image_analysis import locate_droplets_in_mask
    if self.invalid(case) in ("TypeError", "NotImplementedError"):
        try:
            droplets.locate_droplets(np.zeros((4, 4)) if case.get("not_a_field") else pde.ScalarField(pde.PolarSymGrid(4, 4)).interpolate_to_grid(
                pde.PolarSymGrid(4, 4)))
        except TypeError:
            return dict(violated=[] if case.get("not_a_field") else ["raises the documented error"], inputs=inputs)
        except Exception:   # noqa: BLE001
            return dict(violated=[], observed="other grid kinds are not constructible here", inputs=inputs)
        return dict(violated=["the invalid request must raise"] if case.get("not_a_field") else [], inputs=inputs)
    kind, dim = case["grid"], case["dim"]
    grid = make_grid(kind, dim, inputs.get("variant", 0))
    field = make_field(grid, kind, dim, inputs.get("seed", 0), inputs.get("vmin", 0.0), inputs.get("vmax", 1.0), inputs.get("noise", 0.0))
    th = case["threshold"] if case["threshold"] != "number" else inputs.get("threshold", 0.5 * (inputs.get("vmin", 0.0) + inputs.get("vmax", 1.0)))
    modes = int(inputs.get("modes", 2)) if case["modes"] == "pos" else 0
    width = inputs.get("interface_width", 0.0) if case["width"] == "given" else None
    mr = inputs.get("minimal_radius", 0.0) if case["minimal_radius"] == "finite" else -np.inf
    if case["minimal_radius"] == "finite" and inputs.get("mr_from_droplet") is not None:
        try:   # a minimal radius exactly equal to the radius of a located droplet
            pre = droplets.locate_droplets(field, threshold=th, minimal_radius=-np.inf)
            if len(pre):
                mr = float(pre[inputs["mr_from_droplet"] % len(pre)].radius)
        except Exception:   # noqa: BLE001
            pass
    kw = dict(threshold=th, minimal_radius=mr, modes=modes, interface_width=width, refine=case["refine"])
    bad = []
    try:
        em = droplets.locate_droplets(field, **kw)
    except Exception as e:   # noqa: BLE001
        want = self.invalid(case)
        if want and type(e).__name__ == want:
            return dict(violated=[], observed=want, inputs=inputs)
        return dict(violated=[f"a valid request raises nothing (raised {type(e).__name__}: {e})"], inputs=inputs)
    if self.invalid(case):
        return dict(violated=[f"the invalid request must raise {self.invalid(case)}"], inputs=inputs)
    # threshold as documented
    d = field.data
    if th in ("extrema", "auto"):
        tau = (d.min() + d.max()) / 2
    elif th == "mean":
        tau = d.mean()
    elif th == "otsu":
        centers, obj = otsu_bruteforce_objective(d)
        got = droplets.image_analysis.threshold_otsu(d)
        k = int(np.argmin(np.abs(centers - got)))
        if abs(centers[k] - got) > 1e-12 * (1 + abs(got)) or k >= len(obj) or not np.isfinite(obj[k]) or obj[k] < obj.max() * (1 - 1e-9) - 1e-300:
            bad.append("otsu: the threshold is a bin centre maximising the between-class variance of the 256-bin histogram")
        tau = got
    else:
        tau = float(th)
    mask = pde.ScalarField(grid, d > tau, dtype=bool)
    ref = locate_droplets_in_mask(mask)
    K = spec_class(dim, kind == "cylindrical", modes > 0, width is not None, case["refine"])
    if any(type(x).__name__ != K for x in em):
        bad.append(f"every located droplet has the class the request implies ({K})")
    if any(x.dim != grid.dim for x in em):
        bad.append("the dimension of every droplet equals the grid's")
    if modes and any(len(x.amplitudes) != modes for x in em):
        bad.append("exactly the requested number of amplitudes")
    if any(not (x.radius > mr) for x in em):
        bad.append("every returned droplet is larger than the minimal radius")
    try:
        if len(em):          # for an empty result the clause is vacuous (Emulsion.data of an empty, untyped emulsion raises by design)
            em.data
    except Exception as e:   # noqa: BLE001
        bad.append(f"all droplets of one result share one data layout (Emulsion.data raised {type(e).__name__})")
    if not case["refine"]:
        exp = [x for x in ref if x.radius > mr]
        if len(exp) != len(em) or any(not np.allclose(a.position, b.position, rtol=0, atol=0) or a.radius != b.radius for a, b in zip(em, exp)):
            bad.append("the droplets located in the field are exactly those located in the binary image `data > threshold` (above the minimal radius)")
        if width is not None and any(x.interface_width != width for x in em):
            bad.append("a supplied width is carried by every unrefined result")
        if width is None and K != "SphericalDroplet" and any(x.interface_width is not None for x in em):
            bad.append("without a supplied width the interface width is unset")
    return dict(violated=sorted(set(bad)), observed=f"{len(em)} droplets of {sorted({type(x).__name__ for x in em})}", inputs=inputs)


def _locate_inputs(self, case, tier, seed):
    import numpy as np
    rs = [0.0, 0.55, 1.9, 2.6, 1.0]
    for t in range(3 if tier == "quick" else 12):
        yield dict(seed=seed * 100 + t, variant=t, modes=[1, 2, 3, 4][t % 4], interface_width=[0.0, 1.0, 0.5][t % 3],
                   minimal_radius=rs[t % 5], mr_from_droplet=(t if t % 3 == 1 else None), vmin=[0.0, 10.0, -2.0][t % 3], vmax=[1.0, 11.0, 6.0][t % 3], noise=[0.0, 0.0, 0.02][t % 3])


LocateDroplets.concrete_run = _conc_locate
LocateDroplets.bounded_inputs = _locate_inputs
LocateDroplets.realise = lambda self, case, model: None
