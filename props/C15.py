"""C15 -- results do not depend on the number of worker processes or on scheduling."""
import os
import time

from contracts import parallel as pl
from pyvc.bounded import Bounded

LEVEL = "other"
LEVEL_TEXT = ("Proved (any number of candidates / frames, any worker count incl. 'auto'): both branches of refine_droplets build the same "
              "order-preserving filter-map [r for c in candidates if (r := refine_droplet(image, c, **options)) is not None], and both branches "
              "of EmulsionTimeCourse.from_storage build [locate_droplets(frame, refine=refine, **options) for frame in storage] paired with "
              "storage.times - every item is processed with exactly the caller's options, in input order, nothing skipped or repeated; the worker "
              "count only reaches the pool constructor. This rests on the ASSUMED contract of concurrent.futures.Executor.map (ordered, "
              "value-exact) and on determinism of the per-item functions; real schedules are outside this technique, so they are only "
              "sampled (bounded: serial vs 2/3/auto workers with injected per-task delays that reverse the completion order, bitwise "
              "comparison) - hence level 'other'.")
LEVEL_NOTE = ("ASSUMED: Executor.map(f, xs) yields f(x) in input order on pickled copies for any max_workers and completion order; "
              "refine_droplet / locate_droplets are deterministic functions of their argument values (A-DET) whose side effects on shared "
              "arguments do not influence later items (sampled only); display_progress is the identity on the iterable; A-FP irrelevant "
              "(no arithmetic in the verified functions)")
from contracts import droplets as _dr
CONTRACTS = [c.ident for c in (pl.RefineDropletsBranches(), pl.FromStorageBranches(), _dr.SetState())]
LEMMAS = []
CLAUSES = {"same droplets, same order, serial vs any worker count (branch equivalence)": "proved modulo Executor.map contract + determinism",
           "regardless of worker completion order": "assumed (Executor.map contract); sampled with injected delays (bounded)",
           "bit-identical parameters": "value transport: no arithmetic between per-item result and returned list (proved); pickling exactness assumed, sampled",
           "repeating an analysis returns the identical result": "bounded (determinism is an assumption of the proof)"}


# ---- bounded stand-in: real process pools with injected delays ---------------------------------------------------------------
_REAL = {}


def _delayed_refine(phase_field, droplet, **kwargs):
    """refine_droplet with a delay that makes earlier candidates finish later (reverses the completion order)"""
    import droplets.image_analysis as ia
    z = float(droplet.position[-1])
    time.sleep(0.002 + 0.03 * (1.0 / (1.0 + abs(z) % 7)))
    return _REAL["refine_droplet"](phase_field, droplet, **kwargs)


def _delayed_locate(frame, **kwargs):
    time.sleep(0.002 + 0.02 * (float(abs(frame.data.sum())) % 3) / 3)
    return _REAL["locate_droplets"](frame, **kwargs)


def _sig(droplets):
    return [(type(d).__name__, d.data.dtype.descr.__repr__(), d.data.tobytes()) for d in droplets]


class SerialVsWorkers(Bounded):
    name = "serial-vs-worker-processes"
    bound = ("refine_droplets, locate_droplets(refine=True) and EmulsionTimeCourse.from_storage: serial vs 2 / 3 / 'auto' worker processes "
             "with injected per-task delays (earlier items finish later), bitwise comparison of classes, dtypes and parameter bytes, and a "
             "repeated serial run; 3 (quick) / 10 (thorough) inputs per scenario: 2-d/3-d fields with 3-6 droplets of different "
             "intensities, shared explicit least_squares_params with fitted intensity levels, diffuse / perturbed candidates with a minimal "
             "radius, a candidate whose fit raises (not-a-number cell) and an empty candidate list (same outcome for every worker count), "
             "storages with duplicate and non-monotonic time stamps and empty frames")

    def run(self, tier, seed):
        import copy
        import numpy as np
        import pde
        import droplets
        import droplets.image_analysis as ia
        from droplets import DiffuseDroplet, Emulsion, EmulsionTimeCourse
        _REAL["refine_droplet"], _REAL["locate_droplets"] = ia.refine_droplet, ia.locate_droplets
        rng = np.random.default_rng(seed + 15)
        n_in = 3 if tier == "quick" else 10
        ev, distinct, viol = 0, set(), {}
        workers = [2, "auto"] if tier == "quick" else [2, 3, "auto"]

        def field_with(grid, k, t):
            lo = np.array([b[0] for b in grid.axes_bounds])
            size = np.array([b[1] - b[0] for b in grid.axes_bounds])
            ds, tries = [], 0
            while len(ds) < k and tries < 200:
                tries += 1
                p = lo + size * (0.15 + 0.7 * rng.random(grid.dim))
                r = 1.8 + 1.5 * rng.random()
                if all(np.linalg.norm(p - q.position) > r + q.radius + 2.5 for q in ds):
                    ds.append(DiffuseDroplet(p, r, 0.6 + 0.5 * rng.random()))
            data = np.zeros(grid.shape)
            for j, d in enumerate(ds):          # droplets of different brightness
                data += (0.6 + 0.4 * ((j + t) % 3) / 2) * d.get_phase_field(grid).data
            data += 0.01 * rng.standard_normal(grid.shape)
            return pde.ScalarField(grid, data)

        def report(sig, what, inputs):
            viol.setdefault(sig, dict(signature=sig, what=what, inputs=inputs))

        def attempt(fn):
            """result signature, or the exception as a value (a run that raises differs from one that returns)"""
            try:
                return fn()
            except Exception as e:   # noqa: BLE001
                return ("raised", type(e).__name__, str(e)[:200])

        try:
            ia.refine_droplet, ia.locate_droplets = _delayed_refine, _delayed_locate
            for t in range(n_in):
                grid = pde.CartesianGrid([(-3.0, 29.0), (1.0, 25.0)], [32, 24], periodic=[bool(t % 2), False]) if t % 3 != 2 else \
                    pde.CartesianGrid([(0, 16)] * 3, [16] * 3, periodic=True)
                f = field_with(grid, 3 + t % 3, t)
                # -- scenario A: refine_droplets on a candidate list, with the documented option combinations
                cands = _REAL["locate_droplets"](f, threshold=0.3, minimal_radius=1.0)
                opts = [dict(), dict(vmin=None, vmax=None, adjust_values=True, least_squares_params={"max_nfev": 60}),
                        dict(tolerance=1e-3, least_squares_params={})][t % 3]
                for kind in ("spherical", "diffuse"):
                    def mk():
                        cs = [c.copy() for c in cands]
                        if kind == "diffuse":
                            cs = [DiffuseDroplet.from_droplet(c, interface_width=1.0) for c in cs]
                        return cs
                    ref = attempt(lambda: _sig(ia.refine_droplets(f, mk(), num_processes=1, **copy.deepcopy(opts))))
                    ev += 1
                    distinct.add(("A", t, kind, 1))
                    rep = attempt(lambda: _sig(ia.refine_droplets(f, mk(), num_processes=1, **copy.deepcopy(opts))))
                    if rep != ref:
                        report("refine_droplets:repeat", "repeating refine_droplets on the same input gives a different result",
                               dict(t=t, kind=kind, seed=seed))
                    for w in workers:
                        ev += 1
                        distinct.add(("A", t, kind, w))
                        got = attempt(lambda: _sig(ia.refine_droplets(f, mk(), num_processes=w, **copy.deepcopy(opts))))
                        if got != ref:
                            report(f"refine_droplets:workers", f"refine_droplets: serial and worker-pool results differ (classes / bytes / order)",
                                   dict(t=t, kind=kind, workers=w, seed=seed, options=str(opts), serial=str(ref)[:300], parallel=str(got)[:300]))
                # -- scenario A': a candidate whose fit cannot be carried out (a not-a-number cell in its fit region), and no candidates at all: the
                # OUTCOME (which exception class, or which result) must not depend on the worker count either
                fbad = f.copy()
                if cands:
                    cell = tuple(int(x) for x in fbad.grid.transform(cands[0].position, "cartesian", "cell"))
                    fbad.data[tuple(min(max(c, 0), n - 1) for c, n in zip(cell, fbad.grid.shape))] = np.nan
                for lab, ff, mk2 in (("nan-cell", fbad, lambda: [c.copy() for c in cands]), ("no-candidates", f, lambda: [])):
                    outs = {}
                    for w in [1] + workers:
                        ev += 1
                        distinct.add(("A'", t, lab, w))
                        o = attempt(lambda: _sig(ia.refine_droplets(ff, mk2(), num_processes=w)))
                        outs[w] = o[:2] if o[:1] == ("raised",) else o
                    if len({repr(v) for v in outs.values()}) != 1:
                        report("refine_droplets:outcome", "refine_droplets: the outcome (result / exception class) depends on the number of worker processes",
                               dict(t=t, scenario=lab, seed=seed, outcomes={str(k_): str(v)[:120] for k_, v in outs.items()}))
                # -- scenario B: locate_droplets(refine=True) end to end
                lopts = [dict(interface_width=1.0, minimal_radius=2.2), dict(modes=2 if grid.dim == 2 else 1, minimal_radius=1.0),
                         dict(minimal_radius=0.5, refine_args=dict(vmin=None, vmax=None))][t % 3]
                ref = attempt(lambda: _sig(_REAL["locate_droplets"](f, threshold=0.3, refine=True, num_processes=1, **copy.deepcopy(lopts))))
                ev += 1
                distinct.add(("B", t, 1))
                for w in workers[:2]:
                    ev += 1
                    distinct.add(("B", t, w))
                    got = attempt(lambda: _sig(_REAL["locate_droplets"](f, threshold=0.3, refine=True, num_processes=w, **copy.deepcopy(lopts))))
                    if got != ref:
                        report("locate_droplets:workers", "locate_droplets(refine=True): serial and worker-pool results differ",
                               dict(t=t, workers=w, seed=seed, options=str(lopts), serial=str(ref)[:300], parallel=str(got)[:300]))
                # -- scenario C: a stored sequence of fields (duplicate / non-monotonic time stamps, an empty frame)
                g1 = pde.UnitGrid([24, 24], periodic=[True, bool(t % 2)])
                st = pde.MemoryStorage()
                frames = [field_with(g1, 1 + (j + t) % 3, j) for j in range(4)] + [pde.ScalarField(g1, 0.0)]
                times = [[0, 1, 1, 2, 3], [2.5, -1, 0.5, 0.5, 4], [0, 1, 2, 3, 4]][t % 3]
                st.start_writing(frames[0])
                for fr, tt in zip(frames, times):
                    st.append(fr, tt)
                ekw = dict(threshold=0.3, minimal_radius=1.0)

                def etc_sig(e):
                    return [(float(tt), _sig(em)) for tt, em in zip(e.times, e.emulsions)]
                ref = attempt(lambda: etc_sig(EmulsionTimeCourse.from_storage(st, num_processes=1, refine=bool(t % 2), progress=False, **ekw)))
                ev += 1
                distinct.add(("C", t, 1))
                if ref[:1] == ("raised",) or [x[0] for x in ref] != [float(x) for x in times]:
                    report("from_storage:times", "from_storage does not pair the frames with the storage's time stamps in order", dict(t=t, seed=seed))
                for w in workers:
                    ev += 1
                    distinct.add(("C", t, w))
                    got = attempt(lambda: etc_sig(EmulsionTimeCourse.from_storage(st, num_processes=w, refine=bool(t % 2), **ekw)))
                    if got != ref:
                        report("from_storage:workers", "EmulsionTimeCourse.from_storage: serial and worker-pool results differ (frames / order / bytes)",
                               dict(t=t, workers=w, seed=seed, times=times))
        finally:
            ia.refine_droplet, ia.locate_droplets = _REAL["refine_droplet"], _REAL["locate_droplets"]
        return dict(evaluations=ev, distinct=len(distinct), violations=list(viol.values()))

    def replay(self, rec):
        r = self.run("quick", int(rec.get("inputs", {}).get("seed", 0)))
        return dict(violated=[v["signature"] for v in r["violations"]], observed=r["violations"][:2])


BOUNDED = [SerialVsWorkers()]
