"""Contracts for droplets/droplet_tracks.py (C06, C07) and the exhaustive small-scope tracking oracle."""
from __future__ import annotations

import itertools

import z3

from pyvc import heap as H, models, ops, source
from pyvc.bounded import Bounded
from pyvc.contract import Contract, loop, register
from pyvc.engine import Frame, LoopSpec, SymRaise
from pyvc.values import SArr, SClassRef, SExc, SInf, SNative, SObj, SOpaque, SSeq, Undecided, const_of, to_real, to_z3

from . import collections as co
from .emulsions import SMetricGrid, sym_emulsion

TR = "droplets.droplet_tracks"
I, Rl = z3.IntSort(), z3.RealSort()


# --- modular form of DropletTrack.append (python-list tracks built by the constructor, or symbolic tracks)
def _track_append_apply(self, engine, run, fi, args, kwargs):
    tr, d = args[0], args[1]
    t = args[2] if len(args) > 2 else kwargs.get("time")
    drops, times = tr.fields["droplets"], tr.fields["times"]
    if not isinstance(d, H.SRefObj):
        raise Undecided("DropletTrack.append of a local droplet")
    cp = co.DropletCopy.apply(co.REG_COPY, engine, run, None, [d], {})
    run.trust(f"contract:{self.key} (verified separately; dimension check assumed to pass at this call site)")
    if isinstance(drops, list) and isinstance(times, list):
        if t is None:
            t = 0 if not times else ops.binop(run, __import__("ast").Add(), times[-1], 1)
        drops.append(cp)
        times.append(t)
        return None
    if isinstance(drops, H.SListObj) and isinstance(times, H.SListObj):
        L = to_z3(times.length)
        if t is None:
            t = z3.If(L == 0, z3.RealVal(0), z3.Select(times.elems, L - 1) + 1)
        drops.raw_append(run, cp)
        times.raw_append(run, t)
        return None
    raise Undecided("DropletTrack with mixed list kinds")


co.TrackAppend.apply = _track_append_apply


@register
class TrackInit(Contract):
    """DropletTrack(droplets=[d], times=[t]) -- how a new track is started: one independent copy, stamped t"""
    key = f"{TR}:DropletTrack.__init__"
    modular = False

    def cases(self):
        return [dict(cls=c, dim=2) for c in co.CLASSES] + [dict(cls="SphericalDroplet", dim=2, mismatch=True)]

    def setup(self, run, case):
        lay = co.layout_of(case["cls"], case["dim"])
        co.touch_layout(run, lay)
        d = co.sym_heap_droplet(run, "droplet", case["dim"], case["cls"])
        t = run.input_real("time")
        me = SObj(source.get_class(TR, "DropletTrack"))
        self.ctx = (run, me, d, t, lay, co.snapshot(run))
        times = [t] if not case.get("mismatch") else [t, t]
        self.given_times = times
        return dict(self=me, droplets=[d], times=times)

    def post(self, a, ret, case):
        run, me, d, t, lay, arrs0 = self.ctx
        if case.get("mismatch"):
            return [("droplets and times of different length are rejected (ValueError)", False)]
        h = H.heap_of(run)
        drops, times = me.fields.get("droplets"), me.fields.get("times")
        if not (isinstance(drops, list) and isinstance(times, list) and len(drops) == 1 and len(times) == 1 and
                isinstance(drops[0], H.SRefObj)):
            return [("the new track holds exactly one droplet and one time", False)]
        nrec = h.read("data", drops[0].ref, sort=I)
        return [("the stored droplet is a new object with a new data record", z3.And(drops[0].ref >= h.alloc0, nrec >= h.alloc0)),
                ("the stored droplet holds the values of the given droplet", co.rec_fields_equal(lay, h.arr, nrec, arrs0,
                                                                                                 z3.Select(arrs0["data"], d.ref), case["dim"])),
                ("the track is stamped with the given time", to_real(times[0]) == t),
                ("the track keeps its own list of times (the caller's list is not shared)", times is not self.given_times),
                ("the given droplet is not modified", co.frame_old_records(run, arrs0, lay))]

    def raises(self, a, exc, case):
        if case.get("mismatch"):
            return [("raises ValueError", exc.cls_name == "ValueError")]
        return [(f"no exception escapes (raised {exc.cls_name})", False)]


# --- cdist (assumed scipy contract) ---------------------------------------------------------------
@models.external("scipy.spatial.distance.cdist")
def sp_cdist(engine, run, a, k):
    """Assumed: cdist(XA, XB, metric) needs two non-empty 2-d point sets (ValueError otherwise) and returns
    the matrix metric(XA[i], XB[j])."""
    XA, XB = a[0], a[1]
    metric = k.get("metric", a[2] if len(a) > 2 else "euclidean")

    def ln(x):
        return len(x) if isinstance(x, list) else x.length
    run.oblige("requires of scipy cdist: XA is a non-empty 2-dimensional array of points",
               to_z3(ln(XA)) > 0 if not isinstance(ln(XA), int) else ln(XA) > 0, kind="requires")
    run.oblige("requires of scipy cdist: XB is a non-empty 2-dimensional array of points",
               to_z3(ln(XB)) > 0 if not isinstance(ln(XB), int) else ln(XB) > 0, kind="requires")
    run.trust("scipy: cdist(XA, XB, metric)[i, j] == metric(XA[i], XB[j]); both inputs non-empty")
    f = z3.Function(f"cdist!{next(run.counter)}", I, I, Rl)
    run.ghost["cdist"] = dict(XA=XA, XB=XB, metric=metric, fn=f)
    return H.SMat(ln(XA), ln(XB), lambda i, j: f(to_z3(i), to_z3(j)), "cdist")


@register
class MatchDistancePre(Contract):
    """match_tracks (method='distance'): call-site safety of the distance matrix -- the frame may be empty"""
    key = f"{TR}:DropletTrackList.from_emulsion_time_course.<match_tracks>#1"
    modular = False
    prefer_variants = {f"{co.EM}:Emulsion.data": "frame"}

    def cases(self):
        return [dict(grid=g, alive=n) for g in ("none", "given") for n in (0, 1, 2)]

    def setup(self, run, case):
        dim = 2
        lay = co.layout_of("SphericalDroplet", dim)
        co.touch_layout(run, lay)
        em = sym_emulsion(run, "emulsion", dim)      # symbolic length: 0 is allowed ("frames without droplets")
        alive = [co.sym_track(run, f"track{k}", dim, "SphericalDroplet") for k in range(case["alive"])]
        for tr in alive:
            run.assume(to_z3(tr.fields["droplets"].length) > 0)     # tracks are never empty
        self.ctx = (run, em, alive)
        run.ghost["frame_emulsion"] = em
        return dict(emulsion=em, tracks_alive=alive, time=run.input_real("time"))

    def closure(self, engine, run, fi, a, case):
        grid = SMetricGrid(2) if case["grid"] == "given" else None
        tracks = []
        return Frame(fi.parent, {"tracks": tracks, "grid": grid, "max_dist": SInf(1)}, None, source.load_module(fi.module))

    def call(self, engine, run, fi, a, case):
        return engine.call_function(run, fi, [a["emulsion"], a["tracks_alive"]], {"time": a["time"]},
                                    closure=self.closure(engine, run, fi, a, case))

    def post(self, a, ret, case):
        return [("returns None", ret is None)]

    def post_truncated(self, a, case):
        """state when the matching loop is reached: the distance matrix was built with the right metric and cut-off"""
        run, em, alive = self.ctx
        g = run.ghost.get("cdist")
        if g is None:
            # no matrix: only allowed when there is nothing to match
            return [("a distance matrix is built whenever there are alive tracks and droplets",
                     z3.Or(z3.BoolVal(len(alive) == 0), to_z3(em.length) == 0))]
        out = []
        if case["grid"] == "none":
            out.append(("without a grid the Euclidean metric is used", g["metric"] == "euclidean"))
        else:
            p = SArr([z3.Real("mp0"), z3.Real("mp1")])
            q = SArr([z3.Real("mq0"), z3.Real("mq1")])
            ok = False
            try:
                val = run.engine.invoke(run, g["metric"], [p, q], {})
                grid = [v for v in run.trusted if False]
                ok = val
            except Exception:
                ok = None
            fn = z3.Function("Dg", *([Rl] * 4), Rl)
            out.append(("with a grid the metric handed to cdist is grid.distance(., ., coords='cartesian')",
                        ok is not None and z3.is_expr(ok) and ok == fn(p.elems[0], p.elems[1], q.elems[0], q.elems[1])))
        XA, XB = g["XA"], g["XB"]
        out.append(("rows are the last positions of the alive tracks, columns the droplets of the frame",
                    isinstance(XA, list) and len(XA) == len(alive) and isinstance(XB, SSeq) and z3.eq(to_z3(XB.length), to_z3(em.length))))
        return out

    def realise(self, case, model):
        n = (model or {}).get("emulsion_len", 0)
        return dict(frames=[[[0.5, 0.5]], [] if not n else [[0.5, 0.5]] * int(min(n, 2)), [[0.5, 0.5]]], method="distance",
                    grid=case["grid"] == "given")

    def search(self, case, tier, seed):
        """inputs on which a wrong metric shows: a droplet crossing the periodic boundary of a fully / partially periodic grid"""
        for inp in list(self.bounded_inputs(case, tier, seed)) + ([dict(frames=[[[5.7, 1.5]], [[0.2, 1.5]]], radii=[[0.6], [0.6]], method="distance", grid=g,
                                                                      max_dist=2.0, dim=2) for g in (True, [True, False])] if case["grid"] == "given" else []):
            res = self.concrete_run(case, inp)
            if res and res.get("violated"):
                res.setdefault("inputs", inp)
                return res
        return None

    def bounded_inputs(self, case, tier, seed):
        yield dict(frames=[[[0.5, 0.5]], [], [[0.5, 0.5]]], method="distance", grid=case["grid"] == "given")
        yield dict(frames=[[], [[0.5, 0.5]], []], method="distance", grid=case["grid"] == "given")

    def concrete_run(self, case, inputs):
        return run_tracking(inputs)


@register
class FrameEmulsionData(Contract):
    """`emulsion.data` of a FRAME of a time course inside a matcher: frames are arbitrary emulsions and may mix droplet classes, for which
    Emulsion.data raises TypeError (its verified contract) - the matchers must read positions droplet by droplet"""
    key = f"{co.EM}:Emulsion.data"
    variant = "frame"
    call_site = True

    def cases(self):
        return []

    def apply(self, engine, run, fi, args, kwargs):
        if run.ghost.get("frame_emulsion") is None or args[0] is not run.ghost["frame_emulsion"]:
            return NotImplemented
        run.oblige("requires of Emulsion.data: all members have ONE droplet class - not established for a frame of a time course (any emulsion, "
                   "e.g. a spherical next to a diffuse droplet): tracking such a course would raise TypeError", z3.BoolVal(False), kind="requires",
                   assume_after=False)
        raise SymRaise(SExc("TypeError", ("Emulsion data cannot be stored contiguously",)))


class _Truncate(LoopSpec):
    truncate = True


KEY_MD = f"{TR}:DropletTrackList.from_emulsion_time_course.<match_tracks>#1"
loop(KEY_MD, 0)(_Truncate)     # while True: greedy matching      -- covered by the bounded oracle only
loop(KEY_MD, 1)(_Truncate)     # for i, droplet in enumerate(...)  -- covered by the bounded oracle only


def run_tracking(inputs):
    """run the real tracker on a small time course and compare with the independent oracle (all C06/C07 clauses)"""
    import droplets
    import pde
    frames = inputs["frames"]
    dim = inputs.get("dim", 2)
    rad = inputs.get("radius", 0.4)
    radii = inputs.get("radii")
    gsel = inputs.get("grid")
    grid = None if not gsel else pde.UnitGrid([6] * dim, periodic=(True if gsel is True else [bool(x) for x in gsel][:dim]))
    times = inputs.get("times") or list(range(len(frames)))
    ems = []
    for fi_, fr in enumerate(frames):
        ems.append(droplets.Emulsion([droplets.SphericalDroplet(p, (radii[fi_][k] if radii else rad)) for k, p in enumerate(fr)]))
    etc = droplets.EmulsionTimeCourse(ems, times)
    snapshot = [[(tuple(d.position), d.radius) for d in e] for e in etc]
    kw = dict(method=inputs["method"], grid=grid)
    if inputs.get("max_dist") is not None:
        kw["max_dist"] = inputs["max_dist"]
    try:
        tl = droplets.DropletTrackList.from_emulsion_time_course(etc, **kw)
    except Exception as e:   # noqa: BLE001
        return dict(violated=[f"tracking a valid time course raised {type(e).__name__}: {e}"], inputs=inputs)
    return dict(violated=check_tracks(tl, etc, snapshot, times, inputs, grid), observed=f"{len(tl)} tracks", inputs=inputs)


def _dist(grid, p, q):
    import numpy as np
    d = np.asarray(q, float) - np.asarray(p, float)
    if grid is not None:
        for ax in range(grid.dim):
            if grid.periodic[ax]:
                L = grid.axes_bounds[ax][1] - grid.axes_bounds[ax][0]
                d[ax] = (d[ax] + L / 2) % L - L / 2
    return float(np.sqrt(np.sum(d * d)))


def check_tracks(tl, etc, snapshot, times, inputs, grid):
    import numpy as np
    bad = []
    # --- C06: partition, unchanged, stamped, input untouched
    placed = {}
    for ti, tr in enumerate(tl):
        if len(tr.times) != len(tr.droplets) or len(tr.times) == 0:
            bad.append("every track is non-empty with paired times and droplets")
        for k, (t, d) in enumerate(zip(tr.times, tr.droplets)):
            if t not in times:
                bad.append("every stored droplet is stamped with its frame's time")
                continue
            f = times.index(t)
            hits = [i for i, (p, r) in enumerate(snapshot[f]) if np.array_equal(p, d.position) and r == d.radius]
            hits = [i for i in hits if (f, i) not in placed] or hits
            if not hits:
                bad.append("every stored droplet equals a droplet of the frame it is stamped with")
                continue
            if (f, hits[0]) in placed:
                bad.append("every droplet appears in exactly one track exactly once")
            placed[(f, hits[0])] = (ti, k)
            if any(d is x for e in etc for x in e):
                bad.append("tracks hold copies, not the caller's objects")
    total = sum(len(s) for s in snapshot)
    if len(placed) != total:
        bad.append("every droplet appears in exactly one track exactly once")
    if [[(tuple(d.position), d.radius) for d in e] for e in etc] != snapshot or list(etc.times) != list(times):
        bad.append("the time course passed in is left unmodified")
    # frames with non-overlapping droplets: one droplet per frame per track, consecutive frames
    no_overlap = all(_dist(grid, a[0], b[0]) >= a[1] + b[1] for s in snapshot for a, b in itertools.combinations(s, 2))
    for tr in tl:
        fs = [times.index(t) for t in tr.times if t in times]
        if no_overlap and (len(set(fs)) != len(fs) or fs != list(range(fs[0], fs[0] + len(fs))) if fs else False):
            bad.append("every track holds at most one droplet per frame and covers a gap-free run of consecutive frames")
    # --- C07: identity
    if no_overlap and not bad:
        slot = {v: k for k, v in placed.items()}
        method = inputs["method"]
        md = inputs.get("max_dist")
        md = float("inf") if md is None else md
        for f in range(1, len(snapshot)):
            prev, cur = snapshot[f - 1], snapshot[f]
            link = {}          # cur index -> prev index as chosen by the tracker
            for (ff, i), (ti, k) in placed.items():
                if ff == f and k > 0:
                    pf, pi = slot[(ti, k - 1)]
                    link[i] = pi
            if method == "overlap":
                ov = {(p, c) for p in range(len(prev)) for c in range(len(cur))
                      if _dist(grid, prev[p][0], cur[c][0]) < prev[p][1] + cur[c][1] - 1e-12}
                touch = {(p, c) for p in range(len(prev)) for c in range(len(cur))
                         if abs(_dist(grid, prev[p][0], cur[c][0]) - (prev[p][1] + cur[c][1])) <= 1e-12}
                if touch:
                    continue       # knife edge
                for c, p in link.items():
                    if (p, c) not in ov:
                        bad.append("consecutive droplets of a track overlap")
                for c in range(len(cur)):
                    if not any((p, c) in ov for p in range(len(prev))) and c in link:
                        bad.append("a droplet overlapping no droplet of the previous frame starts a new track")
                one_to_one = all(sum(1 for (p, c) in ov if p == pp) <= 1 for pp in range(len(prev))) and \
                    all(sum(1 for (p, c) in ov if c == cc) <= 1 for cc in range(len(cur)))
                if one_to_one and {(p, c) for c, p in link.items()} != ov:
                    bad.append("with a one-to-one overlap relation the tracks follow exactly that relation")
            else:
                D = [[_dist(grid, prev[p][0], cur[c][0]) for c in range(len(cur))] for p in range(len(prev))]
                flat = sorted(D[p][c] for p in range(len(prev)) for c in range(len(cur)))
                distinct = all(b - a > 1e-9 for a, b in zip(flat, flat[1:]))
                for c, p in link.items():
                    if D[p][c] > md + 1e-12:
                        bad.append("linked droplets are never farther apart than the cut-off")
                ended = set(range(len(prev))) - set(link.values())
                started = set(range(len(cur))) - set(link)
                if any(D[p][c] <= md - 1e-12 for p in ended for c in started):
                    bad.append("no track ends in a frame in which a new track starts within the cut-off of it")
                if distinct:
                    exp, up, uc = {}, set(), set()
                    pairs = sorted((D[p][c], p, c) for p in range(len(prev)) for c in range(len(cur)) if D[p][c] <= md)
                    for dd, p, c in pairs:
                        if p not in up and c not in uc:
                            exp[c] = p
                            up.add(p)
                            uc.add(c)
                    if exp != link:
                        bad.append("with distinct distances the links are those of repeatedly joining the closest remaining pair")
    return sorted(set(bad))


class TrackingOracle(Bounded):
    """exhaustive small-scope stand-in for the whole algorithm (partition + identity clauses) against an independent oracle"""
    name = "tracking-vs-oracle"
    bound = ("ALL time courses of <= 3 frames with <= 2 non-overlapping droplets per frame on a 3-site half-integer 1-d lattice with radii "
             "{0.4, 0.9} (incl. empty frames, splitting and merging events), both methods; all 2-frame courses with radii {0.5, 1.0} (exactly touching droplets, tangent daughters of a split); with/without a periodic grid and cut-offs "
             "{none, 1.2} for <= 2 frames (thorough: also for 3 frames); distance method: ALL pairs of frames with <= 3 droplets on a 4-site lattice with pairwise "
             "distinct distances x cut-offs {none, 1.3, 2.0} x {no grid, periodic grid}; plus 150 (quick) / 3000 (thorough) "
             "random 1-3-d time courses of <= 5 frames x <= 4 moving, appearing and disappearing non-overlapping droplets")

    def run(self, tier, seed):
        import numpy as np
        ev, viol, distinct = 0, {}, set()

        def one(inp, sig):
            nonlocal ev
            ev += 1
            distinct.add(sig)
            r = run_tracking(inp)
            for v in r["violated"]:
                key = v.split(" raised ")[0] if " raised " in v else v
                viol.setdefault((inp["method"], key), dict(signature=f"{inp['method']}:{key}", what=f"{inp['method']} tracking: {v}",
                                                            inputs=inp, native=r))
        lat = [0.5, 1.5, 2.5]
        rads = [0.4, 0.9]
        singles = [[(x, r)] for x in lat for r in rads]
        pairs = [[(x, r1), (y, r2)] for x, y in itertools.combinations(lat, 2) for r1 in rads for r2 in rads if abs(x - y) >= r1 + r2]
        frames_opts = [[]] + singles + pairs
        for n in (1, 2, 3):
            for frames in itertools.product(frames_opts, repeat=n):
                for method in ("overlap", "distance"):
                    for grid in (False, True):
                        for md in ((None,) if method == "overlap" else (None, 1.2)):
                            if n == 3 and tier == "quick" and (grid or md is not None):
                                continue
                            one(dict(frames=[[[x] for x, _ in f] for f in frames], radii=[[r for _, r in f] for f in frames],
                                     method=method, grid=grid, max_dist=md, dim=1), ("lat", repr(frames), method, grid, md))
        # droplets that TOUCH exactly (surface distance 0, representable exactly: half-integer sites, radii 0.5 / 1.0) do not overlap: a droplet
        # splitting into two tangent daughters must give two tracks, not one track with two droplets of one frame
        rads_t = [0.5, 1.0]
        singles_t = [[(x, r)] for x in lat for r in rads_t]
        pairs_t = [[(x, r1), (y, r2)] for x, y in itertools.combinations(lat, 2) for r1 in rads_t for r2 in rads_t if abs(x - y) >= r1 + r2]
        opts_t = [[]] + singles_t + pairs_t
        for frames in itertools.product(opts_t, repeat=2):
            for method in ("overlap", "distance"):
                one(dict(frames=[[[x] for x, _ in f] for f in frames], radii=[[r for _, r in f] for f in frames], method=method, grid=False,
                         max_dist=None, dim=1), ("tangent", repr(frames), method))
        for grid in (False, True):
            one(dict(frames=[[[3.0]], [[2.0], [4.0]], [[2.0], [4.0]]], radii=[[3.0], [1.0, 1.0], [1.0, 1.0]], method="overlap", grid=grid, max_dist=None, dim=1),
                ("tangent-split", grid))
        # distance method: two frames of <= 3 droplets on a lattice with pairwise distinct distances (greedy order matters)
        lat2 = [0.5, 1.7, 3.3, 5.6]
        subsets = [c for n in range(0, 4) for c in itertools.combinations(lat2, n)]
        for prev in subsets:
            for cur in subsets:
                for md in (None, 1.3, 2.0):
                    for grid in (False, True):
                        one(dict(frames=[[[x] for x in prev], [[x + 0.05] for x in cur]], radius=0.3, method="distance", grid=grid,
                                 max_dist=md, dim=1), ("lat2", prev, cur, md, grid))
        # a droplet crossing the periodic boundary of a PARTIALLY periodic grid (2-d), both methods, with a cut-off
        for mask in ([True, False], [False, True]):
            ax = mask.index(True)
            for y in (1.5, 3.0):
                a, b = [0.0, 0.0], [0.0, 0.0]
                a[ax], b[ax], a[1 - ax], b[1 - ax] = 5.7, 0.2, y, y
                for method, md in (("distance", 2.0), ("distance", None), ("overlap", None)):
                    one(dict(frames=[[a], [b]], radii=[[0.6], [0.6]], method=method, grid=mask, max_dist=md, dim=2), ("cross", tuple(mask), y, method, md))
        rng = np.random.default_rng(seed + 99)
        for t in range(150 if tier == "quick" else 3000):
            dim = int(rng.integers(1, 4))
            nf = int(rng.integers(1, 6))
            pts = [rng.uniform(0.5, 5.5, dim) for _ in range(int(rng.integers(0, 5)))]
            frames, radii = [], []
            for f in range(nf):
                pts = [p + rng.uniform(-0.3, 0.3, dim) for p in pts if rng.random() > 0.15]
                if rng.random() < 0.3:
                    pts.append(rng.uniform(0.5, 5.5, dim))
                if rng.random() < 0.1:
                    pts = []
                # thin out to keep droplets of one frame non-overlapping
                keep = []
                for p in pts:
                    if all(np.linalg.norm((p - q + 3) % 6 - 3) > 0.8 for q in keep):
                        keep.append(p % 6)
                pts = keep
                frames.append([p.tolist() for p in pts])
                radii.append([0.4] * len(pts))
            tms = sorted(set(np.round(rng.uniform(-5, 5, nf), 2).tolist()))
            if len(tms) != nf:
                tms = list(range(nf))
            if t % 7 == 0 and nf > 1:
                tms[1 % nf] = 0.0 if 0.0 not in tms else tms[1 % nf]
                tms = sorted(set(tms))
                if len(tms) != nf:
                    tms = list(range(-1, nf - 1))
            gsel = bool(t % 3 == 0)
            if t % 3 == 1 and dim >= 2:
                gsel = [True] + [False] * (dim - 1) if t % 2 else [False] * (dim - 1) + [True]      # partially periodic grid
            one(dict(frames=frames, radii=radii, method=["overlap", "distance"][t % 2], grid=gsel, dim=dim,
                     max_dist=[None, 1.0, 0.5][t % 3] if t % 2 else None, times=tms), ("rnd", t))
        return dict(evaluations=ev, distinct=len(distinct), violations=list(viol.values()))

    def replay(self, rec):
        return run_tracking(rec["inputs"])


# =====================================================================================================================
# match_tracks (method="overlap"): verified as a whole - inner loop by a filter invariant, outer loop by a loop-body contract
from .io import Sym, _BodyOnce   # noqa: E402  (generic recording objects, loop-body specs)

KEY_MO = f"{TR}:DropletTrackList.from_emulsion_time_course.<match_tracks>#0"
B = z3.BoolSort()
OVL = z3.Function("overlaps_last_of_track", I, I, B)       # (alive track k, droplet i) at the time droplet i is processed
CNTF = z3.Function("overlapping_among_first", I, I, I)     # (j, i): number of k < j with OVL(k, i)
ELEMF = z3.Function("pth_overlapping_track", I, I, I)      # (p, i): index of the p-th overlapping alive track


def filter_facts(m, i, at):
    """facts about the count / enumeration of {k < m : OVL(k, i)} (definitions of a filter; their inductive consequences are trusted and
    listed: monotone count, enumeration in increasing order).  Instantiated at the terms in `at`."""
    out = [CNTF(0, i) == 0,
           # enumeration: the p-th overlapping track (here p = 0, the only entry the code reads) is an alive, overlapping track
           z3.Implies(CNTF(m, i) >= 1, z3.And(ELEMF(0, i) >= 0, ELEMF(0, i) < m, OVL(ELEMF(0, i), i)))]
    for j in at:
        out += [CNTF(j + 1, i) == CNTF(j, i) + z3.If(OVL(j, i), 1, 0), CNTF(j, i) >= 0,
                z3.Implies(z3.And(j >= 0, j <= m), CNTF(j, i) <= CNTF(m, i)),
                z3.Implies(z3.And(j >= 0, j < m), CNTF(j + 1, i) <= CNTF(m, i)),
                z3.Implies(z3.And(j >= 0, OVL(j, i)), ELEMF(CNTF(j, i), i) == j)]
    return out


class SymList:
    """python list built by appends inside a cut loop: length term + element function"""

    def __init__(self, length, at):
        self.length, self.at = length, at

    def sym_len(self, run):
        return self.length

    def sym_getitem(self, run, idx):
        i = to_z3(idx)
        run.oblige("list index in range (overlaps)", z3.And(i >= 0, i < to_z3(self.length)), kind="implicit")
        return self.at(i)


class OverlapInner(LoopSpec):
    """for track in tracks_alive: `overlaps` holds exactly the alive tracks seen so far whose last droplet overlaps the current droplet"""
    force = True

    def havoc(self, run, env):
        g = run.ghost["mo"]
        i = g["cur"]
        g["ovl_len"] = run.fresh_int("n_overlaps")
        env["overlaps"] = SymList(g["ovl_len"], lambda p: g["tracks"].at(ELEMF(to_z3(p), i)))

    def invariant(self, run, env, j, seq):
        g = run.ghost["mo"]
        i = g["cur"]
        ov = env["overlaps"]
        for f in filter_facts(g["m"], i, [j, j - 1]):
            run.define(f, "filter count / enumeration facts")
        if isinstance(ov, list):
            if len(ov) == 0:
                yield ("`overlaps` has one entry per overlapping alive track seen so far", CNTF(j, i) == 0)
            else:
                # appended in this step: the list of the previous state plus the current track
                yield ("`overlaps` is extended by a python list append only", z3.BoolVal(False))
            return
        if isinstance(ov, SymList):
            yield ("`overlaps` has one entry per overlapping alive track seen so far", to_z3(ov.length) == CNTF(j, i))
            return
        yield ("`overlaps` is a list", z3.BoolVal(False))

    def before_body(self, run, env, j, seq):
        g = run.ghost["mo"]
        g["ovl_calls"].clear()
        ov = env["overlaps"]
        # give the symbolic list an append that records the appended track
        g["inner_app"] = []
        if isinstance(ov, SymList):
            L0 = ov.length

            class Grow(SymList):
                def sym_getattr(self_inner, run2, attr):
                    if attr == "append":
                        def app(run3, a, k):
                            g["inner_app"].append(a[0])
                            self_inner.length = to_z3(self_inner.length) + 1
                        return SNative(app, "list.append")
                    from pyvc.engine import _MISSING
                    return _MISSING
            env["overlaps"] = Grow(L0, ov.at)

    def after_body(self, run, env, j, seq):
        g = run.ghost["mo"]
        i = g["cur"]
        apps = g["inner_app"]
        tr = seq.at(j)
        if isinstance(tr, tuple) and tr:
            tr = tr[0]             # e.g. iteration over (track, ...) pairs
        if getattr(tr, "term", None) is None:
            raise Undecided("the inner loop does not iterate over the alive tracks")
        run.oblige("the overlap test is made once per alive track, with the grid's (periodic) metric",
                   z3.BoolVal(len(g["ovl_calls"]) == 1 and g["ovl_calls"][0][1] is g["grid"]), kind="ensures", assume_after=False)
        run.oblige("the current track is appended to `overlaps` exactly when its last droplet overlaps the current droplet (with the grid's metric)",
                   z3.And(z3.BoolVal(len(apps) <= 1 and all(a is tr or getattr(a, "term", None) is not None and z3.eq(a.term, tr.term) for a in apps)),
                          z3.BoolVal(len(apps) == 1) == OVL(j, i)), kind="ensures", assume_after=False)


class OverlapOuter(_BodyOnce):
    def before_body(self, run, env, i, seq):
        g = run.ghost["mo"]
        g["cur"] = i
        g["appends"].clear()
        g["new_tracks"].clear()
        g["ovl_calls"].clear()

    def after_body(self, run, env, i, seq):
        g = run.ghost["mo"]
        m = g["m"]
        ap, nt = g["appends"], g["new_tracks"]
        d = seq.at(i)
        for f in filter_facts(m, i, [m, z3.Int("sk_track")]):
            run.define(f, "filter count / enumeration facts")
        run.oblige("droplet i is placed exactly once: appended to one track or started as one new track", z3.BoolVal(len(ap) + len(nt) == 1),
                   kind="ensures", assume_after=False)
        n1 = g["ovl_len"] if "ovl_len" in g else z3.IntVal(0)
        if len(ap) == 1 and not nt:
            tr, args, kw = ap[0]
            ok = (len(args) == 1 and getattr(args[0], "term", None) is not None and z3.eq(args[0].term, d.term) and set(kw) == {"time"} and kw["time"] is g["time"])
            run.oblige("the droplet appended is droplet i itself, stamped with the frame's time", z3.BoolVal(bool(ok)), kind="ensures", assume_after=False)
            k = z3.Int("sk_track")
            kstar = tr.index
            run.oblige("the extended track is an alive track whose last droplet overlaps droplet i ...",
                       z3.And(kstar >= 0, kstar < m, OVL(kstar, i)), kind="ensures", assume_after=False)
            run.oblige("... and it is the only such track (identity is followed only when it is unambiguous)",
                       z3.Implies(z3.And(k >= 0, k < m, OVL(k, i)), k == kstar), kind="ensures", assume_after=False)
        elif len(nt) == 1 and not ap:
            args, kw = nt[0]
            dl, tl = kw.get("droplets"), kw.get("times")
            ok = (not args and isinstance(dl, list) and len(dl) == 1 and getattr(dl[0], "term", None) is not None and z3.eq(dl[0].term, d.term)
                  and isinstance(tl, list) and len(tl) == 1 and tl[0] is g["time"] and set(kw) == {"droplets", "times"})
            run.oblige("a new track starts with exactly droplet i and the frame's time, and is added to the track list", z3.And(z3.BoolVal(bool(ok)), z3.BoolVal(g["added_to_tracks"] == 1)),
                       kind="ensures", assume_after=False)
            run.oblige("a new track is started only when no alive track or several alive tracks overlap droplet i", CNTF(m, i) != 1, kind="ensures", assume_after=False)
        for (kk, gr) in g["ovl_calls"]:
            if gr is not g["grid"]:
                run.oblige("the overlap test uses the grid's (periodic) metric", z3.BoolVal(False), kind="ensures", assume_after=False)
        g["added_to_tracks"] = 0


LOOPS_T = __import__("pyvc.contract", fromlist=["LOOPS"]).LOOPS
LOOPS_T[(KEY_MO, 0)] = OverlapOuter()
LOOPS_T[(KEY_MO, 1)] = OverlapInner()


@register
class MatchOverlap(Contract):
    key = KEY_MO
    modular = False

    def cases(self):
        return [dict(grid=g) for g in ("none", "given")]

    def setup(self, run, case):
        n, m = run.input_int("n_droplets"), run.input_int("n_alive")
        run.assume(z3.And(n >= 0, m >= 0))
        DROP, TRK = z3.Function("droplet_of_frame", I, I), z3.Function("alive_track", I, I)
        g = dict(m=m, n=n, appends=[], new_tracks=[], ovl_calls=[], added_to_tracks=0, cur=z3.Int("before_the_frame_loop"))
        grid = SOpaque("grid") if case["grid"] == "given" else None
        g["grid"] = grid
        time = run.input_real("time")
        g["time"] = time

        def mk_track(k):
            k = to_z3(k)

            def last(run2):
                # `track.last` is the track's last droplet AT THE TIME IT IS READ: a track extended by an earlier droplet of this frame has a new
                # last droplet, so the read must happen while the current droplet is processed (reads hoisted out of the loop see a stale one)
                when = g["cur"]

                def ov(run3, a, kw):
                    g["ovl_calls"].append((k, kw.get("grid", a[1] if len(a) > 1 else None)))
                    x = a[0]
                    return OVL(k, when) if getattr(x, "term", None) is not None else (_ for _ in ()).throw(Undecided("overlaps with something else"))
                return Sym(f"last[{k}]", methods={"overlaps": ov})
            last._lazy = True
            t = Sym(f"track[{k}]", term=TRK(k), attrs={"last": last},
                    methods={"append": lambda run2, a, kw: g["appends"].append((t, list(a), dict(kw)))})
            t.index = k
            return t
        tracks = SSeq(m, mk_track, "tracks_alive", "list")
        g["tracks"] = tracks
        em = SSeq(n, lambda i: Sym(f"droplet[{i}]", term=DROP(to_z3(i))), "emulsion", "list")
        run.ghost["mo"] = g
        models.CONSTRUCTORS["DropletTrack"] = lambda eng, run2, cls, args, kw: (g["new_tracks"].append((list(args), dict(kw))) or SObj(cls, {"_new": True}))
        all_tracks = Sym("tracks", methods={"append": lambda run2, a, kw: g.__setitem__("added_to_tracks", g["added_to_tracks"] + (1 if isinstance(a[0], SObj) and a[0].fields.get("_new") else 100))})
        self.ctx = (run, g, all_tracks, grid)
        return dict(emulsion=em, tracks_alive=tracks, time=time)

    def closure(self, engine, run, fi, a, case):
        run_, g, all_tracks, grid = self.ctx
        return Frame(fi.parent, {"tracks": all_tracks, "grid": grid}, None, source.load_module(fi.module))

    def call(self, engine, run, fi, a, case):
        return engine.call_function(run, fi, [a["emulsion"], a["tracks_alive"]], {"time": a["time"]}, closure=self.closure(engine, run, fi, a, case))

    def post(self, a, ret, case):
        return [("returns None", ret is None)]


# =====================================================================================================================
# match_tracks (method="distance"): the greedy loop and the leftover loop, verified for any number of alive tracks / droplets
KEY_MDL = KEY_MD
D0F = z3.Function("distance_prev_now", I, I, Rl)         # metric(last position of alive track a, position of droplet b)
USEDROW = lambda arr, a: z3.Select(arr, a)               # noqa: E731


class SymIntSet:
    """python set of ints built by .add inside a cut loop: characteristic function"""

    def __init__(self, arr):
        self.arr = arr

    def sym_getattr(self, run, attr):
        if attr == "add":
            def add(run2, a, k):
                self.arr = z3.Store(self.arr, to_z3(a[0]), z3.BoolVal(True))
            return SNative(add, "set.add")
        from pyvc.engine import _MISSING
        return _MISSING

    def sym_contains(self, E, item):
        return z3.Select(self.arr, to_z3(item))


class GreedyLoop(LoopSpec):
    """while True: link the closest remaining (alive track, droplet) pair within the cut-off; break when none is left"""
    has_variant = False

    def init_ghost(self, run, env):
        g = run.ghost["md"]
        g["rows_used"] = z3.K(I, z3.BoolVal(False))
        env["added"] = SymIntSet(z3.K(I, z3.BoolVal(False)))

    def havoc(self, run, env):
        g = run.ghost["md"]
        c = next(run.counter)
        g["rows_used"] = z3.Const(f"rows_used!{c}", z3.ArraySort(I, B))
        env["added"] = SymIntSet(z3.Const(f"added!{c}", z3.ArraySort(I, B)))
        d = env["dists"]
        f = z3.Function(f"dists!{c}", I, I, Rl)
        env["dists"] = H.SMat(g["m"], g["n"], lambda a, b: f(to_z3(a), to_z3(b)), "dists")

    def invariant(self, run, env, it, seq):
        g = run.ghost["md"]
        d, added = env["dists"], env["added"]
        m, n, md = g["m"], g["n"], g["max_dist"]
        a, b = z3.Ints("ga gb")
        inr = z3.And(a >= 0, a < m, b >= 0, b < n)
        if not isinstance(d, H.SMat) or not isinstance(added, SymIntSet):
            yield ("`dists` is the distance matrix and `added` the set of linked droplets", z3.BoolVal(False))
            return
        used = g["rows_used"]
        free = z3.And(z3.Not(z3.Select(used, a)), z3.Not(z3.Select(added.arr, b)), D0F(a, b) <= md)
        yield ("the matrix keeps its shape (alive tracks x droplets of the frame)", z3.And(to_z3(d.rows) == m, to_z3(d.cols) == n))
        yield ("an entry is the original distance exactly when its track and its droplet are still unlinked and the distance is within the cut-off; "
               "every other entry is infinite",
               z3.ForAll([a, b], z3.Implies(inr, d.at(a, b) == z3.If(free, D0F(a, b), H.INF()))))

    def before_body(self, run, env, it, seq):
        g = run.ghost["md"]
        g["appends"].clear()
        g["pre_added"] = env["added"].arr
        g["pre_used"] = g["rows_used"]

    def after_body(self, run, env, it, seq):
        g = run.ghost["md"]
        m, n, md = g["m"], g["n"], g["max_dist"]
        ap = g["appends"]
        run.oblige("a step of the greedy loop links exactly one droplet to exactly one alive track", z3.BoolVal(len(ap) == 1), kind="ensures", assume_after=False)
        if len(ap) != 1:
            return
        tr, args, kw = ap[0]
        i, j = tr.index, getattr(args[0], "index", None) if args else None
        ok = j is not None and len(args) == 1 and set(kw) == {"time"} and kw["time"] is g["time"]
        run.oblige("the droplet is appended itself, stamped with the frame's time", z3.BoolVal(bool(ok)), kind="ensures", assume_after=False)
        if not ok:
            return
        a, b = z3.Ints("ga gb")
        pre_free = lambda x, y: z3.And(z3.Not(z3.Select(g["pre_used"], x)), z3.Not(z3.Select(g["pre_added"], y)), D0F(x, y) <= md)   # noqa: E731
        run.oblige("the linked track was alive and unlinked, the droplet was not linked before (each track gets at most one droplet of the frame, each "
                   "droplet is linked at most once), and their distance is within the cut-off",
                   z3.And(i >= 0, i < m, j >= 0, j < n, pre_free(i, j)), kind="ensures", assume_after=False)
        run.oblige("the link is a closest pair among all still unlinked (track, droplet) pairs within the cut-off (greedy order)",
                   z3.ForAll([a, b], z3.Implies(z3.And(a >= 0, a < m, b >= 0, b < n, pre_free(a, b)), D0F(i, j) <= D0F(a, b))), kind="ensures", assume_after=False)
        # ghost: row i is used now (the code marks it by writing infinities; `added` is updated by the code itself)
        g["rows_used"] = z3.Store(g["pre_used"], i, z3.BoolVal(True))
        run.oblige("the linked droplet is recorded in `added`", z3.Select(env["added"].arr, j), kind="ensures", assume_after=False)

    def at_exit(self, run, env, it, seq):
        g = run.ghost["md"]
        m, n, md = g["m"], g["n"], g["max_dist"]
        a, b = z3.Ints("ga gb")
        added = env["added"]
        g["exit_added"] = added.arr
        run.oblige("when the loop stops no unlinked alive track is within the cut-off of an unlinked droplet (no track ends next to a track that starts)",
                   z3.ForAll([a, b], z3.Implies(z3.And(a >= 0, a < m, b >= 0, b < n, z3.Not(z3.Select(g["rows_used"], a)), z3.Not(z3.Select(added.arr, b))),
                                                D0F(a, b) > md)), kind="ensures", assume_after=False)


class LeftoverLoop(_BodyOnce):
    def before_body(self, run, env, i, seq):
        g = run.ghost["md"]
        g["new_tracks"].clear()
        g["added_to_tracks"] = 0

    def after_body(self, run, env, i, seq):
        g = run.ghost["md"]
        nt = g["new_tracks"]
        added = env["added"]
        was = added.sym_contains(run, i) if isinstance(added, SymIntSet) else z3.BoolVal(False)
        run.oblige("a droplet starts a new track exactly when it was not linked to an alive track", z3.BoolVal(len(nt) == 1) == z3.Not(was) if len(nt) <= 1 else z3.BoolVal(False),
                   kind="ensures", assume_after=False)
        if len(nt) == 1:
            args, kw = nt[0]
            dl, tl = kw.get("droplets"), kw.get("times")
            ok = (not args and isinstance(dl, list) and len(dl) == 1 and getattr(dl[0], "index", None) is not None and isinstance(tl, list) and len(tl) == 1
                  and tl[0] is g["time"] and set(kw) == {"droplets", "times"} and g["added_to_tracks"] == 1)
            run.oblige("the new track holds exactly that droplet and the frame's time and is added to the track list",
                       z3.And(z3.BoolVal(bool(ok)), dl[0].index == i) if ok else z3.BoolVal(False), kind="ensures", assume_after=False)


@register
class MatchDistanceLoops(Contract):
    key = KEY_MDL
    variant = "loops"
    modular = False
    loops = {}

    def cases(self):
        return [dict(grid=g, cutoff=c) for g in ("none", "given") for c in ("inf", "finite")]

    def setup(self, run, case):
        n, m = run.input_int("n_droplets"), run.input_int("n_alive")
        run.assume(z3.And(n >= 0, m >= 0))
        g = dict(m=m, n=n, appends=[], new_tracks=[], added_to_tracks=0)
        time = run.input_real("time")
        g["time"] = time
        md = H.INF() if case["cutoff"] == "inf" else run.input_real("max_dist")
        g["max_dist"] = md
        a, b = z3.Ints("ga gb")
        run.assume(z3.ForAll([a, b], z3.And(D0F(a, b) >= 0, D0F(a, b) < H.INF())))
        if case["cutoff"] == "finite":
            run.assume(z3.And(md >= 0, md < H.INF()))

        def mk_track(k):
            k = to_z3(k)
            t = Sym(f"track[{k}]", attrs={"last": Sym(f"last[{k}]", attrs={"position": Sym(f"p_prev[{k}]", term=k)})},
                    methods={"append": lambda run2, args, kw: g["appends"].append((t, list(args), dict(kw)))})
            t.index = k
            return t

        def mk_drop(i):
            i = to_z3(i)
            d = Sym(f"droplet[{i}]", attrs={"position": Sym(f"p_now[{i}]", term=i)})
            d.index = i
            return d
        tracks = SSeq(m, mk_track, "tracks_alive", "list")
        em = SSeq(n, mk_drop, "emulsion", "list")
        run.ghost["md"] = g
        models.CONSTRUCTORS["DropletTrack"] = lambda eng, run2, cls, args, kw: (g["new_tracks"].append((list(args), dict(kw))) or SObj(cls, {"_new": True}))
        all_tracks = Sym("tracks", methods={"append": lambda run2, a_, kw: g.__setitem__("added_to_tracks", g["added_to_tracks"] + (1 if isinstance(a_[0], SObj) and a_[0].fields.get("_new") else 100))})
        self.ctx = (run, g, all_tracks, SMetricGrid(2) if case["grid"] == "given" else None, md, case)
        run.ghost["use_d0f"] = True
        return dict(emulsion=em, tracks_alive=tracks, time=time)

    def closure(self, engine, run, fi, a, case):
        run_, g, all_tracks, grid, md, case_ = self.ctx
        return Frame(fi.parent, {"tracks": all_tracks, "grid": grid, "max_dist": SInf(1) if case["cutoff"] == "inf" else md}, None, source.load_module(fi.module))

    def call(self, engine, run, fi, a, case):
        # the two loops of this function are verified here (they are truncated for the other contract of the same function)
        eng_specs = engine.loop_specs
        eng_specs[(KEY_MDL, 0)] = GreedyLoop()
        eng_specs[(KEY_MDL, 1)] = LeftoverLoop()
        return engine.call_function(run, fi, [a["emulsion"], a["tracks_alive"]], {"time": a["time"]}, closure=self.closure(engine, run, fi, a, case))

    def post(self, a, ret, case):
        run, g, all_tracks, grid, md, case_ = self.ctx
        cd = run.ghost.get("cdist")
        out = [("returns None", ret is None)]
        if cd is not None:
            if case["grid"] == "none":
                out.append(("without a grid the Euclidean metric is used", cd["metric"] == "euclidean"))
            out.append(("rows are the alive tracks (their last positions), columns the droplets of the frame, in order",
                        isinstance(cd["XA"], SSeq) and isinstance(cd["XB"], SSeq) and cd["XA"].length is g["m"] and cd["XB"].length is g["n"]))
        return out


_prev_cdist = models.EXTERNALS["scipy.spatial.distance.cdist"]


@models.external("scipy.spatial.distance.cdist")
def sp_cdist2(engine, run, a, k):
    if run.ghost.get("use_d0f"):
        g = run.ghost["md"]
        XA, XB = a[0], a[1]
        run.oblige("requires of scipy cdist: XA is a non-empty 2-dimensional array of points", to_z3(XA.length) > 0, kind="requires")
        run.oblige("requires of scipy cdist: XB is a non-empty 2-dimensional array of points", to_z3(XB.length) > 0, kind="requires")
        # row a / column b must be the a-th alive track / b-th droplet
        ia, ib = z3.Ints("ca cb")
        pa, pb = XA.at(ia), XB.at(ib)
        ok = getattr(pa, "term", None) is not None and getattr(pb, "term", None) is not None and z3.eq(pa.term, ia) and z3.eq(pb.term, ib) and pa.name.startswith("p_prev") and pb.name.startswith("p_now")
        run.oblige("the distance matrix pairs the last position of alive track a with the position of droplet b", z3.BoolVal(bool(ok)), kind="ensures", assume_after=False)
        run.trust("scipy: cdist(XA, XB, metric)[a, b] == metric(XA[a], XB[b]); both inputs non-empty")
        run.ghost["cdist"] = dict(XA=XA, XB=XB, metric=k.get("metric", a[2] if len(a) > 2 else "euclidean"))
        return H.SMat(XA.length, XB.length, lambda x, y: D0F(to_z3(x), to_z3(y)), "dists")
    return _prev_cdist(engine, run, a, k)


# =====================================================================================================================
# DropletTrackList.from_emulsion_time_course: method dispatch and the frame loop
KEY_FL = f"{TR}:DropletTrackList.from_emulsion_time_course"
TIMEF = z3.Function("time_of_frame", I, Rl)
FRAMEF = z3.Function("emulsion_of_frame", I, I)
ENDF = z3.Function("end_time_of_track", I, Rl)


def _mk_matcher_call(key, name):
    class M(Contract):
        variant = "frame-loop"
        call_site = True

        def cases(self):
            return []

        def apply(self, engine, run, fi, args, kwargs):
            g = run.ghost.get("fl")
            if g is None:
                return NotImplemented
            run.trust(f"contract:{key} (verified separately): places every droplet of the frame exactly once (extends alive tracks / starts new ones)")
            g["match_calls"].append((name, list(args), dict(kwargs)))
            return None
    M.key = key
    M.__name__ = "MatcherCall_" + name
    return register(M)


_mk_matcher_call(KEY_MO, "overlap")
_mk_matcher_call(KEY_MD, "distance")


class FrameLoop(LoopSpec):
    force = True

    def havoc(self, run, env):
        pass

    def invariant(self, run, env, i, seq):
        g = run.ghost["fl"]
        g["phase"] = g.get("phase", 0) + 1
        if g["phase"] == 1:
            yield ("before the first frame no frame has been seen (t_last is None)", z3.BoolVal(env["t_last"] is None))
        elif g["phase"] == 2:
            # assume phase: t_last is None in the first step, the previous frame's time afterwards
            if run.branch(i == 0):
                env["t_last"] = None
            else:
                env["t_last"] = TIMEF(i - 1)
            g["t_last_pre"] = env["t_last"]
        else:
            tl = env["t_last"]
            yield ("after a frame, t_last is that frame's time - for EVERY frame, also one without droplets (so that tracks only stay alive for one frame)",
                   tl == TIMEF(i - 1) if z3.is_expr(tl) else z3.BoolVal(False))

    def before_body(self, run, env, i, seq):
        run.ghost["fl"]["match_calls"].clear()

    def after_body(self, run, env, i, seq):
        g = run.ghost["fl"]
        mc = g["match_calls"]
        nonempty = z3.Function("droplets_in_frame", I, I)(i) > 0
        run.oblige("a frame with droplets is matched exactly once (one without at most once), with the matcher of the requested method",
                   z3.And(z3.BoolVal(len(mc) <= 1 and all(c[0] == g["method"] for c in mc)), z3.Implies(nonempty, z3.BoolVal(len(mc) == 1))),
                   kind="ensures", assume_after=False)
        g["phase"] = 2
        if len(mc) != 1:
            return
        name, args, kw = mc[0]
        em = args[0] if args else kw.get("emulsion")
        alive = args[1] if len(args) > 1 else kw.get("tracks_alive")
        t = kw.get("time", args[2] if len(args) > 2 else None)
        run.oblige("the frame's own emulsion and time are handed to the matcher",
                   z3.And(z3.BoolVal(getattr(em, "term", None) is not None), em.term == FRAMEF(i), t == TIMEF(i)) if getattr(em, "term", None) is not None and z3.is_expr(t)
                   else z3.BoolVal(False), kind="ensures", assume_after=False)
        from .parallel import SFilterMap
        k = z3.Int("sk_trk")
        pre = g["t_last_pre"]
        if isinstance(alive, SFilterMap) and alive.src is g["tracks_seq"]:
            v = alive.val(k)
            want = z3.BoolVal(False) if pre is None else (ENDF(k) == pre)
            run.oblige("the alive tracks are exactly the tracks that end at the previous frame's time (none before the first frame), in order",
                       z3.And(z3.BoolVal(getattr(v, "index", None) is not None), to_z3(alive.keep(k)) == want), kind="ensures", assume_after=False)
        else:
            run.oblige("the alive tracks are selected from all tracks built so far", z3.BoolVal(False), kind="ensures", assume_after=False)


LOOPS_T[(KEY_FL, 0)] = FrameLoop()


@register
class FromTimeCourse(Contract):
    key = KEY_FL
    modular = False

    def cases(self):
        return [dict(method="overlap"), dict(method="distance"), dict(method="distance", max_dist=True), dict(method="bogus")]

    def setup(self, run, case):
        n = run.input_int("n_frames")
        run.assume(n >= 0)
        nt = run.input_int("n_tracks")
        run.assume(nt >= 0)

        def mk_track(k):
            k = to_z3(k)
            t = Sym(f"track[{k}]", attrs={"end": ENDF(k)})
            t.index = k
            return t
        tracks_seq = SSeq(nt, mk_track, "tracks", "list")
        tracks = Sym("tracks", iterate=lambda run2: tracks_seq, methods={"append": lambda run2, a, k: None})
        LENF = z3.Function("droplets_in_frame", I, I)
        run.assume(z3.ForAll([z3.Int("lf")], LENF(z3.Int("lf")) >= 0))
        frames = SSeq(n, lambda i: (TIMEF(to_z3(i)), Sym(f"emulsion[{i}]", term=FRAMEF(to_z3(i)), length=LENF(to_z3(i)), truth=LENF(to_z3(i)) > 0)), "items", "iter")
        tc = Sym("time_course", methods={"items": lambda run2, a, k: frames}, length=n)
        g = dict(match_calls=[], method=case["method"], tracks_seq=tracks_seq, tracks=tracks)
        run.ghost["fl"] = g
        models.CONSTRUCTORS["DropletTrackList"] = lambda eng, run2, cls, args, kw: tracks
        self.ctx = (run, g, tracks)
        kw = {}
        if case.get("max_dist"):
            kw["max_dist"] = run.input_real("max_dist")
        return dict(cls=SClassRef(source.get_class(TR, "DropletTrackList")), time_course=tc, method=case["method"], grid=None, progress=False, kw=kw)

    def call(self, engine, run, fi, a, case):
        return engine.call_function(run, fi, [a["cls"], a["time_course"]], {"method": a["method"], "grid": a["grid"], "progress": a["progress"], **a["kw"]})

    def raises(self, a, exc, case):
        if case["method"] == "bogus":
            return [(f"an unknown tracking method raises ValueError (raised {exc.cls_name})", exc.cls_name == "ValueError")]
        return [(f"a valid request raises nothing (raised {exc.cls_name})", False)]

    def post(self, a, ret, case):
        run, g, tracks = self.ctx
        if case["method"] == "bogus":
            return [("an unknown tracking method must raise", False)]
        return [("the track list that was filled is returned", ret is tracks)]
