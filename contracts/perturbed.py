"""Contracts for the perturbed droplet classes (C13, parts of C03) and the harmonic helpers.

Spec series (recursively defined; uninterpreted z3 functions with the unfolding instances the
proof needs -- base `PS(0) = 0`, step `PS(n) = PS(n-1) + term(n)`):

  2-D   rho(phi)        = R * (1 + sum_{n=1..N} [A_n sin(n phi) + B_n cos(n phi)])      A_n = amp[2n-2], B_n = amp[2n-1] (0 if absent)
  3-D   rho(theta,phi)  = R * (1 + sum_{k=1..K} amp[k-1] * Y_k(theta, phi))             Y_k the real harmonic of mode k
  axi   rho(theta)      = R * (1 + sum_{l=1..K} amp[l-1] * Y_{l,0}(theta))
  curvature (linearised, trusted differential geometry):
        2-D  1 / (R * (1 - sum (n^2-1) [A_n sin + B_n cos]))
        3-D  1/R + (1/R) * sum amp[k-1] * (l^2+l-2)/2 * Y_k,   l = degree of mode k
"""
from __future__ import annotations

import math

import z3

from pyvc import models, ops, source, spec as S
from pyvc.contract import Contract, register, loop
from pyvc.engine import LoopSpec, SymRaise
from pyvc.values import (is_num, SArr, SCell, SExc, SObj, SSeq, Undecided, const_of, to_real, to_z3)

from .common import fnum, make_droplet, sym_droplet

MOD = "droplets.droplets"
SPH = "droplets.tools.spherical"
I, Rl = z3.IntSort(), z3.RealSort()


def fn(name, *sorts):
    return z3.Function(name, *sorts)


YRk = fn("YRk", I, Rl, Rl, Rl)          # real harmonic of mode k at (theta, phi)
Yre = ops.ufun("Yre", 4, None, [I, I, Rl, Rl])
Yim = ops.ufun("Yim", 4, None, [I, I, Rl, Rl])
IPOW = ops.ufun("ipow_f", 2, I, [I, I])
SQRT = ops.ufun("sqrt_f")


DEG = fn("deg_of", I, I)                # degree l of mode k: the unique l >= 0 with l^2 <= k < (l+1)^2


def val(x):
    if isinstance(x, SCell):
        return x.v
    if isinstance(x, SArr):
        return x.elems[0]
    return x


def amps_of(selfobj):
    a = selfobj.fields["data"].get("amplitudes")
    if isinstance(a, SArr):
        return SSeq(len(a), lambda i, a=a: models.arr_getitem(None, a, i), "amplitudes", "array")
    return a


def amp_at(selfobj, idx):
    return to_real(amps_of(selfobj).at(to_z3(idx)))


def radius_of(selfobj):
    return to_real(selfobj.fields["data"].get("radius"))


class Series:
    """Partial sums S(n; ctx) of a spec series; ctx = the angles the terms depend on."""

    def __init__(self, name, nctx=0):
        self.f = fn(name, I, *([Rl] * nctx), Rl)
        self.nctx = nctx

    def __call__(self, n, *ctx):
        assert len(ctx) == self.nctx, (self.f.name(), ctx)
        return self.f(to_z3(n), *[to_real(c) for c in ctx])

    def base(self, run, *ctx):
        run.define(self(z3.IntVal(0), *ctx) == 0, f"series {self.f.name()} base")

    def unfold(self, run, n, term, *ctx):
        n = to_z3(n)
        run.define(self(n, *ctx) == self(n - 1, *ctx) + term, f"series {self.f.name()} unfolding")


# ---------------------------------------------------------------------------
# assumed contract of the generator `iterate_in_pairs` (outside the subset; validated by the bounded tier)
@register
class IterateInPairs(Contract):
    key = f"{MOD}:iterate_in_pairs"

    def cases(self):
        return []      # not verified here (generator); assumed at call sites, enumerated in bounded tier

    def apply(self, engine, run, fi, args, kwargs):
        it = args[0]
        fill = args[1] if len(args) > 1 else kwargs.get("fill", 0)
        seq = engine.iterate(run, it)
        if isinstance(seq, list):
            out = []
            for j in range(0, len(seq), 2):
                out.append((seq[j], seq[j + 1] if j + 1 < len(seq) else fill))
            return out
        L = to_z3(seq.length)
        run.trust("assumed contract: iterate_in_pairs(seq) yields (seq[2i], seq[2i+1] or fill) for i < ceil(len/2) "
                  "(generator outside the subset; enumerated in the bounded tier)")

        def at(i):
            i = to_z3(i)
            a = seq.at(2 * i)
            b2 = seq.at(2 * i + 1)
            b = z3.If(2 * i + 1 < L, to_real(b2), to_real(fill))
            return (a, b)
        return SSeq((L + 1) / 2, at, "pairs", kind="iter")


# ---------------------------------------------------------------------------
# harmonic helpers
@register
class SphericalIndexLM(Contract):
    key = f"{SPH}:spherical_index_lm"

    def setup(self, run, case):
        k = run.input_int("k")
        run.assume(k >= 0)
        return dict(k=k)

    def post(self, a, ret, case):
        if not (isinstance(ret, tuple) and len(ret) == 2):
            return [("returns a pair (degree, order)", False)]
        l, m = to_z3(ret[0]), to_z3(ret[1])
        k = a["k"]
        return [("degree l >= 0", l >= 0), ("l*l <= k < (l+1)*(l+1)", z3.And(l * l <= k, k < (l + 1) * (l + 1))),
                ("k == l*(l+1) + m", k == l * (l + 1) + m), ("-l <= m <= l", z3.And(-l <= m, m <= l))]

    def apply(self, engine, run, fi, args, kwargs):
        k = to_z3(args[0] if args else kwargs["k"])
        run.oblige("requires of spherical_index_lm: k >= 0", k >= 0, kind="requires")
        # the degree is a *function* of k (uniqueness: lemma isqrt-unique), so equal modes give equal degrees
        l = DEG(k)
        m = run.fresh_int("m")
        run.assume(z3.And(l >= 0, l * l <= k, k < (l + 1) * (l + 1), k == l * (l + 1) + m, -l <= m, m <= l))
        run.trust(f"contract:{self.key} (verified separately)")
        return (l, m)

    def bounded_inputs(self, case, tier, seed):
        for k in list(range(0, 60 if tier == "quick" else 5000)) + [10 ** 6, 2 ** 40 + 3, 4503599627370495]:
            yield dict(k=k)

    def concrete_run(self, case, inputs):
        import droplets.tools.spherical as sp
        k = int(inputs["k"])
        l, m = sp.spherical_index_lm(k)
        bad = []
        if not (l >= 0 and l * l <= k < (l + 1) * (l + 1)):
            bad.append("l*l <= k < (l+1)*(l+1)")
        if k != l * (l + 1) + m:
            bad.append("k == l*(l+1) + m")
        if not (-l <= m <= l):
            bad.append("-l <= m <= l")
        return dict(violated=bad, observed=repr((l, m)), inputs=inputs)


@register
class SphericalIndexK(Contract):
    key = f"{SPH}:spherical_index_k"
    modular = False

    def cases(self):
        return [dict(valid=True), dict(valid=False)]

    def setup(self, run, case):
        l, m = run.input_int("degree"), run.input_int("order")
        ok = z3.And(-l <= m, m <= l)
        run.assume(ok if case["valid"] else z3.Not(ok))
        return dict(degree=l, order=m)

    def post(self, a, ret, case):
        if not case["valid"]:
            return [("order outside [-degree, degree] must raise ValueError", False)]
        return [("k == l*(l+1) + m", to_z3(ret) == a["degree"] * (a["degree"] + 1) + a["order"])]

    def raises(self, a, exc, case):
        if case["valid"]:
            return [(f"no exception for a valid (degree, order) (raised {exc.cls_name})", False)]
        return [("raises ValueError", exc.cls_name == "ValueError")]


@register
class SphericalIndexCount(Contract):
    key = f"{SPH}:spherical_index_count"
    modular = False

    def setup(self, run, case):
        l = run.input_int("l")
        run.assume(l >= 0)
        return dict(l=l)

    def post(self, a, ret, case):
        l = a["l"]
        return [("count == (l+1)^2 == number of modes k with degree <= l", to_z3(ret) == (l + 1) * (l + 1))]


def yreal_def(l, m, th, ph):
    """Defining formula of the real spherical harmonics in terms of the complex ones."""
    s2 = SQRT(z3.RealVal(2))
    return z3.If(m > 0, z3.ToReal(IPOW(z3.IntVal(-1), m)) * s2 * Yre(l, m, th, ph),
                 z3.If(m == 0, Yre(l, z3.IntVal(0), th, ph),
                       s2 * z3.ToReal(IPOW(z3.IntVal(-1), m)) * Yim(l, -m, th, ph)))


@register
class HarmonicReal(Contract):
    key = f"{SPH}:spherical_harmonic_real"
    modular = False

    def cases(self):
        return [dict(arg="scalar"), dict(arg="array")]

    def setup(self, run, case):
        l, m = run.input_int("degree"), run.input_int("order")
        run.assume(z3.And(l >= 0, -l <= m, m <= l))
        th, ph = run.input_real("theta"), run.input_real("phi")
        w = (lambda x: SCell(x, "angles")) if case["arg"] == "array" else (lambda x: x)
        return dict(degree=l, order=m, θ=w(th), φ=w(ph))

    def post(self, a, ret, case):
        th, ph = val(a["θ"]), val(a["φ"])
        return [("equals the real harmonic Y_{l,m} built from the complex harmonic",
                 to_real(val(ret)) == yreal_def(a["degree"], a["order"], th, ph))]


@register
class HarmonicRealK(Contract):
    key = f"{SPH}:spherical_harmonic_real_k"

    def cases(self):
        return [dict(arg="scalar"), dict(arg="array")]

    def setup(self, run, case):
        k = run.input_int("k")
        run.assume(k >= 0)
        th, ph = run.input_real("theta"), run.input_real("phi")
        w = (lambda x: SCell(x, "angles")) if case["arg"] == "array" else (lambda x: x)
        return dict(k=k, θ=w(th), φ=w(ph))

    def post(self, a, ret, case):
        th, ph, k = val(a["θ"]), val(a["φ"]), a["k"]
        l, m = z3.Ints("l_spec m_spec")
        # (l, m) is *the* pair with l >= 0, l^2 <= k < (l+1)^2, m = k - l(l+1): stated with fresh spec variables
        hyp = z3.And(l >= 0, l * l <= k, k < (l + 1) * (l + 1), m == k - l * (l + 1))
        return [("equals the real harmonic of degree/order (l, m) = index_lm(k)",
                 z3.Implies(hyp, to_real(val(ret)) == yreal_def(l, m, th, ph)))]

    def apply(self, engine, run, fi, args, kwargs):
        b = dict(zip(["k", "θ", "φ"], args))
        b.update(kwargs)
        k, th, ph = to_z3(b["k"]), b["θ"], b["φ"]
        run.oblige("requires of spherical_harmonic_real_k: k >= 0", k >= 0, kind="requires")
        run.trust(f"contract:{self.key} (verified separately)")
        r = YRk(k, to_real(val(th)), to_real(val(ph)))
        for x in (th, ph):
            if isinstance(x, SCell):
                return SCell(r, x.space)
            if isinstance(x, SArr):
                return SArr([r], x.ndim)
        return r


@register
class HarmonicSymmetric(Contract):
    """spherical_harmonic_symmetric(l, θ) = Re Y_l^0(θ, 0)"""
    key = f"{SPH}:spherical_harmonic_symmetric"

    def cases(self):
        return [dict(arg="scalar"), dict(arg="array")]

    def setup(self, run, case):
        l = run.input_int("degree")
        run.assume(l >= 0)
        th = run.input_real("theta")
        return dict(degree=l, θ=SCell(th, "angles") if case["arg"] == "array" else th)

    def post(self, a, ret, case):
        return [("equals Re Y_l^0(theta, 0)", to_real(val(ret)) == Yre(a["degree"], z3.IntVal(0), val(a["θ"]), z3.RealVal(0)))]

    def apply(self, engine, run, fi, args, kwargs):
        b = dict(zip(["degree", "θ"], args))
        b.update(kwargs)
        l, th = to_z3(b["degree"]), b["θ"]
        run.trust(f"contract:{self.key} (verified separately)")
        r = Yre(l, z3.IntVal(0), to_real(val(th)), z3.RealVal(0))
        if isinstance(th, SCell):
            return SCell(r, th.space)
        if isinstance(th, SArr):
            return SArr([r], th.ndim)
        return r


# ---------------------------------------------------------------------------
class PerturbedMethod(Contract):
    cls_name = "PerturbedDroplet2D"
    dim = 2
    angles = ("φ",)
    modular = False
    on_axis = False

    def cases(self):
        return [dict(arg="array"), dict(arg="scalar")]

    def setup(self, run, case):
        d = sym_droplet(run, "self", self.dim, self.cls_name, on_axis=self.on_axis)
        rec = d.fields["data"]
        run.assume(rec.get("radius") > 0)
        a = dict(self=d)
        self.ang = {}
        for nm, sym in zip(self.angles, ("ang0", "ang1")):
            t = run.input_real(sym)
            self.ang[nm] = t
            a[nm] = SCell(t, "angles") if case["arg"] == "array" else t
        self.d = d
        return a

    def call(self, engine, run, fi, a, case):
        # through `invoke` so that the (verified) enable_scalar_args wrapper is applied
        args = [a[nm] for nm in self.angles if nm in a]
        return engine.invoke(run, models.SBound(a["self"], models.SFunc(fi)), args, {})

    # concrete helpers
    def mk(self, inputs):
        import numpy as np
        n = int(inputs.get("modes", 4))
        amps = [fnum(inputs.get(f"amp{k}", 0.0)) for k in range(n)]
        pos = [fnum(inputs.get(f"pos{j}", 0.0)) for j in range(self.dim)]
        if self.on_axis:
            pos[0] = pos[1] = 0.0
        return make_droplet(self.cls_name, pos, fnum(inputs.get("radius", 1.0)), fnum(inputs.get("width", 1.0)), np.array(amps))

    def realise(self, case, model):
        if not model:
            return None
        out = dict(radius=abs(fnum(model.get("self_radius", 1.0))) or 1.0, ang0=fnum(model.get("ang0", 0.3)),
                   ang1=fnum(model.get("ang1", 0.7)))
        n = model.get("self_modes", 4)
        n = int(n) if isinstance(n, int) and 0 <= n <= 12 else 4
        out["modes"] = n
        import random
        rng = random.Random(1)
        for k in range(n):
            out[f"amp{k}"] = round(rng.uniform(-0.2, 0.2), 3)
        return out

    def bounded_inputs(self, case, tier, seed):
        import random
        rng = random.Random(seed + 3)
        for t in range(10 if tier == "quick" else 150):
            n = [0, 1, 2, 3, 4, 5, 8, 7][t % 8]
            out = dict(modes=n, radius=[0.5, 1.0, 2.0, 7.0][t % 4], ang0=rng.uniform(0, math.pi), ang1=rng.uniform(0, 2 * math.pi))
            for j in range(self.dim):
                out[f"pos{j}"] = rng.uniform(-2, 2)
            for k in range(n):
                out[f"amp{k}"] = 0.0 if (t + k) % 5 == 0 else rng.uniform(-0.3, 0.3)
            yield out


def series2d(inputs, f):
    """sum_n f(n, A_n, B_n)"""
    n = int(inputs.get("modes", 0))
    amps = [fnum(inputs.get(f"amp{k}", 0.0)) for k in range(n)]
    tot = 0.0
    for j in range(0, n, 2):
        a = amps[j]
        b = amps[j + 1] if j + 1 < n else 0.0
        tot += f(j // 2 + 1, a, b)
    return tot


# --- 2-D -------------------------------------------------------------------
PS2 = Series("PS2d", 1)       # distance series
CS2 = Series("CS2d", 1)       # curvature series
DS2 = Series("DS2d", 1)       # d/dphi of the distance series
QS2 = Series("QS2d", 0)       # sum n^2 (a^2+b^2)


def AB(selfobj, n):
    L = to_z3(amps_of(selfobj).length)
    n = to_z3(n)
    A = amp_at(selfobj, 2 * n - 2)
    B = z3.If(2 * n - 1 < L, amp_at(selfobj, 2 * n - 1), z3.RealVal(0))
    return A, B


class PairLoop(LoopSpec):
    """`for n, (a, b) in enumerate(iterate_in_pairs(self.amplitudes), 1)` accumulating series."""
    acc = {}     # variable name -> (Series, sign, term(n, A, B, phi))

    def phi(self, env):
        return to_real(val(env["φ"])) if "φ" in env else None

    def ctx(self, env, ser):
        return (self.phi(env),) if ser.nctx else ()

    def init_ghost(self, run, env):
        for var, (ser, base, sign, term) in self.acc.items():
            ser.base(run, *self.ctx(env, ser))

    def havoc(self, run, env):
        for var in self.acc:
            cur = env[var]
            v = run.fresh_real(var)
            if isinstance(cur, SCell):
                env[var] = SCell(v, cur.space)
            elif isinstance(cur, SArr):
                env[var] = SArr([v], cur.ndim)
            else:
                env[var] = v

    def invariant(self, run, env, i, seq):
        for var, (ser, base, sign, term) in self.acc.items():
            v = to_real(val(env[var]))
            yield (f"{var} == {base} {'+' if sign > 0 else '-'} partial sum of the spec series up to mode i",
                   v == base + sign * ser(i, *self.ctx(env, ser)))

    def before_body(self, run, env, i, seq):
        me = env["self"]
        A, B = AB(me, i + 1)
        for var, (ser, base, sign, term) in self.acc.items():
            ser.unfold(run, i + 1, term(z3.ToReal(i + 1), A, B, self.phi(env)), *self.ctx(env, ser))


def _sin(x):
    return ops.ufun("sin_f")(x)


def _cos(x):
    return ops.ufun("cos_f")(x)


@loop(f"{MOD}:PerturbedDroplet2D.interface_distance", 0)
class Dist2DLoop(PairLoop):
    acc = {"dist": (PS2, 1, 1, lambda n, A, B, p: A * _sin(n * p) + B * _cos(n * p))}


@loop(f"{MOD}:PerturbedDroplet2D.interface_curvature", 0)
class Curv2DLoop(PairLoop):
    acc = {"curv_radius": (CS2, 1, -1, lambda n, A, B, p: (n * n - 1) * (A * _sin(n * p) + B * _cos(n * p)))}


@loop(f"{MOD}:PerturbedDroplet2D.surface_area_approx", 0)
class SurfApproxLoop(PairLoop):
    acc = {"length": (QS2, 4, 1, lambda n, A, B, p: n * n * (A * A + B * B))}


class _SurfLoop(PairLoop):
    acc = {"dist": (PS2, 1, 1, lambda n, A, B, p: A * _sin(n * p) + B * _cos(n * p)),
           "dist_dφ": (DS2, 0, 1, lambda n, A, B, p: n * (A * _cos(n * p) - B * _sin(n * p)))}

    def phi(self, env):
        return to_real(val(env["φs"]))


loop(f"{MOD}:PerturbedDroplet2D.surface_area", 0)(_SurfLoop)


def npairs(selfobj):
    return (to_z3(amps_of(selfobj).length) + 1) / 2


@register
class Distance2D(PerturbedMethod):
    key = f"{MOD}:PerturbedDroplet2D.interface_distance"

    def post(self, a, ret, case):
        me = a["self"]
        return [("rho(phi) == R * (1 + sum_n [A_n sin(n phi) + B_n cos(n phi)])",
                 to_real(val(ret)) == radius_of(me) * (1 + PS2(npairs(me), self.ang["φ"])))]

    def expected(self, inputs):
        p = inputs["ang0"]
        return inputs["radius"] * (1 + series2d(inputs, lambda n, a, b: a * math.sin(n * p) + b * math.cos(n * p)))

    def concrete_run(self, case, inputs):
        import numpy as np
        d = self.mk(inputs)
        p = inputs["ang0"]
        try:
            got = d.interface_distance(np.array([p, p])) if case["arg"] == "array" else d.interface_distance(p)
        except Exception as e:   # noqa: BLE001
            return dict(violated=[f"unexpected exception {type(e).__name__}: {e}"], inputs=inputs)
        g = float(np.ravel(got)[0])
        ok = S.eq(g, self.expected(inputs)) and (np.shape(got) == ((2,) if case["arg"] == "array" else ()))
        return dict(violated=[] if ok else ["rho(phi) == R * (1 + sum_n [A_n sin(n phi) + B_n cos(n phi)])"],
                    observed=repr(got), expected=self.expected(inputs), inputs=inputs)


@register
class Curvature2D(PerturbedMethod):
    key = f"{MOD}:PerturbedDroplet2D.interface_curvature"

    def pre(self, a, case):
        # the linearised curvature radius must not vanish (amplitudes small): 1 - sum != 0
        return [("curvature radius non-zero", 1 - CS2(npairs(a["self"]), self.ang["φ"]) != 0)]

    def post(self, a, ret, case):
        me = a["self"]
        return [("curvature * R * (1 - sum_n (n^2-1) [A_n sin + B_n cos]) == 1",
                 to_real(val(ret)) * radius_of(me) * (1 - CS2(npairs(me), self.ang["φ"])) == 1)]

    def expected(self, inputs):
        p = inputs["ang0"]
        return 1 / (inputs["radius"] * (1 - series2d(inputs, lambda n, a, b: (n * n - 1) * (a * math.sin(n * p) + b * math.cos(n * p)))))

    def concrete_run(self, case, inputs):
        import numpy as np
        d = self.mk(inputs)
        p = inputs["ang0"]
        try:
            got = d.interface_curvature(np.array([p, p])) if case["arg"] == "array" else d.interface_curvature(p)
        except Exception as e:   # noqa: BLE001
            return dict(violated=[f"unexpected exception {type(e).__name__}: {e}"], inputs=inputs)
        ok = S.eq(float(np.ravel(got)[0]), self.expected(inputs))
        return dict(violated=[] if ok else ["curvature * R * (1 - sum_n (n^2-1) [A_n sin + B_n cos]) == 1"],
                    observed=repr(got), expected=self.expected(inputs), inputs=inputs)


class Property2D(PerturbedMethod):
    def cases(self):
        return [dict()]

    def setup(self, run, case):
        d = sym_droplet(run, "self", 2, "PerturbedDroplet2D")
        run.assume(d.fields["data"].get("radius") > 0)
        self.d = d
        return dict(self=d)

    def call(self, engine, run, fi, a, case):
        self.run = run
        return engine.call_function(run, fi, [a["self"]], {})


@register
class SurfaceApprox2D(Property2D):
    key = f"{MOD}:PerturbedDroplet2D.surface_area_approx"

    def post(self, a, ret, case):
        me = a["self"]
        return [("surface_area_approx == pi * R * (4 + sum_n n^2 (A_n^2 + B_n^2)) / 2",
                 2 * to_real(ret) == ops.PI() * radius_of(me) * (4 + QS2(npairs(me))))]

    def concrete_run(self, case, inputs):
        d = self.mk(inputs)
        exp = math.pi * inputs["radius"] * (4 + series2d(inputs, lambda n, a, b: n * n * (a * a + b * b))) / 2
        got = float(d.surface_area_approx)
        return dict(violated=[] if S.eq(got, exp) else ["surface_area_approx == pi * R * (4 + sum_n n^2 (A_n^2 + B_n^2)) / 2"],
                    observed=got, expected=exp, inputs=inputs)


def _reductions(run, kind):
    return [r for r in run.ghost.get("reductions", []) if r.kind == kind]


@register
class Volume2D(Property2D):
    key = f"{MOD}:PerturbedDroplet2D.volume"

    def post(self, a, ret, case):
        me = a["self"]
        reds = _reductions(self.run, "sum")
        if len(reds) != 1:
            return [("exactly one sum over the amplitudes is formed", False)]
        r = reds[0]
        j = r.extra.get("index")
        out = [("the sum runs over all amplitudes", j is not None and z3.eq(to_z3(r.extra["length"]), to_z3(amps_of(me).length)))]
        if j is not None:
            out.append(("summand j is amplitude_j squared", to_real(r.integrand) == amp_at(me, j) * amp_at(me, j)))
        out.append(("area == pi R^2 (1 + (sum a_k^2)/2)  [orthogonality of the harmonics, trusted]",
                    to_real(ret) == ops.PI() * radius_of(me) * radius_of(me) * (1 + r.sym / 2)))
        return out

    def concrete_run(self, case, inputs):
        d = self.mk(inputs)
        n = int(inputs.get("modes", 0))
        ss = sum(fnum(inputs.get(f"amp{k}", 0.0)) ** 2 for k in range(n))
        exp = math.pi * inputs["radius"] ** 2 * (1 + ss / 2)
        got = float(d.volume)
        return dict(violated=[] if S.eq(got, exp) else ["area == pi R^2 (1 + (sum a_k^2)/2)"], observed=got, expected=exp,
                    inputs=inputs)


@register
class VolumeSetter2D(Property2D):
    key = f"{MOD}:PerturbedDroplet2D.volume@setter"

    def setup(self, run, case):
        a = super().setup(run, case)
        v = run.input_real("volume")
        run.assume(v > 0)
        a["volume"] = v
        return a

    def call(self, engine, run, fi, a, case):
        self.run = run
        return engine.call_function(run, fi, [a["self"], a["volume"]], {})

    def post(self, a, ret, case):
        me = a["self"]
        reds = _reductions(self.run, "sum")
        if len(reds) != 1:
            return [("exactly one sum over the amplitudes is formed", False)]
        r = reds[0]
        j = r.extra.get("index")
        Rn = radius_of(me)
        return [("summand j is amplitude_j squared", j is not None and to_real(r.integrand) == amp_at(me, j) * amp_at(me, j)),
                ("pi R'^2 (1 + (sum a_k^2)/2) == volume", ops.PI() * Rn * Rn * (1 + r.sym / 2) == a["volume"]),
                ("R' >= 0", Rn >= 0)]

    def pre(self, a, case):
        return []

    def bounded_inputs(self, case, tier, seed):
        for inp in super().bounded_inputs(case, tier, seed):
            inp["volume"] = 0.5 + inp["radius"]
            yield inp

    def concrete_run(self, case, inputs):
        d = self.mk(inputs)
        v = fnum(inputs.get("volume", 2.0))
        d.volume = v
        got = float(d.volume)
        return dict(violated=[] if S.eq(got, v) else ["reading the volume back returns the value set"], observed=got, inputs=inputs)


@register
class SurfaceArea2D(Property2D):
    key = f"{MOD}:PerturbedDroplet2D.surface_area"

    def post(self, a, ret, case):
        me = a["self"]
        run = self.run
        lin = run.ghost.get("linspace", [])
        reds = _reductions(run, "sum")
        if len(lin) != 1 or len(reds) != 1:
            return [("one quadrature grid and one quadrature sum", False)]
        g, r = lin[0], reds[0]
        phi = to_real(g["cell"].v)
        N = npairs(me)
        P, D = 1 + PS2(N, phi), DS2(N, phi)
        dx = D * _cos(phi) - P * _sin(phi)
        dy = D * _sin(phi) + P * _cos(phi)
        le = to_real(r.integrand)
        two_pi = 2 * ops.PI()
        return [("quadrature nodes are 256 equidistant angles in [0, 2 pi)",
                 z3.And(to_real(g["lo"]) == 0, to_real(g["hi"]) == two_pi, to_z3(g["num"]) == 256, g["endpoint"] is False)),
                ("the summed quantity is the line element |d(rho(phi) e(phi))/dphi| / R of the interface-distance curve",
                 z3.And(le >= 0, le * le == dx * dx + dy * dy)),
                ("surface_area == R * (sum of line elements) * (2 pi / 256)",
                 to_real(ret) == radius_of(me) * r.sym * (two_pi / 256))]

    def concrete_run(self, case, inputs):
        import numpy as np
        d = self.mk(inputs)
        # independent oracle: arc length of the curve rho(phi) e(phi) by a fine trapezoid of |dr/dphi|
        M = 20000
        ph = np.linspace(0, 2 * np.pi, M, endpoint=False)
        n = int(inputs.get("modes", 0))
        amps = [fnum(inputs.get(f"amp{k}", 0.0)) for k in range(n)]
        rho = np.ones(M)
        drho = np.zeros(M)
        for j in range(0, n, 2):
            a_ = amps[j]
            b_ = amps[j + 1] if j + 1 < n else 0.0
            m = j // 2 + 1
            rho += a_ * np.sin(m * ph) + b_ * np.cos(m * ph)
            drho += m * (a_ * np.cos(m * ph) - b_ * np.sin(m * ph))
        exp = inputs["radius"] * float(np.sum(np.hypot(rho, drho))) * 2 * np.pi / M
        got = float(d.surface_area)
        # the library integrates with a fixed number of points: for 8 amplitudes up to 0.3 (shapes that almost pinch off) its error reaches
        # 4e-5 relative (measured over 3000 shapes); 2e-4 leaves a margin and is far below any change of the integrand itself
        ok = math.isclose(got, exp, rel_tol=2e-4)
        return dict(violated=[] if ok else ["surface area equals the arc length of the interface-distance curve"],
                    observed=got, expected=exp, inputs=inputs)


# --- 3-D -------------------------------------------------------------------
PS3 = Series("PS3d", 2)
CS3 = Series("CS3d", 2)
PSA = Series("PSaxi", 1)
CSA = Series("CSaxi", 1)


class ModeLoop(LoopSpec):
    """`for k, a in enumerate(self.amplitudes, 1)` accumulating a series."""
    var = "dist"
    base = 1
    ser = PS3
    shape_from = "θ"

    def angles(self, env):
        th = to_real(val(env["θ"]))
        ph = to_real(val(env["φ"])) if "φ" in env and env["φ"] is not None else z3.RealVal(0)
        return th, ph

    def term(self, run, env, k, a):
        th, ph = self.angles(env)
        return a * YRk(k, th, ph)

    def ctx(self, env):
        return self.angles(env)[: self.ser.nctx]

    def init_ghost(self, run, env):
        self.ser.base(run, *self.ctx(env))

    def havoc(self, run, env):
        # the accumulator may start as the int 0 and become an array: give it the shape of the angle argument
        ref = env[self.shape_from]
        v = run.fresh_real(self.var)
        if isinstance(ref, SCell):
            env[self.var] = SCell(v, ref.space)
        elif isinstance(ref, SArr):
            env[self.var] = SArr([v], ref.ndim)
        else:
            env[self.var] = v

    def invariant(self, run, env, i, seq):
        cur = env[self.var]
        yield (f"{self.var} == {self.base} + partial sum of the spec series up to mode i",
               to_real(val(cur)) == self.base + self.ser(i, *self.ctx(env)))

    def before_body(self, run, env, i, seq):
        me = env["self"]
        k = to_z3(i) + 1
        self.ser.unfold(run, k, self.term(run, env, k, amp_at(me, k - 1)), *self.ctx(env))


@loop(f"{MOD}:PerturbedDroplet3D.interface_distance", 0)
class Dist3DLoop(ModeLoop):
    pass


def degree_of(run, k):
    """the degree l of mode k (spec variable characterised by l^2 <= k < (l+1)^2)"""
    l = DEG(k)
    run.define(z3.And(l >= 0, l * l <= k, k < (l + 1) * (l + 1)), "degree of a mode (isqrt)")
    return l


@loop(f"{MOD}:PerturbedDroplet3D.interface_curvature", 0)
class Curv3DLoop(ModeLoop):
    var, base, ser = "correction", 0, CS3

    def term(self, run, env, k, a):
        th, ph = self.angles(env)
        l = degree_of(run, k)
        return a * (z3.ToReal(l * l + l - 2) / 2) * YRk(k, th, ph)


@loop(f"{MOD}:PerturbedDroplet3DAxisSym.interface_distance", 0)
class DistAxiLoop(ModeLoop):
    ser = PSA

    def term(self, run, env, k, a):
        th, _ = self.angles(env)
        return a * Yre(k, z3.IntVal(0), th, z3.RealVal(0))


@loop(f"{MOD}:PerturbedDroplet3DAxisSym.interface_curvature", 0)
class CurvAxiLoop(ModeLoop):
    var, base, ser = "correction", 0, CSA

    def term(self, run, env, k, a):
        th, _ = self.angles(env)
        return a * (z3.ToReal(k * k + k - 2) / 2) * Yre(k, z3.IntVal(0), th, z3.RealVal(0))


def nmodes(selfobj):
    return to_z3(amps_of(selfobj).length)


def real_Y(k, th, ph):
    """numeric real harmonic of mode k via scipy (independent of the repo's helper)"""
    from scipy.special import sph_harm_y
    l = math.isqrt(k)
    m = k - l * (l + 1)
    if m > 0:
        return float((-1) ** m * math.sqrt(2) * sph_harm_y(l, m, th, ph).real)
    if m == 0:
        return float(sph_harm_y(l, 0, th, ph).real)
    return float(math.sqrt(2) * (-1) ** m * sph_harm_y(l, -m, th, ph).imag)


class Method3D(PerturbedMethod):
    cls_name, dim, angles = "PerturbedDroplet3D", 3, ("θ", "φ")

    def cases(self):
        return [dict(arg="array", phi="given"), dict(arg="array", phi="omitted"), dict(arg="scalar", phi="given")]

    def setup(self, run, case):
        a = super().setup(run, case)
        if case["phi"] == "omitted":
            del a["φ"]
            self.ang["φ"] = z3.RealVal(0)
        return a

    def ysum(self, inputs, case, weight=lambda k: 1.0):
        n = int(inputs.get("modes", 0))
        th = inputs["ang0"]
        ph = inputs["ang1"] if case.get("phi") != "omitted" else 0.0
        return sum(fnum(inputs.get(f"amp{k - 1}", 0.0)) * weight(k) * real_Y(k, th, ph) for k in range(1, n + 1))

    def native_call(self, d, name, case, inputs):
        import numpy as np
        th, ph = inputs["ang0"], inputs["ang1"]
        f = getattr(d, name)
        if case["arg"] == "array":
            args = [np.array([th, th])] + ([np.array([ph, ph])] if case["phi"] == "given" else [])
        else:
            args = [th] + ([ph] if case["phi"] == "given" else [])
        return f(*args)


@register
class Distance3D(Method3D):
    key = f"{MOD}:PerturbedDroplet3D.interface_distance"

    def post(self, a, ret, case):
        me = a["self"]
        return [("rho(theta, phi) == R * (1 + sum_k amp_k Y_k(theta, phi))",
                 to_real(val(ret)) == radius_of(me) * (1 + PS3(nmodes(me), self.ang["θ"], self.ang["φ"])))]

    def concrete_run(self, case, inputs):
        import numpy as np
        d = self.mk(inputs)
        try:
            got = self.native_call(d, "interface_distance", case, inputs)
        except Exception as e:   # noqa: BLE001
            return dict(violated=[f"unexpected exception {type(e).__name__}: {e}"], inputs=inputs)
        exp = inputs["radius"] * (1 + self.ysum(inputs, case))
        ok = S.eq(float(np.ravel(got)[0]), exp)
        return dict(violated=[] if ok else ["rho(theta, phi) == R * (1 + sum_k amp_k Y_k(theta, phi))"], observed=repr(got),
                    expected=exp, inputs=inputs)


@register
class Curvature3D(Method3D):
    key = f"{MOD}:PerturbedDroplet3D.interface_curvature"

    def post(self, a, ret, case):
        me = a["self"]
        R = radius_of(me)
        return [("H == 1/R + (1/R) * sum_k amp_k (l^2+l-2)/2 Y_k   (linearised mean curvature)",
                 to_real(val(ret)) * R == 1 + CS3(nmodes(me), self.ang["θ"], self.ang["φ"]))]

    def concrete_run(self, case, inputs):
        import numpy as np
        d = self.mk(inputs)
        try:
            got = self.native_call(d, "interface_curvature", case, inputs)
        except Exception as e:   # noqa: BLE001
            return dict(violated=[f"unexpected exception {type(e).__name__}: {e}"], inputs=inputs)
        R = inputs["radius"]
        exp = 1 / R + self.ysum(inputs, case, lambda k: (math.isqrt(k) ** 2 + math.isqrt(k) - 2) / 2) / R
        ok = S.eq(float(np.ravel(got)[0]), exp)
        return dict(violated=[] if ok else ["H == 1/R + (1/R) * sum_k amp_k (l^2+l-2)/2 Y_k"], observed=repr(got), expected=exp,
                    inputs=inputs)


class MethodAxi(PerturbedMethod):
    cls_name, dim, angles, on_axis = "PerturbedDroplet3DAxisSym", 3, ("θ",), True

    def ysum(self, inputs, weight=lambda k: 1.0):
        from scipy.special import sph_harm_y
        n = int(inputs.get("modes", 0))
        th = inputs["ang0"]
        return sum(fnum(inputs.get(f"amp{k - 1}", 0.0)) * weight(k) * float(sph_harm_y(k, 0, th, 0.0).real) for k in range(1, n + 1))


@register
class DistanceAxi(MethodAxi):
    key = f"{MOD}:PerturbedDroplet3DAxisSym.interface_distance"

    def post(self, a, ret, case):
        me = a["self"]
        return [("rho(theta) == R * (1 + sum_l amp_l Y_{l,0}(theta))", to_real(val(ret)) == radius_of(me) * (1 + PSA(nmodes(me), self.ang["θ"])))]

    def concrete_run(self, case, inputs):
        import numpy as np
        d = self.mk(inputs)
        th = inputs["ang0"]
        got = d.interface_distance(np.array([th, th])) if case["arg"] == "array" else d.interface_distance(th)
        exp = inputs["radius"] * (1 + self.ysum(inputs))
        ok = S.eq(float(np.ravel(got)[0]), exp)
        return dict(violated=[] if ok else ["rho(theta) == R * (1 + sum_l amp_l Y_{l,0}(theta))"], observed=repr(got), expected=exp,
                    inputs=inputs)


@register
class CurvatureAxi(MethodAxi):
    key = f"{MOD}:PerturbedDroplet3DAxisSym.interface_curvature"

    def post(self, a, ret, case):
        me = a["self"]
        R = radius_of(me)
        return [("H == 1/R + (1/R) * sum_l amp_l (l^2+l-2)/2 Y_{l,0}   (linearised mean curvature)",
                 to_real(val(ret)) * R == 1 + CSA(nmodes(me), self.ang["θ"]))]

    def concrete_run(self, case, inputs):
        import numpy as np
        d = self.mk(inputs)
        th = inputs["ang0"]
        got = d.interface_curvature(np.array([th, th])) if case["arg"] == "array" else d.interface_curvature(th)
        R = inputs["radius"]
        exp = 1 / R + self.ysum(inputs, lambda k: (k * k + k - 2) / 2) / R
        ok = S.eq(float(np.ravel(got)[0]), exp)
        return dict(violated=[] if ok else ["H == 1/R + (1/R) * sum_l amp_l (l^2+l-2)/2 Y_{l,0}"], observed=repr(got), expected=exp,
                    inputs=inputs)


class VolumeApprox(Property2D):
    cls_name, dim = "PerturbedDroplet3D", 3
    on_axis = False

    def setup(self, run, case):
        d = sym_droplet(run, "self", 3, self.cls_name, on_axis=self.on_axis)
        run.assume(d.fields["data"].get("radius") > 0)
        return dict(self=d)

    def post(self, a, ret, case):
        me = a["self"]
        return [("first-order volume == 4 pi R^3 / 3 (the monopole is excluded, every Y_{l>=1} integrates to zero)",
                 to_real(ret) == S.V(3, radius_of(me)))]

    def concrete_run(self, case, inputs):
        d = self.mk(inputs)
        got = float(d.volume_approx)
        exp = 4 * math.pi * inputs["radius"] ** 3 / 3
        return dict(violated=[] if S.eq(got, exp) else ["first-order volume == 4 pi R^3 / 3"], observed=got, expected=exp,
                    inputs=inputs)


@register
class VolumeApprox3D(VolumeApprox):
    key = f"{MOD}:PerturbedDroplet3D.volume_approx"


@register
class VolumeApproxAxi(VolumeApprox):
    key = f"{MOD}:PerturbedDroplet3DAxisSym.volume_approx"
    cls_name, on_axis = "PerturbedDroplet3DAxisSym", True


@register
class Volume3D(Property2D):
    """PerturbedDroplet3D.volume = dblquad of rho^3 sin(theta) / 3 over theta in [0, pi] (inner), phi in [0, 2 pi] (outer)"""
    key = f"{MOD}:PerturbedDroplet3D.volume"
    cls_name, dim = "PerturbedDroplet3D", 3

    def setup(self, run, case):
        d = sym_droplet(run, "self", 3, self.cls_name)
        run.assume(d.fields["data"].get("radius") > 0)
        return dict(self=d)

    def post(self, a, ret, case):
        me = a["self"]
        reds = _reductions(self.run, "dblquad")
        if len(reds) == 0 and is_num(ret):
            # no integration: acceptable exactly for an unperturbed droplet (all amplitudes zero), whose body is the sphere
            amps = me.fields["data"].get("amplitudes")
            j = z3.Int("vj")
            R = radius_of(me)
            return [("the volume is returned without integration only for a droplet whose amplitudes ALL vanish, and then it is the sphere volume",
                     z3.And(z3.ForAll([j], z3.Implies(z3.And(j >= 0, j < to_z3(amps.length)), to_real(amps.at(j)) == 0)),
                            to_real(ret) * 3 == 4 * ops.PI() * R * R * R))]
        if len(reds) != 1:
            return [("exactly one double integral is formed", False)]
        r = reds[0]
        x = r.extra
        th, ph = x["inner"], x["outer"]
        rho = radius_of(me) * (1 + PS3(nmodes(me), th, ph))
        # the series symbols PS3 are tied to the angles used inside interface_distance: identify them
        return [("outer variable phi runs over [0, 2 pi]", z3.And(to_real(x["outer_lo"]) == 0, to_real(x["outer_hi"]) == 2 * ops.PI())),
                ("inner variable theta runs over [0, pi]", z3.And(to_real(x["inner_lo"]) == 0, to_real(x["inner_hi"]) == ops.PI())),
                ("integrand == rho(theta, phi)^3 sin(theta) / 3 with theta the inner variable",
                 to_real(val(r.integrand)) * 3 == rho * rho * rho * _sin(th)),
                ("volume is the value of that integral", z3.eq(to_real(ret), r.sym))]

    def concrete_run(self, case, inputs):
        import numpy as np
        d = self.mk(inputs)
        got = float(d.volume)
        # independent oracle: Gauss-Legendre in cos(theta) x uniform in phi
        n = int(inputs.get("modes", 0))
        xs, ws = np.polynomial.legendre.leggauss(24)
        phs = np.linspace(0, 2 * np.pi, 48, endpoint=False)
        tot = 0.0
        for xq, wq in zip(xs, ws):
            th = math.acos(xq)
            for ph in phs:
                rho = inputs["radius"] * (1 + sum(fnum(inputs.get(f"amp{k - 1}", 0.0)) * real_Y(k, th, ph) for k in range(1, n + 1)))
                tot += wq * rho ** 3 / 3 * (2 * np.pi / 48)
        ok = math.isclose(got, tot, rel_tol=1e-6)
        return dict(violated=[] if ok else ["volume equals the integral over the body bounded by rho(theta, phi)"], observed=got,
                    expected=tot, inputs=inputs)

    def bounded_inputs(self, case, tier, seed):
        k = 0
        for inp in super().bounded_inputs(case, tier, seed):
            k += 1
            if k > (3 if tier == "quick" else 12):
                break
            if inp["modes"] > 8:
                inp["modes"] = 8
            yield inp
        # special amplitude vectors: modes that cancel exactly in their sum, a single non-zero mode, all equal
        # ... and high sectoral modes (l = 4, m = +-4 and l = 3, m = 3): rho^3 then contains azimuthal orders up to 12, which a coarse fixed
        # quadrature does not integrate
        y44 = [0.0] * 24
        y44[23], y44[15] = 0.15, -0.1
        y33 = [0.0] * 15
        y33[14], y33[7] = 0.15, 0.1
        for amps in ([0, 0, 0, 0.2, 0, -0.2, 0, 0], [0.125, -0.25, 0, 0.25, 0, -0.125, 0, 0], [0, 0, 0.25], [0.1, 0.1, 0.1], y44, y33):
            out = dict(modes=len(amps), radius=1.5, ang0=0.3, ang1=1.1, pos0=0.0, pos1=0.0, pos2=0.0)
            for j, a_ in enumerate(amps):
                out[f"amp{j}"] = float(a_)
            yield out


# ---------------------------------------------------------------------------
# modular forms of the distance functions (used by interface_position, _get_phase_field, volume)
def _wrap_like(r, ref):
    if isinstance(ref, SCell):
        return SCell(r, ref.space)
    if isinstance(ref, SArr):
        return SArr([r], ref.ndim)
    return r


def _dist2d_apply(self, engine, run, fi, args, kwargs):
    me, phi = args[0], args[1]
    run.trust(f"contract:{self.key} (verified separately)")
    return _wrap_like(radius_of(me) * (1 + PS2(npairs(me), to_real(val(phi)))), phi)


def _dist3d_apply(self, engine, run, fi, args, kwargs):
    me, th = args[0], args[1]
    ph = args[2] if len(args) > 2 else kwargs.get("φ")
    if ph is not None and isinstance(th, SCell) and isinstance(ph, SCell) and th.space != ph.space:
        raise SymRaise(SExc("ValueError", ("Shape of θ and φ must agree",)))
    phv = to_real(val(ph)) if ph is not None else z3.RealVal(0)
    run.trust(f"contract:{self.key} (verified separately)")
    return _wrap_like(radius_of(me) * (1 + PS3(nmodes(me), to_real(val(th)), phv)), th)


def _distaxi_apply(self, engine, run, fi, args, kwargs):
    me = args[0]
    npos = len(fi.node.args.args) - 1      # angles accepted by the current source
    if not (1 <= len(args) - 1 + len(kwargs) <= npos):
        run.oblige(f"call arity: PerturbedDroplet3DAxisSym.interface_distance takes {npos} angle(s) but "
                   f"{len(args) + len(kwargs) - 1} were given", False, kind="implicit", assume_after=False)
        raise SymRaise(SExc("TypeError", ("interface_distance() takes 2 positional arguments",)))
    th = args[1]
    run.trust(f"contract:{self.key} (verified separately)")
    return _wrap_like(radius_of(me) * (1 + PSA(nmodes(me), to_real(val(th)))), th)


Distance2D.modular, Distance2D.apply = True, _dist2d_apply
Distance3D.modular, Distance3D.apply = True, _dist3d_apply
DistanceAxi.modular, DistanceAxi.apply = True, _distaxi_apply


def unit_vector(dim, angs):
    if dim == 2:
        (p,) = angs
        return [_cos(p), _sin(p)]
    th, ph = angs
    return [_sin(th) * _cos(ph), _sin(th) * _sin(ph), _cos(th)]


class InterfacePosition(PerturbedMethod):
    """interface_position(angles) == centre + rho(angles) * unit_vector(angles), row by row"""
    rho = None

    def cases(self):
        return [dict(arg="array")]

    def post(self, a, ret, case):
        me = a["self"]
        if not (isinstance(ret, models.SStack) and len(ret.cells) == self.dim):
            return [(f"returns an (N, {self.dim}) array of positions", False)]
        angs = [self.ang[nm] for nm in self.angles]
        if len(angs) < self.dim - 1:
            angs.append(z3.RealVal(0))
        u = unit_vector(self.dim, angs)
        rho = self.rho(me, angs)
        pos = me.fields["data"].get("position").elems
        return [(f"component {j} == centre[{j}] + rho(angles) * e_{j}(angles)",
                 to_real(val(ret.cells[j])) == to_real(pos[j]) + rho * u[j]) for j in range(self.dim)]

    def rho_num(self, inputs):
        raise NotImplementedError

    def concrete_run(self, case, inputs):
        import numpy as np
        d = self.mk(inputs)
        angs = [inputs["ang0"], inputs["ang1"]][: len(self.angles)]
        try:
            got = d.interface_position(*[np.array([x, x]) for x in angs])
        except Exception as e:   # noqa: BLE001
            return dict(violated=[f"unexpected exception {type(e).__name__}: {e}"], inputs=inputs)
        full = angs + [0.0] * (self.dim - 1 - len(angs))
        if self.dim == 2:
            u = np.array([math.cos(full[0]), math.sin(full[0])])
        else:
            u = np.array([math.sin(full[0]) * math.cos(full[1]), math.sin(full[0]) * math.sin(full[1]), math.cos(full[0])])
        exp = np.asarray(d.position) + self.rho_num(inputs) * u
        ok = np.shape(got) == (2, self.dim) and np.allclose(got[0], exp, rtol=1e-9, atol=1e-12)
        return dict(violated=[] if ok else ["interface position == centre + rho(angles) * unit vector"], observed=repr(got),
                    expected=repr(exp), inputs=inputs)


@register
class Position2D(InterfacePosition):
    key = f"{MOD}:PerturbedDroplet2D.interface_position"
    rho = staticmethod(lambda me, angs: radius_of(me) * (1 + PS2(npairs(me), angs[0])))

    def rho_num(self, inputs):
        return Distance2D.expected(self, inputs)


@register
class Position3D(InterfacePosition):
    key = f"{MOD}:PerturbedDroplet3D.interface_position"
    cls_name, dim, angles = "PerturbedDroplet3D", 3, ("θ", "φ")
    rho = staticmethod(lambda me, angs: radius_of(me) * (1 + PS3(nmodes(me), angs[0], angs[1])))

    def rho_num(self, inputs):
        return inputs["radius"] * (1 + Method3D.ysum(self, inputs, dict(phi="given")))


@register
class PositionAxi(InterfacePosition):
    """The axisymmetric class must place interface points at its own interface distance
    (property: 'interface positions are the centre plus that distance along the given direction')."""
    key = f"{MOD}:PerturbedDroplet3DAxisSym.interface_position"
    cls_name, dim, angles, on_axis = "PerturbedDroplet3DAxisSym", 3, ("θ", "φ"), True
    rho = staticmethod(lambda me, angs: radius_of(me) * (1 + PSA(nmodes(me), angs[0])))

    def call(self, engine, run, fi, a, case):
        # whatever `interface_position` the class resolves to (inherited or its own)
        m = engine.getattr(run, a["self"], "interface_position")
        return engine.invoke(run, m, [a["θ"], a["φ"]], {})

    def rho_num(self, inputs):
        return inputs["radius"] * (1 + MethodAxi.ysum(self, inputs))


class PositionSpherical(InterfacePosition):
    key = f"{MOD}:SphericalDroplet.interface_position"
    cls_name = "SphericalDroplet"
    rho = staticmethod(lambda me, angs: radius_of(me))

    def rho_num(self, inputs):
        return inputs["radius"]

    def mk(self, inputs):
        pos = [fnum(inputs.get(f"pos{j}", 0.0)) for j in range(self.dim)]
        return make_droplet("SphericalDroplet", pos, fnum(inputs.get("radius", 1.0)))


@register
class PositionSpherical2(PositionSpherical):
    variant, dim, angles = "dim2", 2, ("φ",)


@register
class PositionSpherical3(PositionSpherical):
    variant, dim, angles = "dim3", 3, ("θ", "φ")


# --- modular forms of interface_position and the triangulation --------------------------------
def _position_apply(dim, rho):
    def apply(self, engine, run, fi, args, kwargs):
        me = args[0]
        angs = list(args[1:])
        if "φ" in kwargs:
            angs.append(kwargs["φ"])
        if len(angs) < dim - 1:
            angs.append(SCell(z3.RealVal(0), angs[0].space) if isinstance(angs[0], SCell) else z3.RealVal(0))
        if not all(isinstance(x, SCell) for x in angs):
            raise Undecided("interface_position contract is used for array arguments only")
        av = [to_real(x.v) for x in angs]
        u = unit_vector(dim, av)
        r = rho(me, av)
        pos = me.fields["data"].get("position").elems
        run.trust(f"contract:{self.key} (verified separately)")
        return models.SStack([SCell(to_real(pos[j]) + r * u[j], angs[0].space) for j in range(dim)], angs[0].space)
    return apply


Position2D.modular, Position2D.apply = True, _position_apply(2, Position2D.rho)
Position3D.modular, Position3D.apply = True, _position_apply(3, Position3D.rho)
PositionAxi.modular, PositionAxi.apply = True, _position_apply(3, PositionAxi.rho)


@register
class PositionSphericalModular(Contract):
    """call-site form of SphericalDroplet.interface_position (verified by the variants %dim2 / %dim3)"""
    key = f"{MOD}:SphericalDroplet.interface_position"

    def cases(self):
        return []

    def apply(self, engine, run, fi, args, kwargs):
        me = args[0]
        dim = len(me.fields["data"].get("position"))
        if len(args) - 1 != dim - 1:
            raise SymRaise(SExc("ValueError", ("Interfacial position requires dim-1 angles",)))
        if dim not in (2, 3):
            raise SymRaise(SExc("NotImplementedError", ()))
        return _position_apply(dim, PositionSpherical.rho)(self, engine, run, fi, args, kwargs)


def _tri_model(engine):
    """`triangulated_spheres`: stored sphere triangulations (resource file).  Assumed: get_triangulation returns a
    dict with 'angles' (N,2) = (phi, theta) per vertex, 'points' (N,3) and 'cells'.  Nothing is assumed about how the
    stored points relate to the stored angles."""
    from pyvc.values import SNative, SOpaque

    def get_tri(run, a, k):
        run.trust("model: triangulated_spheres.get_triangulation returns stored angles/points/cells (resource file)")
        sp = "tri"
        ph, th = run.fresh_real("tri_phi"), run.fresh_real("tri_theta")
        run.ghost["tri"] = dict(phi=ph, theta=th)
        return {"angles": models.SStack([SCell(ph, sp), SCell(th, sp)], sp),
                "points": models.SStack([SCell(run.fresh_real(f"tri_pt{j}"), sp) for j in range(3)], sp),
                "cells": SOpaque("tri-cells")}
    engine.externals[("glob", MOD, "triangulated_spheres")] = SOpaque("triangulated_spheres", attrs={
        "get_triangulation": SNative(get_tri, "get_triangulation")})


_old_install = models.install


def _install(engine):
    _old_install(engine)
    _tri_model(engine)


models.install = _install


@register
class Triangulation(Contract):
    """Vertices of get_triangulation() lie on the interface: vertex == centre + rho(angles) * e(angles)."""
    key = f"{MOD}:SphericalDroplet.get_triangulation"
    modular = False
    CLS = {"SphericalDroplet": (PositionSpherical.rho, None), "PerturbedDroplet2D": (Position2D.rho, None),
           "PerturbedDroplet3D": (Position3D.rho, None), "PerturbedDroplet3DAxisSym": (PositionAxi.rho, None)}

    def cases(self):
        return [dict(cls="SphericalDroplet", dim=2), dict(cls="SphericalDroplet", dim=3), dict(cls="PerturbedDroplet2D", dim=2),
                dict(cls="PerturbedDroplet3D", dim=3), dict(cls="PerturbedDroplet3DAxisSym", dim=3)]

    def setup(self, run, case):
        d = sym_droplet(run, "self", case["dim"], case["cls"], on_axis=case["cls"].endswith("AxisSym"))
        run.assume(d.fields["data"].get("radius") > 0)
        res = run.input_real("resolution")
        run.assume(res > 0)
        self.run = run
        return dict(self=d, resolution=res)

    def post(self, a, ret, case):
        me, dim = a["self"], case["dim"]
        if not (isinstance(ret, dict) and isinstance(ret.get("vertices"), models.SStack) and len(ret["vertices"].cells) == dim):
            return [("returns a dict with an (N, dim) array 'vertices'", False)]
        if dim == 2:
            lin = self.run.ghost.get("linspace", [])
            lin = [g for g in lin if "lines" in ret]
            if not lin:
                return [("2-D outline angles come from a linspace over [0, 2 pi]", False)]
            angs = [to_real(lin[-1]["cell"].v)]
        else:
            t = self.run.ghost.get("tri")
            if t is None:
                return [("3-D vertices are built from the stored triangulation", False)]
            angs = [t["theta"], t["phi"]]
        rho = self.CLS[case["cls"]][0](me, angs)
        u = unit_vector(dim, angs)
        pos = me.fields["data"].get("position").elems
        return [(f"vertex component {j} == centre[{j}] + rho(angles) * e_{j}(angles)  (vertices lie on the interface)",
                 to_real(val(ret["vertices"].cells[j])) == to_real(pos[j]) + rho * u[j]) for j in range(dim)]

    def bounded_inputs(self, case, tier, seed):
        import random
        rng = random.Random(seed + 9)
        for t in range(4 if tier == "quick" else 40):
            n = 0 if case["cls"] == "SphericalDroplet" else [4, 3, 8, 6][t % 4]
            out = dict(modes=n, radius=[0.7, 1.0, 2.0, 5.0][t % 4], resolution=[0.5, 1.0, 0.3, 2.0][t % 4])
            for j in range(case["dim"]):
                out[f"pos{j}"] = rng.uniform(-2, 2)
            for k in range(n):
                out[f"amp{k}"] = rng.uniform(-0.25, 0.25)
            yield out

    def concrete_run(self, case, inputs):
        import numpy as np
        dim = case["dim"]
        n = int(inputs.get("modes", 0))
        pos = [fnum(inputs.get(f"pos{j}", 0.0)) for j in range(dim)]
        if case["cls"].endswith("AxisSym"):
            pos[0] = pos[1] = 0.0
        if case["cls"] == "SphericalDroplet":
            d = make_droplet("SphericalDroplet", pos, inputs["radius"])
        else:
            d = make_droplet(case["cls"], pos, inputs["radius"], 1.0, np.array([inputs.get(f"amp{k}", 0.0) for k in range(n)]))
        try:
            tri = d.get_triangulation(inputs.get("resolution", 1.0))
        except Exception as e:   # noqa: BLE001
            return dict(violated=[f"unexpected exception {type(e).__name__}: {e}"], inputs=inputs)
        v = np.asarray(tri["vertices"]) - np.asarray(pos)
        r = np.linalg.norm(v, axis=1)
        if dim == 2:
            ang = [np.arctan2(v[:, 1], v[:, 0])]
        else:
            ang = [np.arccos(np.clip(v[:, 2] / r, -1, 1)), np.arctan2(v[:, 1], v[:, 0])]
        if case["cls"] == "SphericalDroplet":
            rho = np.full(len(v), d.radius)
        elif case["cls"].endswith("AxisSym"):
            rho = d.interface_distance(ang[0])
        else:
            rho = d.interface_distance(*ang)
        ok = np.allclose(r, rho, rtol=1e-7, atol=1e-9)
        return dict(violated=[] if ok else ["triangulation vertices lie on the interface"],
                    observed=f"max |r - rho| = {float(np.max(np.abs(r - rho))):.3g}", inputs=inputs)
