"""C10: Emulsion.get_neighbor_distances under contract, against an ASSUMED contract of the k-d tree query.

Arrays over the members are represented row-wise: `_MCol(fn)` is a 1-d array whose entry at member index j is fn(j) (so fancy indexing with an
index column is fn o index); the contract is stated at one Skolem row i.

ASSUMED (scipy.spatial.cKDTree(P).query(P, 2)) for n >= 2 points: row i of `index` holds two DIFFERENT point indices in range, row i of `dist`
their Euclidean distances to point i in ascending order, and no other point is closer to point i than the second one.  (Point i itself is at
distance 0, so it is among the two unless other points coincide with it - the case the library has to handle.)"""
from __future__ import annotations

import ast

import z3

from pyvc import heap as H, models, ops
from pyvc.contract import Contract, register
from pyvc.values import SMaybeNaN, SNative, Undecided, const_of, to_real, to_z3

from .collections import CLASSES, EM, I, Rl, frame_old_records, layout_of, snapshot, sym_em, touch_layout
from .emulsions import CD, EmView, sd_definitions


class _MCol:
    """1-d array over the members: entry j is fn(j)"""

    def __init__(self, fn, kind="real"):
        self.fn, self.kind = fn, kind

    def sym_binop(self, run, op, other, reflected):
        if isinstance(other, _MCol):
            f = (lambda j: ops.binop(run, op, other.fn(j), self.fn(j))) if reflected else (lambda j: ops.binop(run, op, self.fn(j), other.fn(j)))
        else:
            f = (lambda j: ops.binop(run, op, other, self.fn(j))) if reflected else (lambda j: ops.binop(run, op, self.fn(j), other))
        return _MCol(f, self.kind)

    def sym_compare(self, run, op, other, reflected):
        if isinstance(other, _MCol) and isinstance(op, (ast.Eq, ast.NotEq)):
            e = lambda j: to_z3(self.fn(j)) == to_z3(other.fn(j))       # noqa: E731
            return _MCol(e if isinstance(op, ast.Eq) else (lambda j: z3.Not(e(j))), "bool")
        return NotImplemented

    def sym_getitem(self, run, idx):
        if isinstance(idx, _MCol) and idx.kind == "int":
            g = run.ghost["nn"]
            run.oblige("fancy index into a per-member array is a member index", z3.And(to_z3(idx.fn(g["row"])) >= 0, to_z3(idx.fn(g["row"])) < g["n"]), kind="implicit")
            return _MCol(lambda j: self.fn(idx.fn(j)), self.kind)
        raise Undecided("indexing a per-member array")


class _M2:
    """n x 2 array over the members: [:, c] is a column"""

    def __init__(self, cols):
        self.cols = cols

    def sym_getitem(self, run, idx):
        if isinstance(idx, tuple) and len(idx) == 2 and idx[0] == slice(None) and const_of(idx[1]) in (0, 1):
            return self.cols[int(const_of(idx[1]))]
        raise Undecided("indexing the k-d tree result")


@register
class NeighborDistances(Contract):
    """Emulsion.get_neighbor_distances: entry i is the centre distance from droplet i to a nearest OTHER droplet (the row minimum of the Euclidean
    centre-distance matrix without its diagonal); with subtract_radius the radius of droplet i and of that neighbour are subtracted.  0 droplets:
    empty vector; 1 droplet: one not-a-number entry."""
    key = f"{EM}:Emulsion.get_neighbor_distances"
    variant = "function"
    modular = False

    def cases(self):
        return [dict(cls="SphericalDroplet", dim=d, sub=s_, size=z) for d in (1, 2, 3) for s_ in (False, True) for z in ("many",)] + \
               [dict(cls="SphericalDroplet", dim=2, sub=True, size=z) for z in ("none", "one")]

    def setup(self, run, case):
        lay = layout_of(case["cls"], case["dim"])
        touch_layout(run, lay)
        em = sym_em(run, "self", case["dim"], case["cls"])
        n = to_z3(em.length)
        run.assume({"many": n >= 2, "one": n == 1, "none": n == 0}[case["size"]])
        view = EmView(run, case["dim"], case["cls"], em.elems)
        row = run.input_int("row")
        if case["size"] != "none":
            run.assume(z3.And(row >= 0, row < n))
        cd = CD(None)
        ref = lambda j: view.ref(j)         # noqa: E731
        IDX0, IDX1 = z3.Function("kd_index0", I, I), z3.Function("kd_index1", I, I)
        g = run.ghost["nn"] = dict(row=row, n=n, trees=[], queries=[])
        # the metric stays abstract (CD over object references); its axioms and the assumed query contract are INSTANTIATED at the Skolem row and at
        # the Skolem other droplet of the goal - quantifier-free hypotheses, so that a broken body gives a counter-model instead of `unknown`
        jsk = self.jsk = z3.Int("sk_other")

        class Data:
            def sym_getitem(self_, run2, k):
                if k == "position":
                    return _MCol(lambda j: ref(j), "position")
                if k == "radius":
                    return _MCol(lambda j: view.radius(j), "real")
                raise Undecided(f"data[{k!r}]")

            def sym_compare(self_, run2, op, other, reflected):
                if other is None:
                    return isinstance(op, ast.IsNot)
                return NotImplemented

        data = Data()
        em.fields["data"] = data

        def kdtree(engine, run2, a, k):
            if len(a) != 1 or k or not (isinstance(a[0], _MCol) and a[0].kind == "position"):
                raise Undecided("k-d tree of something else than the droplet positions")
            t = type("Tree", (), {})()
            g["trees"].append(t)

            def query(run3, qa, qk):
                ok = len(qa) == 2 and isinstance(qa[0], _MCol) and qa[0].kind == "position" and const_of(qa[1]) == 2 and not qk
                run3.oblige("the tree of the positions is queried with the positions themselves for the 2 nearest points", z3.BoolVal(bool(ok)), kind="requires", assume_after=False)
                if not ok:
                    raise Undecided("k-d tree query")
                run3.oblige("requires of the k-d tree query for 2 neighbours: at least two points", n >= 2, kind="requires")
                inr = lambda x: z3.And(x >= 0, x < n)      # noqa: E731
                d0, d1 = cd(ref(row), ref(IDX0(row))), cd(ref(row), ref(IDX1(row)))
                run3.define(z3.And(inr(IDX0(row)), inr(IDX1(row)), IDX0(row) != IDX1(row), d0 <= d1, d0 >= 0, cd(ref(row), ref(row)) == 0),
                            "ASSUMED (cKDTree.query(P, 2)) at row i: two different points, distances ascending; metric axioms at row i")
                for a_ in (row, jsk):
                    run3.define(z3.Implies(z3.And(inr(a_), a_ != IDX0(row), a_ != IDX1(row)), d1 <= cd(ref(row), ref(a_))),
                                "ASSUMED (cKDTree.query(P, 2)) at row i: no other point is closer than the second one")
                run3.trust("ASSUMED contract of scipy.spatial.cKDTree(P).query(P, 2) as stated in contracts/neighbors.py (validated by the exhaustive lattice stand-in incl. coincident centres)")
                g["queries"].append(1)
                dist = _M2([_MCol(lambda q: cd(ref(q), ref(IDX0(q)))), _MCol(lambda q: cd(ref(q), ref(IDX1(q))))])
                index = _M2([_MCol(lambda q: IDX0(q), "int"), _MCol(lambda q: IDX1(q), "int")])
                return (dist, index)
            t.sym_getattr = lambda run3, attr: SNative(query, "KDTree.query") if attr == "query" else __import__("pyvc.engine", fromlist=["_MISSING"])._MISSING
            return t
        for nm in ("scipy.spatial.cKDTree", "scipy.spatial.KDTree", "scipy.spatial._ckdtree.cKDTree"):
            models.EXTERNALS[nm] = kdtree

        def arange(engine, run2, a, k):
            if len(a) == 1 and not k and z3.is_expr(to_z3(a[0])) and z3.eq(z3.simplify(to_z3(a[0])), z3.simplify(n)):
                return _MCol(lambda q: to_z3(q), "int")
            raise Undecided("np.arange of something else than the number of droplets")
        models.EXTERNALS["numpy.arange"] = arange

        def where(engine, run2, a, k):
            if len(a) == 3 and all(isinstance(x, _MCol) for x in a) and a[0].kind == "bool":
                return _MCol(lambda q: z3.If(to_z3(a[0].fn(q)), to_z3(a[1].fn(q)), to_z3(a[2].fn(q))), a[1].kind)
            raise Undecided("np.where of these operands")
        models.EXTERNALS["numpy.where"] = where
        self.ctx = (run, em, view, row, n, cd, ref, snapshot(run), lay)
        return dict(self=em, subtract_radius=case["sub"])

    def post(self, a, ret, case):
        run, em, view, row, n, cd, ref, arrs0, lay = self.ctx
        if case["size"] != "many":
            return [("fewer than two droplets: an empty vector / one not-a-number entry, no neighbour search", not run.ghost["nn"]["trees"])]
        if not isinstance(ret, _MCol):
            return [("the result is a vector with one entry per droplet", False)]
        v = to_real(ret.fn(row))
        j = self.jsk
        IDX0, IDX1 = z3.Function("kd_index0", I, I), z3.Function("kd_index1", I, I)
        w = z3.If(IDX0(row) == row, IDX1(row), IDX0(row))         # witness: a nearest other droplet
        inr = lambda x: z3.And(x >= 0, x < n)      # noqa: E731
        nearest = z3.And(inr(w), w != row, z3.Implies(z3.And(inr(j), j != row), cd(ref(row), ref(w)) <= cd(ref(row), ref(j))))
        out = []
        if not case["sub"]:
            out.append(("entry i is the centre distance to a nearest OTHER droplet: not larger than the distance to any other droplet and attained by one "
                        "(= the row minimum of the centre-distance matrix without its diagonal)", z3.And(nearest, v == cd(ref(row), ref(w)))))
        else:
            out.append(("entry i is the centre distance to a nearest OTHER droplet w minus the radius of droplet i and the radius of w",
                        z3.And(nearest, v == cd(ref(row), ref(w)) - view.radius(row) - view.radius(w))))
        out.append(("no droplet is modified", frame_old_records(run, arrs0, lay)))
        return out
