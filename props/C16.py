"""C16 -- the structure factor is a normalised, symmetry-invariant power spectrum."""
from contracts import structure as sfc
from pyvc.bounded import ContractSampling

LEVEL = "other"
LEVEL_TEXT = ("get_structure_factor is verified (whole body, dimensions 1-3, every combination of smoothing none/0/'none'/'auto'/number, wave numbers "
              "auto/None/given, add_zero) against an element-wise contract at one arbitrary Fourier mode (i0, i1, ...) != 0: the returned wave "
              "number is |k| with k_a = 2 pi fftfreq(n_a)[i_a] / dx_a of THE SAME mode as the returned value S = |F(mode)|^2 / sum f^2 (alignment of "
              "the flattened arrays in C order, zero mode dropped on both sides, no other factor or offset), S >= 0, the transform is called once "
              "with norm='ortho'; smoothed variant: the smoother is built from exactly these arrays with width max|k|/128 or the given number, "
              "requested wave numbers are returned verbatim, automatic ones are 128 equidistant points from 2/(largest box length) to max|k|; "
              "add_zero prepends exactly (0, 1); unsupported requests raise the documented errors. From this contract z3 lemmas give the Parseval "
              "sum 1 - (sum f)^2/(N sum f^2), invariance under a non-zero constant factor, and wave numbers scaling inversely with the grid size. "
              "The discrete Fourier transform itself (Parseval, zero mode, linearity, shift/reflection/permutation symmetries) and fftfreq are "
              "ASSUMED contracts of numpy, validated by the bounded stand-in against a brute-force DFT - hence level 'other'.")
LEVEL_NOTE = ("ASSUMED: numpy fftn(norm='ortho') facts (Parseval, F_0, linearity, symmetry of |F| under whole-cell translation / reflection / axis "
              "permutation), fftfreq formula, reduce(np.add.outer) index convention, x.flat in C order, SmoothData1D is a function of (x, y, sigma), "
              "np.r_, np.linspace, ndarray.max; A-FP; precondition: the field is not identically zero")
CONTRACTS = [sfc.StructureFactor().ident]
LEMMAS = ["structure-factor-normalisation-and-invariances"]
CLAUSES = {"non-negative": "proved", "sums to 1 - squared-mean fraction": "proved from the element-wise contract + assumed Parseval (lemma)",
           "invariant under a constant factor": "proved (lemma) modulo linearity of the DFT",
           "invariant under whole-cell translation / reflection / axis permutation": "assumed DFT symmetries; every sampled field is compared with a brute-force DFT (bounded)",
           "wave numbers are the grid's discrete Fourier wave numbers, inverse to the grid size": "proved modulo the assumed fftfreq formula",
           "smoothed variant returns the requested wave numbers; add_zero prepends (0, 1)": "proved"}
BOUNDED = [ContractSampling("structure-factor-vs-brute-force-dft", CONTRACTS,
                            "6 (quick) / 40 (thorough) random fields per case (30 cases): dimensions 1-3, even/odd and unequal shapes, anisotropic spacings "
                            "0.05..10, shifted origins, factors 1e-9..1e6 and negative, offsets; every returned entry is compared with an O(N^2) "
                            "brute-force DFT of the definition (which has all the stated symmetries), wave numbers with the fftfreq formula, the "
                            "smoothed variant with a smoother built from the brute-force spectrum")]
