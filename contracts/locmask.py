"""C01 / C02 / C09: locating droplets in binary images (droplets/image_analysis.py:_locate_droplets_in_mask_*).

Concrete side first: independent oracles (periodic flood fill with unwrapping, digital balls) used by the bounded stand-ins and by the
replay of counter-models; the symbolic contracts follow below."""
from __future__ import annotations

import itertools
import math


# =====================================================================================================================
# independent oracle: connected components of a binary image under face connectivity + periodic boundaries, with unwrapping
def components(mask, periodic):
    """-> list of dict(cells=[index tuples], unwrapped=[integer coordinates, continuous across periodic boundaries], winding=bool)"""
    import numpy as np
    shape = mask.shape
    dim = mask.ndim
    seen = np.zeros(shape, dtype=bool)
    out = []
    for start in zip(*np.nonzero(mask)):
        if seen[start]:
            continue
        off = {start: tuple(0 for _ in range(dim))}       # period offsets
        seen[start] = True
        stack = [start]
        winding = False
        while stack:
            c = stack.pop()
            for a in range(dim):
                for s in (-1, 1):
                    n = list(c)
                    o = list(off[c])
                    n[a] += s
                    if n[a] < 0 or n[a] >= shape[a]:
                        if not periodic[a]:
                            continue
                        o[a] += -1 if n[a] < 0 else 1
                        n[a] %= shape[a]
                    n, o = tuple(n), tuple(o)
                    if not mask[n]:
                        continue
                    if n in off:
                        if off[n] != o:
                            winding = True
                        continue
                    off[n] = o
                    seen[n] = True
                    stack.append(n)
        cells = sorted(off)
        out.append(dict(cells=cells, unwrapped=[tuple(c[a] + off[c][a] * shape[a] for a in range(dim)) for c in cells], winding=winding))
    return out


def wrap_diff(a, b, period):
    d = (a - b) % period
    return min(d, period - d)


def grid_info(grid):
    import numpy as np
    lo = np.array([b[0] for b in grid.axes_bounds], dtype=float)
    hi = np.array([b[1] for b in grid.axes_bounds], dtype=float)
    return lo, hi, np.array(grid.discretization, dtype=float), list(grid.periodic)


def volume_to_radius(v, dim):
    if dim == 1:
        return v / 2
    if dim == 2:
        return math.sqrt(v / math.pi)
    return (3 * v / (4 * math.pi)) ** (1 / 3)


def check_cartesian(grid, mask, emulsion, tol=1e-9):
    """clauses of C02 on a Cartesian grid; returns list of violated clause names"""
    import numpy as np
    lo, hi, dx, per = grid_info(grid)
    dim = grid.dim
    cv = float(np.prod(dx))
    comps = components(mask, per)
    exp = []
    for c in comps:
        vol = len(c["cells"]) * cv
        pos = None
        if not c["winding"]:
            pos = lo + (np.mean(np.array(c["unwrapped"], dtype=float), axis=0) + 0.5) * dx
        exp.append(dict(volume=vol, radius=volume_to_radius(vol, dim), pos=pos, winding=c["winding"], ncells=len(c["cells"])))
    bad = []
    size = hi - lo

    def pdist(p, q):
        d = np.abs(np.asarray(p) - np.asarray(q))
        for a in range(dim):
            if per[a]:
                d[a] = wrap_diff(p[a], q[a], size[a])
        return float(np.linalg.norm(d))
    # one-to-one matching of returned droplets to components
    used = set()
    scale = float(np.max(size))
    for d in emulsion:
        best = None
        for k, e in enumerate(exp):
            if k in used or abs(e["volume"] - d.volume) > tol * max(1.0, e["volume"]):
                continue
            if e["pos"] is not None and pdist(e["pos"], d.position) > tol * scale * 10:
                continue
            best = k
            break
        if best is None:
            # distinguish the failing clause
            if any(abs(e["volume"] - d.volume) <= tol * max(1.0, e["volume"]) for k, e in enumerate(exp) if k not in used):
                bad.append("the position of a droplet is the centre of mass of its unwrapped (non-winding) component, modulo the period")
            else:
                bad.append("every droplet corresponds to a distinct connected component with that component's total cell volume")
        else:
            used.add(best)
        if any(per[a] and not (lo[a] - tol * scale <= d.position[a] <= hi[a] + tol * scale) for a in range(dim)) or not np.all(np.isfinite(d.position)):
            bad.append("along periodic axes the reported position lies inside the grid bounds")
    # returned droplets never overlap
    ds = list(emulsion)
    for i in range(len(ds)):
        for j in range(i + 1, len(ds)):
            if pdist(ds[i].position, ds[j].position) < (ds[i].radius + ds[j].radius) * (1 - 1e-9):
                bad.append("returned droplets never overlap as equal-volume spheres under the periodic metric")
    # a component is left out only if its sphere overlapped another one at least as large
    for k, e in enumerate(exp):
        if k in used:
            continue
        if e["pos"] is None:
            continue        # winding component: its position is not specified, so neither is its overlap
        ok = False
        for k2, e2 in enumerate(exp):
            if k2 == k or e2["volume"] < e["volume"] * (1 - 1e-12):
                continue
            if e2["pos"] is None or pdist(e["pos"], e2["pos"]) < (e["radius"] + e2["radius"]) * (1 + 1e-9):
                ok = True
                break
        if not ok:
            bad.append("a component is left out only if its sphere overlapped that of another component at least as large")
    return sorted(set(bad)), dict(components=len(exp), droplets=len(ds))


def check_cylindrical(grid, mask, emulsion, tol=1e-9):
    """C02 on a cylindrical grid: components touching the axis (r-index 0), cell-volume weighted; periodic z by unwrapping.
    Returns (violated clauses, observations).  Clauses found on an image that contains an on-axis component which is longer than one period
    of a periodic z-axis (unwrapped) or winds around it are prefixed `periodic-cylinder-spanning-fallback:` - the library then analyses the
    whole image without periodicity (see known_findings.jsonl)."""
    import numpy as np
    (r0, r1), (z0, z1) = grid.axes_bounds
    nr, nz = grid.shape
    dr, dz = grid.discretization
    per_z = bool(grid.periodic[1])
    comps = components(mask, [False, per_z])
    vol_r, _ = grid.cell_volume_data
    vol_r = np.broadcast_to(np.asarray(vol_r).reshape(-1), (nr,)) if np.ndim(vol_r) else np.full(nr, float(vol_r))
    exp = []
    spanning = False
    for c in comps:
        if not any(cell[0] == 0 for cell in c["cells"]):
            continue
        w = np.array([vol_r[cell[0]] * dz for cell in c["cells"]])
        zu = np.array([u[1] for u in c["unwrapped"]], dtype=float)
        if per_z and (c["winding"] or zu.max() - zu.min() + 1 > nz):
            spanning = True
        zc = z0 + (zu + 0.5) * dz
        exp.append(dict(winding=c["winding"], volume=float(w.sum()), z_unweighted=float(zc.mean()), z_weighted=float((w * zc).sum() / w.sum()),
                        radius=volume_to_radius(float(w.sum()), 3)))
    bad = []
    Lz = z1 - z0
    used = set()

    def zdist(a, b):
        return wrap_diff(a, b, Lz) if per_z else abs(a - b)
    for d in emulsion:
        if abs(d.position[0]) > tol or abs(d.position[1]) > tol:
            bad.append("droplets on a cylindrical grid lie on the symmetry axis")
        best = None
        for k, e in enumerate(exp):
            if k in used or abs(e["volume"] - d.volume) > tol * max(1.0, e["volume"]):
                continue
            # "centre of mass" of the component: the mean z of its cell centres, plain or weighted by the cell volumes - both are accepted;
            # the position of a winding component is not specified
            if not e["winding"] and min(zdist(d.position[2], e[kk]) for kk in ("z_unweighted", "z_weighted")) > tol * 10 * max(1.0, Lz):
                continue
            best = k
            break
        if best is None:
            bad.append("every droplet corresponds to a distinct on-axis component: volume = total cell volume, z = mean z of its cell centres")
        else:
            used.add(best)
        if per_z and not (z0 - tol <= d.position[2] <= z1 + tol):
            bad.append("along the periodic axis the reported position lies inside the grid bounds")
    if not exp and len(emulsion) != 0:
        bad.append("an image without a component on the symmetry axis yields an empty emulsion")
    ds = list(emulsion)
    for i in range(len(ds)):
        for j in range(i + 1, len(ds)):
            if zdist(ds[i].position[2], ds[j].position[2]) < (ds[i].radius + ds[j].radius) * (1 - 1e-9):
                if abs(ds[i].position[2] - ds[j].position[2]) >= (ds[i].radius + ds[j].radius) * (1 - 1e-9):
                    # overlap only through the periodic boundary: the library filters with the Euclidean metric here (known finding)
                    bad.append("periodic-cylinder-overlap-across-boundary: returned droplets never overlap as equal-volume spheres under the periodic metric")
                else:
                    bad.append("returned droplets never overlap as equal-volume spheres under the periodic metric")
    for k, e in enumerate(exp):
        if k in used or e["winding"]:
            continue
        ok = any(k2 != k and (e2["winding"] or (e2["volume"] >= e["volume"] * (1 - 1e-12) and
                                                 zdist(e["z_unweighted"], e2["z_unweighted"]) < (e["radius"] + e2["radius"]) * (1 + 1e-9)))
                 for k2, e2 in enumerate(exp))
        if not ok:
            bad.append("an on-axis component is left out only if its sphere overlapped that of another one at least as large")
    if spanning:
        bad = ["periodic-cylinder-spanning-fallback: " + b_.replace("periodic-cylinder-overlap-across-boundary: ", "") for b_ in bad]
    return sorted(set(bad)), dict(components=len(exp), droplets=len(ds), spanning=spanning)


# =====================================================================================================================
from pyvc.bounded import Bounded   # noqa: E402


def make_cartesian(shape, periodic, variant=0):
    import pde
    dxs = [[1.0, 1.0, 1.0], [0.5, 2.0, 1.25], [0.1, 0.3, 7.0]][variant % 3]
    los = [[0.0, 0.0, 0.0], [-3.0, 2.5, 10.0], [1e3, -1e-3, 0.5]][variant % 3]
    return pde.CartesianGrid([(l, l + n * d) for l, n, d in zip(los, shape, dxs)], list(shape), periodic=list(periodic))


class ImageEnumeration(Bounded):
    name = "components-vs-periodic-flood-fill"
    bound = ("locate_droplets_in_mask against an independent periodic flood-fill oracle (unwrapped components, winding detection): "
             "EXHAUSTIVE: all binary images on 1-d grids of 1..8 cells, on 3x3 (quick) and additionally 4x4, 3x4, 2x2x2 and 3x2x2 (thorough) grids, "
             "for every periodicity mask, three spacing/origin variants in rotation; cylindrical grids: all images on 3x3 (quick) / 3x4, 4x3 "
             "(thorough), periodic and non-periodic z; RANDOM: 600 / 6000 images up to 12x10x6 incl. noise, stripes, rings, multi-piece components "
             "meeting periodic boundaries in several places")

    def run(self, tier, seed):
        import numpy as np
        import pde
        from droplets.image_analysis import locate_droplets_in_mask
        rng = np.random.default_rng(seed + 2)
        ev, distinct, viol = 0, set(), {}

        def one(grid, img, label):
            nonlocal ev
            ev += 1
            m = pde.ScalarField(grid, img.astype(bool), dtype=bool)
            try:
                em = locate_droplets_in_mask(m)
            except Exception as e:   # noqa: BLE001
                viol.setdefault("raises", dict(signature=f"raises:{type(e).__name__}", what=f"locate_droplets_in_mask raises {type(e).__name__}: {e}",
                                               inputs=dict(label=label, shape=list(img.shape), image=img.astype(int).tolist(),
                                                           periodic=[bool(x) for x in grid.periodic], bounds=[list(map(float, b)) for b in grid.axes_bounds])))
                return
            if isinstance(grid, pde.CylindricalSymGrid):
                bad, obs = check_cylindrical(grid, img.astype(bool), em)
            else:
                bad, obs = check_cartesian(grid, img.astype(bool), em)
            for b in bad:
                viol.setdefault(b, dict(signature=b, what=b, inputs=dict(label=label, shape=list(img.shape), image=img.astype(int).tolist(),
                                                                         periodic=[bool(x) for x in grid.periodic],
                                                                         bounds=[list(map(float, bb)) for bb in grid.axes_bounds]), native=obs))

        def exhaustive(shape, cyl=False):
            n = int(np.prod(shape))
            masks = list(itertools.product([False, True], repeat=len(shape))) if not cyl else [(False,), (True,)]
            for pi, per in enumerate(masks):
                grid = make_cartesian(shape, per, pi + len(shape)) if not cyl else pde.CylindricalSymGrid(
                    shape[0] * [1.0, 0.5][pi % 2], ([0.0, -2.0][pi % 2], [0.0, -2.0][pi % 2] + shape[1] * [1.0, 0.25][pi % 2]), list(shape), periodic_z=per[0])
                for bits in range(2 ** n):
                    img = np.array([(bits >> k) & 1 for k in range(n)], dtype=bool).reshape(shape)
                    distinct.add((shape, per, bits, cyl))
                    one(grid, img, f"exhaustive {shape} periodic={per} cyl={cyl} bits={bits}")

        for n in range(1, 9):
            exhaustive((n,))
        exhaustive((3, 3))
        exhaustive((3, 3), cyl=True)
        if tier == "thorough":
            for shp in ((4, 4), (3, 4), (2, 2, 2), (3, 2, 2)):
                exhaustive(shp)
            exhaustive((3, 4), cyl=True)
            exhaustive((4, 3), cyl=True)
        for t in range(600 if tier == "quick" else 6000):
            dim = 1 + t % 3
            shape = tuple(int(x) for x in rng.integers(2, [24, 12, 7][dim - 1], size=dim))
            per = tuple(bool(x) for x in rng.integers(0, 2, size=dim))
            kind = t % 5
            if kind == 0:
                img = rng.random(shape) < rng.choice([0.15, 0.35, 0.5, 0.7])
            elif kind == 1:     # stripes / slabs meeting periodic boundaries
                img = np.zeros(shape, dtype=bool)
                a = int(rng.integers(0, dim))
                idx = [slice(None)] * dim
                for s in rng.integers(0, shape[a], size=2):
                    idx[a] = int(s)
                    img[tuple(idx)] = True
                img ^= rng.random(shape) < 0.05
            elif kind == 2:     # blobs that straddle boundaries
                img = np.zeros(shape, dtype=bool)
                cc = np.indices(shape)
                for _ in range(int(rng.integers(1, 4))):
                    c = [rng.uniform(-1, n + 1) for n in shape]
                    r = rng.uniform(0.8, 3.0)
                    d2 = sum(np.minimum(np.abs(cc[a] + 0.5 - c[a]), shape[a] - np.abs(cc[a] + 0.5 - c[a]) if per[a] else np.inf) ** 2 for a in range(dim))
                    img |= d2 < r * r
            elif kind == 3:     # multi-piece components: pieces on both sides of a periodic boundary
                img = np.zeros(shape, dtype=bool)
                idx0 = [slice(None)] * dim
                idx0[0] = shape[0] - 1
                img[tuple(idx0)] = rng.random(img[tuple(idx0)].shape) < 0.8
                idx1 = [slice(None)] * dim
                idx1[0] = slice(0, min(2, shape[0]))
                img[tuple(idx1)] = rng.random(img[tuple(idx1)].shape) < 0.4
            else:
                img = (rng.random(shape) < 0.5) & (rng.random(shape) < 0.6)
            distinct.add(("rnd", t, seed))
            one(make_cartesian(shape, per, t), img, f"random t={t} seed={seed}")
            if dim == 2 and t % 2 == 0:
                g = pde.CylindricalSymGrid(shape[0] * 0.5, (-1.0, -1.0 + shape[1] * 0.75), list(shape), periodic_z=per[1])
                one(g, img, f"random cylindrical t={t} seed={seed}")
        return dict(evaluations=ev, distinct=len(distinct), violations=list(viol.values()))

    def replay(self, rec):
        import numpy as np
        import pde
        from droplets.image_analysis import locate_droplets_in_mask
        inp = rec["inputs"]
        img = np.array(inp["image"], dtype=bool)
        if "cyl" in inp["label"]:
            (r0, r1), (z0, z1) = inp["bounds"]
            grid = pde.CylindricalSymGrid(r1, (z0, z1), list(img.shape), periodic_z=inp["periodic"][1])
        else:
            grid = pde.CartesianGrid(inp["bounds"], list(img.shape), periodic=inp["periodic"])
        try:
            em = locate_droplets_in_mask(pde.ScalarField(grid, img, dtype=bool))
        except Exception as e:   # noqa: BLE001
            return dict(violated=[f"raises {type(e).__name__}"], observed=str(e))
        bad, obs = (check_cylindrical if isinstance(grid, pde.CylindricalSymGrid) else check_cartesian)(grid, img, em)
        return dict(violated=bad, observed=obs)


# =====================================================================================================================
# C01: render -> locate (no refinement) on the four grid families
def covered_cells_cartesian(grid, centre, radius):
    """indices of the cells whose centres the ball covers (periodic metric along periodic axes), computed independently of the library"""
    import numpy as np
    lo, hi, dx, per = grid_info(grid)
    size = hi - lo
    axes = [lo[a] + (np.arange(grid.shape[a]) + 0.5) * dx[a] for a in range(grid.dim)]
    d2 = np.zeros(grid.shape)
    for a in range(grid.dim):
        d = np.abs(axes[a] - centre[a])
        if per[a]:
            d = np.abs((axes[a] - centre[a] + size[a] / 2) % size[a] - size[a] / 2)
        sl = [None] * grid.dim
        sl[a] = slice(None)
        d2 = d2 + (d ** 2)[tuple(sl)]
    return d2 < radius ** 2, d2


class RenderLocate(Bounded):
    name = "render-then-locate"
    bound = ("rendered sharp SphericalDroplets located without refinement: Cartesian grids in 1-3 dimensions (all periodicity masks, "
             "anisotropic spacing 0.25..3, shifted origins, 1-4 droplets, centres up to 3 periods outside the box on periodic axes and "
             "straddling periodic boundaries), polar / spherical grids (centred droplets), cylindrical grids (1-2 on-axis droplets, periodic and "
             "non-periodic z, straddling); preconditions generated: radius >= 2 spacings and < (period/2 - 1 spacing), surfaces at least "
             "3*sqrt(d) spacings apart, fully inside along non-periodic axes; 1500 (quick) / 20000 (thorough) seeded configurations (those for which no admissible placement was found are skipped and not counted); checked: "
             "count, volume == total volume of the covered cells (independent periodic distance computation, knife-edge cells within 1e-9 "
             "of the surface skipped), centre within half a spacing per axis under the periodic metric, radius within half a radial "
             "spacing on radially symmetric grids, positions inside the bounds on periodic axes")

    def run(self, tier, seed):
        import numpy as np
        import pde
        from droplets import Emulsion, SphericalDroplet, locate_droplets
        rng = np.random.default_rng(seed + 1)
        ev, distinct, viol = 0, set(), {}
        n_conf = 1500 if tier == "quick" else 20000

        def report(sig, inputs, native=None):
            viol.setdefault(sig, dict(signature=sig, what=sig, inputs=inputs, native=native))

        for t in range(n_conf):
            fam = ["cartesian", "cartesian", "cartesian", "polar", "spherical", "cylindrical"][t % 6]
            inputs = dict(t=t, seed=seed, family=fam)
            try:
                if fam == "cartesian":
                    dim = 1 + (t // 6) % 3
                    dx = rng.choice([0.25, 0.5, 1.0, 1.5, 3.0], size=dim)
                    per = rng.integers(0, 2, size=dim).astype(bool)
                    shape = rng.integers([20, 14, 10][dim - 1], [60, 28, 16][dim - 1], size=dim)
                    lo = rng.choice([-7.3, 0.0, 2.5, 100.0], size=dim)
                    grid = pde.CartesianGrid([(l, l + n * d) for l, n, d in zip(lo, shape, dx)], [int(n) for n in shape], periodic=[bool(p) for p in per])
                    size = shape * dx
                    h = float(dx.max())
                    gap = 3 * math.sqrt(dim) * h
                    rmax = min(float(np.min(size)) / 2 - 1.5 * h, 8 * h)
                    drops = []
                    for _ in range(int(rng.integers(1, 5))):
                        for _try in range(60):
                            if rmax <= 2 * h:
                                break
                            r = float(rng.uniform(2 * h, rmax))
                            c = np.array([rng.uniform(lo[a], lo[a] + size[a]) if per[a] else rng.uniform(lo[a] + r + h, lo[a] + size[a] - r - h)
                                          if size[a] - 2 * r - 2 * h > 0 else np.nan for a in range(dim)])
                            if np.any(np.isnan(c)):
                                continue

                            def pd(p, q):
                                d = np.abs(p - q)
                                for a in range(dim):
                                    if per[a]:
                                        d[a] = wrap_diff(p[a], q[a], size[a])
                                return float(np.linalg.norm(d))
                            if all(pd(c, c2) > r + r2 + gap for c2, r2 in drops):
                                drops.append((c, r))
                                break
                    if not drops:
                        continue
                    # centres may be given any number of periods outside the box
                    given = [(c + np.where(per, rng.integers(-3, 4, size=dim), 0) * size, r) for c, r in drops]
                    field = Emulsion([SphericalDroplet(c, r) for c, r in given]).get_phasefield(grid)
                    inputs.update(bounds=[list(map(float, b)) for b in grid.axes_bounds], shape=[int(n) for n in shape], periodic=[bool(p) for p in per],
                                  droplets=[(list(map(float, c)), float(r)) for c, r in given])
                    em = locate_droplets(field, threshold=0.5)
                    ev += 1
                    distinct.add((t, seed, fam))
                    if len(em) != len(drops):
                        report("exactly one droplet is returned per original", inputs, dict(found=len(em), expected=len(drops)))
                        continue
                    cv = float(np.prod(dx))
                    for c, r in drops:
                        cov, d2 = covered_cells_cartesian(grid, c, r)
                        if np.any(np.abs(np.sqrt(d2) - r) < 1e-9 * (1 + r)):
                            continue          # knife-edge cell: rounding decides whether it is covered
                        best = min(em, key=lambda d: sum(wrap_diff(d.position[a], c[a], size[a]) ** 2 if per[a] else (d.position[a] - c[a]) ** 2 for a in range(dim)))
                        if abs(best.volume - cov.sum() * cv) > 1e-9 * cov.sum() * cv:
                            report("the volume equals the total volume of the cells whose centres the original covers", inputs,
                                   dict(volume=float(best.volume), cells=int(cov.sum()), cell_volume=cv))
                        for a in range(dim):
                            dev = wrap_diff(best.position[a], c[a], size[a]) if per[a] else abs(best.position[a] - c[a])
                            if dev > dx[a] / 2 * (1 + 1e-9):
                                report("the centre lies within half a grid spacing per axis of the original centre (periodic metric)", inputs,
                                       dict(axis=a, deviation=float(dev), spacing=float(dx[a]), found=list(map(float, best.position)), original=list(map(float, c))))
                            if per[a] and not (lo[a] - 1e-9 <= best.position[a] <= lo[a] + size[a] + 1e-9):
                                report("along periodic axes the reported position lies inside the grid bounds", inputs, dict(position=list(map(float, best.position))))
                elif fam in ("polar", "spherical"):
                    n = int(rng.integers(8, 40))
                    rad = float(rng.choice([4.0, 10.0, 25.0]))
                    grid = pde.PolarSymGrid(rad, n) if fam == "polar" else pde.SphericalSymGrid(rad, n)
                    dr = rad / n
                    r = float(rng.uniform(2 * dr, rad - 2 * dr))
                    k = (r / dr) % 1
                    if min(abs(k - 0.5), 1) < 1e-6:
                        continue
                    field = SphericalDroplet(np.zeros(grid.dim), r).get_phase_field(grid)
                    inputs.update(radius=r, outer=rad, cells=n)
                    em = locate_droplets(field, threshold=0.5)
                    ev += 1
                    distinct.add((t, seed, fam))
                    if len(em) != 1:
                        report("exactly one droplet is returned per original", inputs, dict(found=len(em), expected=1))
                        continue
                    if abs(em[0].radius - r) > dr / 2 * (1 + 1e-9):
                        report("on radially symmetric grids the radius lies within half a radial spacing of the original radius", inputs,
                               dict(found=float(em[0].radius), original=r, spacing=dr))
                    cov = (np.arange(n) + 0.5) * dr < r
                    vol = float(np.asarray(grid.cell_volume_data[0]).reshape(-1)[cov].sum())
                    if abs(em[0].volume - vol) > 1e-9 * vol:
                        report("the volume equals the total volume of the cells whose centres the original covers", inputs, dict(volume=float(em[0].volume), expected=vol))
                    if np.any(np.abs(em[0].position) > 1e-12):
                        report("a centred droplet is reported at the origin", inputs)
                else:
                    nr, nz = int(rng.integers(8, 20)), int(rng.integers(16, 40))
                    drr, dz = float(rng.choice([0.5, 1.0])), float(rng.choice([0.5, 1.0, 1.5]))
                    z0 = float(rng.choice([-5.0, 0.0, 3.25]))
                    perz = bool(rng.integers(0, 2))
                    grid = pde.CylindricalSymGrid(nr * drr, (z0, z0 + nz * dz), [nr, nz], periodic_z=perz)
                    Lz = nz * dz
                    h = max(drr, dz)
                    drops = []
                    for _ in range(int(rng.integers(1, 3))):
                        for _try in range(40):
                            rmax = min(nr * drr - 2 * h, Lz / 2 - 1.5 * h, 6 * h)
                            if rmax <= 2 * h:
                                break
                            r = float(rng.uniform(2 * h, rmax))
                            z = float(rng.uniform(z0, z0 + Lz)) if perz else float(rng.uniform(z0 + r + h, z0 + Lz - r - h)) if Lz - 2 * r - 2 * h > 0 else None
                            if z is None:
                                continue
                            if all((wrap_diff(z, z2, Lz) if perz else abs(z - z2)) > r + r2 + 3 * math.sqrt(3) * h for z2, r2 in drops):
                                drops.append((z, r))
                                break
                    if not drops:
                        continue
                    inputs.update(shape=[nr, nz], spacing=[drr, dz], z0=z0, periodic_z=perz, droplets=drops)
                    # rendering on a periodic cylinder relies on py-pde's difference_vector, which has the dependency defect D1 (wrap applied
                    # to y instead of z): droplets that straddle the periodic boundary are rendered by two images placed by hand
                    dl = []
                    for z, r in drops:
                        dl.append(SphericalDroplet([0, 0, z], r))
                        if perz and z - r < z0:
                            dl.append(SphericalDroplet([0, 0, z + Lz], r))
                        if perz and z + r > z0 + Lz:
                            dl.append(SphericalDroplet([0, 0, z - Lz], r))
                    field = Emulsion(dl).get_phasefield(grid)
                    em = locate_droplets(field, threshold=0.5)
                    ev += 1
                    distinct.add((t, seed, fam))
                    if len(em) != len(drops):
                        report("exactly one droplet is returned per original", inputs, dict(found=len(em), expected=len(drops)))
                        continue
                    vol_r = np.asarray(grid.cell_volume_data[0]).reshape(-1)
                    rc = (np.arange(nr) + 0.5) * drr
                    zc = z0 + (np.arange(nz) + 0.5) * dz
                    for z, r in drops:
                        dzz = np.abs((zc - z + Lz / 2) % Lz - Lz / 2) if perz else np.abs(zc - z)
                        d2 = rc[:, None] ** 2 + dzz[None, :] ** 2
                        if np.any(np.abs(np.sqrt(d2) - r) < 1e-9 * (1 + r)):
                            continue
                        cov = d2 < r * r
                        vol = float((vol_r[:, None] * dz * cov).sum())
                        best = min(em, key=lambda d: wrap_diff(d.position[2], z, Lz) if perz else abs(d.position[2] - z))
                        if abs(best.volume - vol) > 1e-9 * vol:
                            report("the volume equals the total volume of the cells whose centres the original covers", inputs, dict(volume=float(best.volume), expected=vol))
                        dev = wrap_diff(best.position[2], z, Lz) if perz else abs(best.position[2] - z)
                        if dev > dz / 2 * (1 + 1e-9) or abs(best.position[0]) > 1e-12 or abs(best.position[1]) > 1e-12:
                            report("the centre lies within half a grid spacing per axis of the original centre (periodic metric)", inputs,
                                   dict(deviation=float(dev), spacing=dz, found=list(map(float, best.position)), original=z))
                        if perz and not (z0 - 1e-9 <= best.position[2] <= z0 + Lz + 1e-9):
                            report("along periodic axes the reported position lies inside the grid bounds", inputs, dict(position=list(map(float, best.position))))
            except Exception as e:   # noqa: BLE001
                import traceback
                report(f"rendering and locating raise nothing ({type(e).__name__})", inputs, dict(error=traceback.format_exc()[-800:]))
        return dict(evaluations=ev, distinct=len(distinct), violations=list(viol.values()))

    def replay(self, rec):
        r = self.run("quick" if rec["inputs"].get("t", 0) < 1500 else "thorough", int(rec["inputs"].get("seed", 0)))
        return dict(violated=[v["signature"] for v in r["violations"]], observed=[v.get("native") for v in r["violations"]][:3])
