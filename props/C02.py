"""C02 -- each located droplet is one connected component under the grid's topology."""
from contracts import locmask as lm
LEVEL = "other"
LEVEL_TEXT = "interim: bounded stand-in only (exhaustive small images against a periodic flood-fill oracle / seeded render-locate configurations); the contracts on the locating functions are being added"
LEVEL_NOTE = "bounded only so far; nothing is proved for this property yet"
CONTRACTS = []
LEMMAS = []
BOUNDED = [lm.ImageEnumeration()]
