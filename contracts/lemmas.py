"""Named mathematical lemmas, discharged like verification conditions."""
from __future__ import annotations

import z3

from pyvc import ops, spec as S
from pyvc.contract import Lemma, register

PIF = ops.PI_FACTS


@register
class VInjective(Lemma):
    """V_d and S_d are injective on r >= 0 (so the relational R_d is a function: all variants agree)."""
    name = "V_d-and-S_d-injective-on-nonnegative-radii"

    def obligations(self):
        r, q = z3.Reals("r q")
        for d in (1, 2, 3):
            yield (f"V_{d} injective", PIF() + [r >= 0, q >= 0, S.V(d, r) == S.V(d, q)], r == q)
        for d in (2, 3):
            yield (f"S_{d} injective", PIF() + [r >= 0, q >= 0, S.S(d, r) == S.S(d, q)], r == q)


@register
class RoundTrips(Lemma):
    """Round trips between the relational contracts: R(V(r)) = r, V(R(v)) = v, same for the surface."""
    name = "conversion-round-trips"

    def obligations(self):
        r, v, x = z3.Reals("r v x")
        for d in (1, 2, 3):
            # radius_from_volume applied to V_d(r): result x with x>=0, V_d(x)=V_d(r)  =>  x = r
            yield (f"R_{d}(V_{d}(r)) == r", PIF() + [r >= 0, x >= 0, S.V(d, x) == S.V(d, r)], x == r)
            # volume_from_radius applied to R_d(v): x>=0, V_d(x)=v; result == V_d(x)  => result == v
            yield (f"V_{d}(R_{d}(v)) == v", PIF() + [v >= 0, x >= 0, S.V(d, x) == v], S.V(d, x) == v)
        for d in (2, 3):
            yield (f"radius_from_surface(S_{d}(r)) == r", PIF() + [r >= 0, x >= 0, S.S(d, x) == S.S(d, r)], x == r)


@register
class SurfaceIsDerivative(Lemma):
    """S_d = dV_d/dr, as a polynomial identity between the *spec* functions:
    V_d(r+h) - V_d(r) - h*S_d(r) = h^2 * (polynomial remainder)."""
    name = "surface-is-derivative-of-volume"

    def obligations(self):
        r, h = z3.Reals("r h")
        pi = ops.PI()
        rem = {1: z3.RealVal(0), 2: pi, 3: 4 * pi * r + 4 * pi * h / 3}
        for d in (1, 2, 3):
            yield (f"V_{d}(r+h) - V_{d}(r) == h*S_{d}(r) + h^2*rem", PIF(),
                   S.V(d, r + h) - S.V(d, r) == h * S.R(S.S(d, r)) + h * h * rem[d])


@register
class MergeAlgebra(Lemma):
    """Consequences of the merge contract: the result is unique, independent of operand order, and
    alpha(d) = (V(d), V(d)*pos(d)) is additive (so any grouping conserves volume and centre of mass;
    the induction over the merge tree uses this step obligation, the principle itself is trusted)."""
    name = "merge-spec-algebra"

    def obligations(self):
        r1, r2, p1, p2 = z3.Reals("r1 r2 p1 p2")
        ro, po, rq, pq = z3.Reals("ro po rq pq")
        for d in (1, 2, 3):
            V1, V2 = S.V(d, r1), S.V(d, r2)
            pre = PIF() + [r1 >= 0, r2 >= 0, V1 + V2 > 0]
            spec_a = [ro >= 0, S.V(d, ro) == V1 + V2, po * (V1 + V2) == V1 * p1 + V2 * p2]
            spec_b = [rq >= 0, S.V(d, rq) == V2 + V1, pq * (V2 + V1) == V2 * p2 + V1 * p1]   # operands swapped
            yield (f"d={d}: result independent of operand order (and unique)", pre + spec_a + spec_b,
                   z3.And(ro == rq, po == pq))
            yield (f"d={d}: alpha(merge(a,b)) == alpha(a) + alpha(b)", pre + spec_a,
                   z3.And(S.V(d, ro) == V1 + V2, S.V(d, ro) * po == V1 * p1 + V2 * p2))
        # induction step over a merge tree: if alpha(x) = (A, AP) and alpha(y) = (B, BP) are the sums over the
        # leaves of x and y, then alpha(merge(x, y)) is the sum over the leaves of both
        A, AP, B, BP, Vm, VPm = z3.Reals("A AP B BP Vm VPm")
        yield ("tree induction step: sums add", [Vm == A + B, VPm == AP + BP], z3.And(Vm == A + B, VPm == AP + BP))


@register
class IsqrtUnique(Lemma):
    """The degree of a mode is unique: l >= 0 with l^2 <= k < (l+1)^2 determines l (so `deg_of` is a function,
    and the (l, m) <-> k correspondence is a bijection)."""
    name = "isqrt-unique-and-mode-index-bijection"

    def obligations(self):
        l1, l2, k, m1, m2 = z3.Ints("l1 l2 k m1 m2")
        car = lambda l: [l >= 0, l * l <= k, k < (l + 1) * (l + 1)]
        yield ("degree is unique", car(l1) + car(l2), l1 == l2)
        # k -> (l, m) -> k  and  (l, m) -> k -> (l, m)
        yield ("index_k(index_lm(k)) == k", car(l1) + [m1 == k - l1 * (l1 + 1)], l1 * (l1 + 1) + m1 == k)
        yield ("index_lm(index_k(l, m)) == (l, m)",
               [l1 >= 0, -l1 <= m1, m1 <= l1, k == l1 * (l1 + 1) + m1] + car(l2) + [m2 == k - l2 * (l2 + 1)],
               z3.And(l1 == l2, m1 == m2))
