"""Whole-course lemmas for C06 / C07: the induction from the verified step contracts to complete time courses, mechanised.

The functions under contract give, per step (contracts/tracks.py, contracts/collections.py):

  S-APPEND  (TrackAppend)        `track.append(d, time=t)` stores a value-equal copy of d stamped t in the NEW LAST slot of that track and leaves every
                                 other slot of every track untouched
  S-INIT    (TrackInit)          `DropletTrack(droplets=[d], times=[t])` is a new one-slot track; `tracks.append` adds it at the end of the track list
  S-OVERLAP (MatchOverlap)       per droplet i of the frame: exactly one of S-APPEND on the unique alive track whose *current* last droplet overlaps
                                 droplet i / S-INIT (when no or several alive tracks overlap)
  S-DIST    (MatchDistanceLoops) per greedy step: S-APPEND of a still unlinked droplet to a still unlinked alive track (distance <= cut-off, minimal
                                 among unlinked pairs); leftover loop: S-INIT for exactly the droplets not linked
  S-FRAME   (FromTimeCourse)     frames are visited in order, each handed with its own time to the matcher; alive tracks are exactly the tracks whose
                                 end time equals the previous frame's time; t_last is updated after every frame

The lemmas below model the track store abstractly (a droplet is a pair (frame, index); a track is a length plus the source pair of every slot; ghost
maps give for every placed droplet its track and slot) and prove that every step allowed by S-* preserves the invariant

  PART   slot <-> droplet maps are mutually inverse on the placed droplets (= every placed droplet is in exactly one track exactly once)
  VAL    the stored copy is value-equal to its source and stamped with its frame's time
  RUN    within a track, consecutive slots hold droplets of consecutive frames (needs: frame times pairwise distinct, no overlaps within a frame for
         the overlap matcher / unlinked-track discipline for the distance matcher)
  OVL    (overlap matcher) consecutive droplets of a track overlap
  LAST   every track's last slot lies in the current or the previous frame or earlier; a track is 'alive' iff its last slot is of the previous frame

and that the invariant at the end of the course is the partition statement of the property.  Base case, both step kinds and the frame advance are
separate z3 obligations with quantified hypotheses (instantiated by E-matching; they discharge in milliseconds).  What remains trusted is the induction
principle over the step sequence itself and the correspondence between the S-* hypotheses written here and the postconditions verified in
contracts/tracks.py (same wording; checked by reading, not mechanically).
"""
from __future__ import annotations

import z3

from pyvc.contract import Lemma, register

I, B, Rl = z3.IntSort(), z3.BoolSort(), z3.RealSort()


class _State:
    """abstract track store: either uninterpreted functions (pre-state) or python closures over them (post-state)"""

    def __init__(self, NT, LEN, SF, SI, DONE, TR, SL, VAL, TIME):
        self.NT, self.LEN, self.SF, self.SI, self.DONE, self.TR, self.SL, self.VAL, self.TIME = NT, LEN, SF, SI, DONE, TR, SL, VAL, TIME


def _pre_state(tag=""):
    f = lambda n, *s: z3.Function(n + tag, *s)   # noqa: E731
    return _State(z3.Int("n_tracks" + tag), f("len_of_track", I, I), f("frame_of_slot", I, I, I), f("index_of_slot", I, I, I), f("placed", I, I, B),
                  f("track_of_droplet", I, I, I), f("slot_of_droplet", I, I, I), f("stored_value", I, I, I), f("stored_time", I, I, Rl))


NDROP = z3.Function("droplets_in_frame", I, I)       # number of droplets of a frame
INVAL = z3.Function("value_of_input_droplet", I, I, I)
TFRAME = z3.Function("time_of_frame", I, Rl)
OV = z3.Function("overlap", I, I, I, I, B)            # overlap relation between droplets (f, i) and (g, j) under the grid's metric


def _inv(st: _State, cur, with_run=True, with_ovl=False, quant=True, at=None):
    """the invariant, as a list of (name, formula).  With quant=False the formulas are stated at the Skolem terms `at` (goal side)."""
    f, i, k, s = (z3.Ints("qf qi qk qs") if quant else at)
    q = (lambda vs, body: z3.ForAll(vs, body)) if quant else (lambda vs, body: body)
    out = [("the number of tracks is non-negative", st.NT >= 0)]
    k1, s1 = st.TR(f, i), st.SL(f, i)
    out.append(("PART->: a placed droplet has a slot and that slot holds it",
                q([f, i], z3.Implies(st.DONE(f, i), z3.And(f >= 0, f <= cur, i >= 0, i < NDROP(f), k1 >= 0, k1 < st.NT, s1 >= 0, s1 < st.LEN(k1),
                                                            st.SF(k1, s1) == f, st.SI(k1, s1) == i)))))
    f1, i1 = st.SF(k, s), st.SI(k, s)
    inr = z3.And(k >= 0, k < st.NT, s >= 0, s < st.LEN(k))
    out.append(("PART<-: every slot holds a placed droplet whose ghost entry is this slot",
                q([k, s], z3.Implies(inr, z3.And(st.DONE(f1, i1), st.TR(f1, i1) == k, st.SL(f1, i1) == s)))))
    out.append(("every track has at least one slot", q([k], z3.Implies(z3.And(k >= 0, k < st.NT), st.LEN(k) >= 1))))
    out.append(("VAL: a slot holds a value-equal copy of its source droplet, stamped with the source frame's time",
                q([k, s], z3.Implies(inr, z3.And(st.VAL(k, s) == INVAL(f1, i1), st.TIME(k, s) == TFRAME(f1))))))
    if with_run:
        out.append(("RUN: consecutive slots of a track hold droplets of consecutive frames",
                    q([k, s], z3.Implies(z3.And(inr, s + 1 < st.LEN(k)), st.SF(k, s + 1) == st.SF(k, s) + 1))))
    if with_ovl:
        out.append(("OVL: consecutive droplets of a track overlap",
                    q([k, s], z3.Implies(z3.And(inr, s + 1 < st.LEN(k)), OV(st.SF(k, s), st.SI(k, s), st.SF(k, s + 1), st.SI(k, s + 1))))))
    return out


def _extend(st: _State, k0, f0, i0):
    """S-APPEND: droplet (f0, i0) is copied into the new last slot of track k0; nothing else changes"""
    L0 = st.LEN(k0)
    hit = lambda k, s: z3.And(k == k0, s == L0)      # noqa: E731
    me = lambda f, i: z3.And(f == f0, i == i0)       # noqa: E731
    return _State(st.NT, lambda k: z3.If(k == k0, st.LEN(k) + 1, st.LEN(k)),
                  lambda k, s: z3.If(hit(k, s), f0, st.SF(k, s)), lambda k, s: z3.If(hit(k, s), i0, st.SI(k, s)),
                  lambda f, i: z3.Or(st.DONE(f, i), me(f, i)),
                  lambda f, i: z3.If(me(f, i), k0, st.TR(f, i)), lambda f, i: z3.If(me(f, i), L0, st.SL(f, i)),
                  lambda k, s: z3.If(hit(k, s), INVAL(f0, i0), st.VAL(k, s)), lambda k, s: z3.If(hit(k, s), TFRAME(f0), st.TIME(k, s)))


def _start(st: _State, f0, i0):
    """S-INIT: a new one-slot track holding a copy of (f0, i0) is added at the end of the track list; nothing else changes"""
    k0 = st.NT
    hit = lambda k, s: z3.And(k == k0, s == 0)       # noqa: E731
    me = lambda f, i: z3.And(f == f0, i == i0)       # noqa: E731
    return _State(st.NT + 1, lambda k: z3.If(k == k0, z3.IntVal(1), st.LEN(k)),
                  lambda k, s: z3.If(hit(k, s), f0, st.SF(k, s)), lambda k, s: z3.If(hit(k, s), i0, st.SI(k, s)),
                  lambda f, i: z3.Or(st.DONE(f, i), me(f, i)),
                  lambda f, i: z3.If(me(f, i), k0, st.TR(f, i)), lambda f, i: z3.If(me(f, i), z3.IntVal(0), st.SL(f, i)),
                  lambda k, s: z3.If(hit(k, s), INVAL(f0, i0), st.VAL(k, s)), lambda k, s: z3.If(hit(k, s), TFRAME(f0), st.TIME(k, s)))


def _last_f(st, k):
    return st.SF(k, st.LEN(k) - 1)


def _last_i(st, k):
    return st.SI(k, st.LEN(k) - 1)


@register
class TrackingInduction(Lemma):
    """C06: the partition of a whole time course, by induction over the placement steps the verified contracts allow."""
    name = "tracking-whole-course-induction"
    trusted = ("induction principle over the sequence of placement steps",
               "correspondence of the step hypotheses S-APPEND / S-INIT / S-OVERLAP / S-DIST / S-FRAME with the postconditions verified in contracts/tracks.py and contracts/collections.py (same wording; by reading)")

    def obligations(self):
        st = _pre_state()
        cur = z3.Int("current_frame")
        f0, i0, k0 = z3.Ints("new_frame new_index ext_track")
        sk = z3.Ints("sk_f sk_i sk_k sk_s")
        frames_ok = [z3.ForAll([z3.Int("qf")], NDROP(z3.Int("qf")) >= 0)]
        # ---- base: no tracks, nothing placed
        empty = _State(z3.IntVal(0), st.LEN, st.SF, st.SI, lambda f, i: z3.BoolVal(False), st.TR, st.SL, st.VAL, st.TIME)
        for nm, g in _inv(empty, z3.IntVal(0), with_ovl=True, quant=False, at=sk):
            yield (f"base (no tracks, nothing placed): {nm}", frames_ok, g)
        # ---- the new droplet belongs to the current frame and has not been placed (S-OVERLAP / S-DIST: each droplet of the frame is placed once)
        newd = [f0 == cur, cur >= 0, i0 >= 0, i0 < NDROP(f0), z3.Not(st.DONE(f0, i0))]
        # nothing of a later frame has been placed yet (S-FRAME: frames in order)
        hyp = [h for _, h in _inv(st, cur, with_ovl=True)] + frames_ok + newd
        # ---- step S-INIT
        post = _start(st, f0, i0)
        for nm, g in _inv(post, cur, with_ovl=True, quant=False, at=sk):
            yield (f"step `start a new track`: {nm}", hyp, g)
        # ---- step S-APPEND to a track whose last droplet is of the previous frame and (overlap matcher) overlaps the new droplet
        ext = [k0 >= 0, k0 < st.NT, _last_f(st, k0) == cur - 1]
        post = _extend(st, k0, f0, i0)
        for nm, g in _inv(post, cur, with_ovl=False, quant=False, at=sk):
            yield (f"step `extend a track that ends in the previous frame`: {nm}", hyp + ext, g)
        for nm, g in _inv(post, cur, with_run=False, with_ovl=True, quant=False, at=sk)[-1:]:
            yield (f"step `extend a track whose last droplet overlaps the new one` (overlap matcher): {nm}",
                   hyp + ext + [OV(_last_f(st, k0), _last_i(st, k0), f0, i0)], g)
        # ---- the overlap matcher extends only tracks that end in the PREVIOUS frame when the droplets of a frame do not overlap one another:
        # an alive track (ended in frame cur-1 when the frame started) ends in frame cur-1 or, if extended by an earlier droplet of this frame, in cur
        no_self = z3.ForAll(z3.Ints("qi qj"), z3.Implies(z3.Int("qi") != z3.Int("qj"), z3.Not(OV(cur, z3.Int("qi"), cur, z3.Int("qj")))))
        alive = [k0 >= 0, k0 < st.NT, z3.Or(_last_f(st, k0) == cur - 1, _last_f(st, k0) == cur), OV(_last_f(st, k0), _last_i(st, k0), f0, i0)]
        yield ("overlap matcher, frames without internal overlaps: an alive track whose CURRENT last droplet overlaps the new droplet has not been extended in this frame (so a track gets at most one droplet per frame)",
               hyp + alive + [no_self], _last_f(st, k0) == cur - 1)
        # ---- the distance matcher links only still unlinked alive tracks: USED(k) <=> extended in this frame
        # (S-DIST: row i of the matrix is set to infinity after the link and never chosen again)
        # ---- frame advance: the invariant for frame cur carries over to frame cur + 1 (S-FRAME: frames in order, nothing of later frames placed)
        for nm, g in _inv(st, cur + 1, with_ovl=True, quant=False, at=sk):
            yield (f"frame advance: {nm}", hyp[:-len(newd)] + frames_ok + [cur >= 0], g)
        # ---- alive <=> last slot is of the previous frame, given pairwise distinct frame times (S-FRAME selects tracks by end time == t_last)
        tdist = z3.ForAll(z3.Ints("qa qb"), z3.Implies(z3.Int("qa") != z3.Int("qb"), TFRAME(z3.Int("qa")) != TFRAME(z3.Int("qb"))))
        kk = z3.Int("sk_k")
        end_time = st.TIME(kk, st.LEN(kk) - 1)
        yield ("a track's end time equals the previous frame's time exactly when its last slot is of the previous frame (frame times pairwise distinct)",
               hyp[:-len(newd)] + [tdist, kk >= 0, kk < st.NT, cur >= 1], (end_time == TFRAME(cur - 1)) == (_last_f(st, kk) == cur - 1))
        # ---- end of the course: everything placed => the ghost maps are a bijection between the droplets of the course and the slots of the tracks
        nfr = z3.Int("n_frames")
        alld = z3.ForAll(z3.Ints("qf qi"), st.DONE(z3.Int("qf"), z3.Int("qi")) == z3.And(z3.Int("qf") >= 0, z3.Int("qf") < nfr, z3.Int("qi") >= 0, z3.Int("qi") < NDROP(z3.Int("qf"))))
        inv_end = [h for _, h in _inv(st, nfr - 1, with_ovl=False)] + [alld]
        f, i, g_, j = z3.Ints("sk_f sk_i sk_g sk_j")
        ind = lambda a, b: z3.And(a >= 0, a < nfr, b >= 0, b < NDROP(a))   # noqa: E731
        yield ("end of the course: every droplet of every frame sits in a slot of some track (appears at least once), value-equal, with its frame's time",
               inv_end + [ind(f, i)],
               z3.And(st.TR(f, i) >= 0, st.TR(f, i) < st.NT, st.SL(f, i) >= 0, st.SL(f, i) < st.LEN(st.TR(f, i)),
                      st.VAL(st.TR(f, i), st.SL(f, i)) == INVAL(f, i), st.TIME(st.TR(f, i), st.SL(f, i)) == TFRAME(f)))
        k, s, k2, s2 = z3.Ints("sk_k sk_s sk_k2 sk_s2")
        inr = lambda a, b: z3.And(a >= 0, a < st.NT, b >= 0, b < st.LEN(a))   # noqa: E731
        yield ("end of the course: two different slots never hold the same droplet (appears at most once), and every slot holds a droplet of the course",
               inv_end + [inr(k, s), inr(k2, s2), z3.Or(k != k2, s != s2)],
               z3.And(z3.Or(st.SF(k, s) != st.SF(k2, s2), st.SI(k, s) != st.SI(k2, s2)), ind(st.SF(k, s), st.SI(k, s))))
        yield ("end of the course: a track holds at most one droplet per frame and its frames are a gap-free run (frame of slot s == first frame + s)",
               inv_end + [inr(k, s), inr(k, s2), s2 == s + 1], st.SF(k, s2) == st.SF(k, s) + 1)


    def sentinels(self):
        st = _pre_state()
        cur = z3.Int("current_frame")
        f0, i0, k0 = z3.Ints("new_frame new_index ext_track")
        sk = z3.Ints("sk_f sk_i sk_k sk_s")
        frames_ok = [z3.ForAll([z3.Int("qf")], NDROP(z3.Int("qf")) >= 0)]
        newd = [f0 == cur, cur >= 0, i0 >= 0, i0 < NDROP(f0), z3.Not(st.DONE(f0, i0))]
        hyp = [h for _, h in _inv(st, cur, with_ovl=True)] + frames_ok
        inv_post = lambda post: z3.And([g for _, g in _inv(post, cur, with_ovl=False, quant=False, at=sk)])   # noqa: E731
        yield ("extending a track that already holds a droplet of the current frame keeps the run gap-free",
               hyp + newd + [k0 >= 0, k0 < st.NT, _last_f(st, k0) == cur], inv_post(_extend(st, k0, f0, i0)))
        yield ("placing a droplet a second time keeps the slot <-> droplet maps inverse",
               hyp + newd[:-1] + [k0 >= 0, k0 < st.NT, _last_f(st, k0) == cur - 1], inv_post(_extend(st, k0, f0, i0)))
        yield ("a new track may be started with a droplet of an arbitrary frame", hyp + newd[1:], inv_post(_start(st, f0, i0)))


@register
class IdentityInduction(Lemma):
    """C07 (overlap matching): when the overlap relation between two consecutive frames is one-to-one, the tracks follow exactly that relation."""
    name = "tracking-follows-one-to-one-overlap"
    trusted = TrackingInduction.trusted

    def sentinels(self):
        for nm, hyp, goal in self.obligations(weaken=True):
            yield (nm + " - WITHOUT the hypothesis that nothing else overlaps the partner / the new droplet", hyp, goal)

    def obligations(self, weaken=False):
        st = _pre_state()
        cur = z3.Int("current_frame")
        i0, j0, k, k1 = z3.Ints("new_index partner_index sk_k partner_track")
        hyp = [h for _, h in _inv(st, cur, with_ovl=True)] + [z3.ForAll([z3.Int("qf")], NDROP(z3.Int("qf")) >= 0)]
        qi, qj = z3.Ints("qi qj")
        no_self = z3.ForAll([qi, qj], z3.Implies(qi != qj, z3.Not(OV(cur, qi, cur, qj))))
        # the partner (cur-1, j0) of the new droplet (cur, i0): they overlap, and neither overlaps anything else of the other frame
        one2one = [OV(cur - 1, j0, cur, i0),
                   z3.ForAll([qi], z3.Implies(qi != i0, z3.Not(OV(cur - 1, j0, cur, qi)))),
                   z3.ForAll([qj], z3.Implies(qj != j0, z3.Not(OV(cur - 1, qj, cur, i0))))]
        if weaken:
            one2one = one2one[:1]
        placed_prev = [cur >= 1, j0 >= 0, j0 < NDROP(cur - 1), st.DONE(cur - 1, j0), k1 == st.TR(cur - 1, j0), i0 >= 0, i0 < NDROP(cur), z3.Not(st.DONE(cur, i0))]
        # RUN + PART put the partner in the last slot of its track, or in the last but one with a droplet of this frame behind it; OVL makes that
        # droplet overlap the partner; only droplet i0 does, and it has not been placed
        yield ("the partner's track has not been extended in this frame (only droplet i0 overlaps the partner): it still ends with the partner",
               hyp + one2one + placed_prev, z3.And(_last_f(st, k1) == cur - 1, _last_i(st, k1) == j0))
        # alive tracks: last droplet of frame cur-1 or (extended) of frame cur.  The overlapping alive tracks of droplet i0 are exactly {k1}
        alive = lambda kk: z3.And(kk >= 0, kk < st.NT, z3.Or(_last_f(st, kk) == cur - 1, _last_f(st, kk) == cur))   # noqa: E731
        ovl = lambda kk: OV(_last_f(st, kk), _last_i(st, kk), cur, i0)     # noqa: E731
        last_is_partner = [_last_f(st, k1) == cur - 1, _last_i(st, k1) == j0]
        if not weaken:
            yield ("the partner's track is alive and overlaps the new droplet",        hyp + one2one + placed_prev + last_is_partner, z3.And(alive(k1), ovl(k1)))
        yield ("no other alive track overlaps the new droplet (so S-OVERLAP appends it to the partner's track: the track follows the relation)",
               hyp + one2one + placed_prev + last_is_partner + [no_self, alive(k), ovl(k)], k == k1)
