"""Symbolic value classes of the pyvc engine (see DESIGN.md Appendix A)."""
from __future__ import annotations

from fractions import Fraction

import z3


class Undecided(Exception):
    """The engine cannot model a construct: the run is *undecided* (exit 2), never a pass."""


class SNoneType:
    pass


class SInf:
    """+-infinity (np.inf).  Only comparisons and unary minus are supported."""

    def __init__(self, sign=1):
        self.sign = sign

    def __repr__(self):
        return "inf" if self.sign > 0 else "-inf"


class SMaybeNaN:
    """A float that may be NaN: (isnan: Bool term or bool, val: number)."""

    def __init__(self, isnan, val):
        self.isnan = isnan
        self.val = val

    def __repr__(self):
        return f"MaybeNaN({self.isnan},{self.val})"


class SArr:
    """numpy array with a concrete list of elements (1-D) or a 0-d array (ndim 0, one elem).

    Mutable: in-place operators and slice assignment update `elems`.
    A *view* shares the `elems` list object of its base.
    """

    def __init__(self, elems, ndim=1, kind="float"):
        self.elems = elems if isinstance(elems, list) else list(elems)
        self.ndim = ndim
        self.kind = kind

    def __len__(self):
        return len(self.elems)

    def copy(self):
        return SArr(list(self.elems), self.ndim, self.kind)

    def __repr__(self):
        return f"SArr({self.elems})"


class SCell:
    """A numpy array of arbitrary (unknown) shape evaluated at one Skolem index.

    `v` is the scalar value at that index.  `space` identifies the index space (arrays over
    the same space have equal shapes).  Mutable (in-place operators mutate `v`).
    """

    def __init__(self, v, space="cells", kind="float"):
        self.v = v
        self.space = space
        self.kind = kind

    def __repr__(self):
        return f"SCell[{self.space}]({self.v})"


class SShape:
    """Shape object of an SCell / SSeq-backed array (opaque but comparable)."""

    def __init__(self, space, dims=None):
        self.space = space
        self.dims = dims      # optional tuple of lengths

    def __repr__(self):
        return f"SShape({self.space})"


class SSeq:
    """Immutable sequence of symbolic length: `length` (z3 Int or int) and `at(i)`."""

    def __init__(self, length, at, name="seq", kind="array"):
        self.length = length
        self.at = at
        self.name = name
        self.kind = kind     # "array" (numpy) | "list" | "iter"

    def __repr__(self):
        return f"SSeq({self.name}, len={self.length})"


class SRec:
    """numpy structured record with directly stored field values (mutable)."""

    def __init__(self, fields: dict, name="rec"):
        self.fields = fields
        self.name = name

    def get(self, k):
        if k not in self.fields:
            raise KeyError(k)
        return self.fields[k]

    def set(self, k, v):
        self.fields[k] = v

    def names(self):
        return list(self.fields)

    def copy(self):
        out = {}
        for k, v in self.fields.items():
            out[k] = v.copy() if isinstance(v, SArr) else v
        return SRec(out, self.name + "'")

    def __repr__(self):
        return f"SRec({self.fields})"


class SDtype:
    def __init__(self, rec):
        self.rec = rec


class SObj:
    """Instance of a class of the analysed code with a concrete field dictionary."""

    _ids = 0

    def __init__(self, cls, fields=None, tag=None):
        self.cls = cls
        self.fields = fields if fields is not None else {}
        SObj._ids += 1
        self.oid = SObj._ids
        self.tag = tag

    def __repr__(self):
        return f"<{self.cls.name}#{self.oid} {self.fields}>"


class SOpaque:
    """Uninterpreted value (external object).  `term` (optional) is a z3 constant of sort U."""

    def __init__(self, tag, term=None, attrs=None):
        self.tag = tag
        self.term = term
        self.attrs = attrs or {}

    def __repr__(self):
        return f"Opaque({self.tag})"


class SFunc:
    """Closure over an analysed function."""

    def __init__(self, info, closure=None, decorated=True):
        self.info = info
        self.closure = closure
        self.decorated = decorated

    def __repr__(self):
        return f"SFunc({self.info.key})"


class SBound:
    def __init__(self, obj, func):
        self.obj = obj
        self.func = func     # SFunc or python callable

    def __repr__(self):
        return f"SBound({self.obj!r}.{self.func})"


class SClassRef:
    def __init__(self, cls):
        self.cls = cls

    def __repr__(self):
        return f"SClassRef({self.cls.name})"


class SModule:
    def __init__(self, name):
        self.name = name

    def __repr__(self):
        return f"SModule({self.name})"


class SExternal:
    """Reference to an external (dependency) callable/attribute by dotted name, e.g. 'numpy.sqrt'."""

    def __init__(self, name):
        self.name = name

    def __repr__(self):
        return f"SExternal({self.name})"


class SNative:
    """Engine-native callable (models, contract-provided functions)."""

    def __init__(self, fn, name="native"):
        self.fn = fn
        self.name = name

    def __repr__(self):
        return f"SNative({self.name})"


class SKw:
    """Opaque keyword bundle (**kwargs) that can be forwarded but not inspected."""

    def __init__(self, tag, term=None, known=None):
        self.tag = tag
        self.term = term
        self.known = dict(known or {})


class SExc:
    def __init__(self, cls_name, args=()):
        self.cls_name = cls_name
        self.args = args


# ---------------------------------------------------------------------------
# helpers on numbers

def is_z3(v):
    return isinstance(v, z3.ExprRef)


def is_num(v):
    return (isinstance(v, (int, Fraction)) and not isinstance(v, bool)) or \
        (is_z3(v) and z3.is_arith(v))


def is_concrete_num(v):
    return isinstance(v, (int, Fraction)) and not isinstance(v, bool)


def to_z3(v):
    if is_z3(v):
        return v
    if isinstance(v, bool):
        return z3.BoolVal(v)
    if isinstance(v, int):
        return z3.IntVal(v)
    if isinstance(v, Fraction):
        return z3.RealVal(v)
    if isinstance(v, float):
        return z3.RealVal(Fraction(repr(v)))
    raise Undecided(f"cannot convert {v!r} to a z3 term")


def to_real(v):
    t = to_z3(v)
    if z3.is_int(t):
        return z3.ToReal(t)
    return t


def is_int_valued(v):
    if isinstance(v, bool):
        return False
    if isinstance(v, int):
        return True
    return is_z3(v) and z3.is_int(v)


def const_of(v):
    """Return python number if the z3 term is a numeral, else None."""
    if is_concrete_num(v):
        return v
    if is_z3(v):
        s = z3.simplify(v)
        if z3.is_int_value(s):
            return s.as_long()
        if z3.is_rational_value(s):
            return Fraction(s.numerator_as_long(), s.denominator_as_long())
    return None
