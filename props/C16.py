"""C16 -- the structure factor is a normalised, symmetry-invariant power spectrum."""
from contracts import structure as sfc
from pyvc.bounded import Bounded, ContractSampling

LEVEL = "other"
LEVEL_TEXT = ("get_structure_factor is verified (whole body, dimensions 1-3, every combination of smoothing none/0/'none'/'auto'/number, wave numbers "
              "auto/None/given, add_zero) against an element-wise contract at one arbitrary Fourier mode (i0, i1, ...) != 0: the returned wave "
              "number is |k| with k_a = 2 pi fftfreq(n_a)[i_a] / dx_a of THE SAME mode as the returned value S = |F(mode)|^2 / sum f^2 (alignment of "
              "the flattened arrays in C order, zero mode dropped on both sides, no other factor or offset), S >= 0, the transform is called once "
              "with norm='ortho'; smoothed variant: the smoother is built from exactly these arrays with width max|k|/128 or the given number, "
              "requested wave numbers are returned verbatim, automatic ones are 128 equidistant points from 2/(largest box length) to max|k|; "
              "add_zero prepends exactly (0, 1); unsupported requests raise the documented errors. From this contract z3 lemmas give the Parseval "
              "sum 1 - (sum f)^2/(N sum f^2), invariance under a non-zero constant factor, and wave numbers scaling inversely with the grid size. "
              "The discrete Fourier transform itself (Parseval, zero mode, linearity, shift/reflection/permutation symmetries) and fftfreq are "
              "ASSUMED contracts of numpy, validated by the bounded stand-in against a brute-force DFT - hence level 'other'.")
LEVEL_NOTE = ("ASSUMED: numpy fftn(norm='ortho') facts (Parseval, F_0, linearity, symmetry of |F| under whole-cell translation / reflection / axis "
              "permutation), fftfreq formula, reduce(np.add.outer) index convention, x.flat in C order, SmoothData1D is a function of (x, y, sigma), "
              "np.r_, np.linspace, ndarray.max; A-FP; precondition: the field is not identically zero")
CONTRACTS = [sfc.StructureFactor().ident]
LEMMAS = ["structure-factor-normalisation-and-invariances"]
CLAUSES = {"non-negative": "proved", "sums to 1 - squared-mean fraction": "proved from the element-wise contract + assumed Parseval (lemma)",
           "invariant under a constant factor": "proved (lemma) modulo linearity of the DFT",
           "invariant under whole-cell translation / reflection / axis permutation": "assumed DFT symmetries; every sampled field is compared with a brute-force DFT (bounded)",
           "wave numbers are the grid's discrete Fourier wave numbers, inverse to the grid size": "proved modulo the assumed fftfreq formula",
           "smoothed variant returns the requested wave numbers; add_zero prepends (0, 1)": "proved"}
BOUNDED = [ContractSampling("structure-factor-vs-brute-force-dft", CONTRACTS,
                            "6 (quick) / 40 (thorough) random fields per case (30 cases): dimensions 1-3, even/odd and unequal shapes, anisotropic spacings "
                            "0.05..10, shifted origins, factors 1e-9..1e6 and negative, offsets; every returned entry is compared with an O(N^2) "
                            "brute-force DFT of the definition (which has all the stated symmetries), wave numbers with the fftfreq formula, the "
                            "smoothed variant with a smoother built from the brute-force spectrum")]


class LargeGridSmoothed(Bounded):
    """the smoothed variant on a grid with more than 2**14 modes (every sampled grid of the other stand-in is tiny): requested wave numbers are
    returned as given and the result is invariant under permuting the axes together with the grid and under reflection"""
    name = "smoothed-structure-factor-on-a-large-grid"
    bound = ("1 (quick) / 3 (thorough) stripe + noise fields on a 256 x 128 periodic grid with unequal spacings: smoothed structure factor at 6 requested "
             "wave numbers vs the same field with permuted axes (grid permuted, too) and vs the reflected field, relative tolerance 1e-9; and vs "
             "SmoothData1D applied to the complete FFT spectrum (numpy's FFT as oracle: its contract is validated against the brute-force DFT on small grids)")

    def run(self, tier, seed):
        import numpy as np
        import pde
        from pde.tools.math import SmoothData1D
        from droplets.image_analysis import get_structure_factor
        ev, viol = 0, []
        for t in range(1 if tier == "quick" else 3):
            rng = np.random.default_rng(seed + 160 + t)
            shape, dx = (256, 128), (0.5, 1.25)
            x = (np.arange(shape[0]) + 0.5) * dx[0]
            data = np.sin(2 * np.pi * (3 + t) * x / (shape[0] * dx[0]))[:, None] + 0.05 * rng.standard_normal(shape)
            grid = pde.CartesianGrid([(0, n * d) for n, d in zip(shape, dx)], shape, periodic=True)
            gridT = pde.CartesianGrid([(0, n * d) for n, d in zip(shape[::-1], dx[::-1])], shape[::-1], periodic=True)
            kmax = np.pi / max(dx)
            kreq = np.array([0.05, 0.11, 0.3, 0.52, 0.9, 1.0]) * kmax
            sm = 0.02 * kmax
            ev += 1
            k0, s0 = get_structure_factor(pde.ScalarField(grid, data), wave_numbers=kreq, smoothing=sm)
            k1, s1 = get_structure_factor(pde.ScalarField(gridT, data.T), wave_numbers=kreq, smoothing=sm)
            k2, s2 = get_structure_factor(pde.ScalarField(grid, data[::-1, ::-1]), wave_numbers=kreq, smoothing=sm)
            bad = []
            if not (np.array_equal(k0, kreq) and np.array_equal(k1, kreq)):
                bad.append("requested wave numbers are returned exactly")
            if not (np.allclose(s0, s1, rtol=1e-9, atol=1e-14) and np.allclose(s0, s2, rtol=1e-9, atol=1e-14)):
                bad.append("the smoothed structure factor is unchanged when the axes are permuted together with the grid / the field is reflected")
            f = np.fft.fftn(data, norm="ortho")
            sf = (np.abs(f) ** 2 / np.sum(data ** 2)).flat[1:]
            ks = [2 * np.pi * np.fft.fftfreq(n, d) for n, d in zip(shape, dx)]
            km = np.sqrt(ks[0][:, None] ** 2 + ks[1][None, :] ** 2).flat[1:]
            ref = SmoothData1D(km, sf, sigma=sm)(kreq)
            if not np.allclose(s0, ref, rtol=1e-7, atol=1e-14):
                bad.append("the smoothed structure factor is the smoother of the COMPLETE spectrum evaluated at the requested wave numbers")
            for b in bad:
                viol.append(dict(signature=f"large-grid:{b}", what=b, inputs=dict(t=t, seed=seed, shape=list(shape), dx=list(dx))))
        uniq = {}
        for v in viol:
            uniq.setdefault(v["signature"], v)
        return dict(evaluations=ev, distinct=ev, violations=list(uniq.values()))

    def replay(self, rec):
        r = self.run("thorough", int(rec.get("inputs", {}).get("seed", 0)))
        return dict(violated=[v["signature"] for v in r["violations"]])


BOUNDED.append(LargeGridSmoothed())
