"""Extraction of the functions under contract from the *current* source tree.

Every run re-parses the files; nothing is cached between runs.  The tree that is
read is ``$PYDROPLETS_SRC`` (a directory containing the package ``droplets``),
default ``/repo``.  Dependency modules (py-pde) are resolved through the import
system of the interpreter running the check.

Function keys
    ``droplets.tools.spherical:radius_from_volume``                module function
    ``droplets.droplets:SphericalDroplet.volume``                 method / property getter
    ``droplets.droplets:SphericalDroplet.volume@setter``          property setter
    ``droplets.tools.spherical:make_radius_from_volume_compiled.<radius_from_volume>#1``
                                                                 inner def, ordinal among the
                                                                 same-named inner defs (source order)
"""
from __future__ import annotations

import ast
import hashlib
import importlib.util
import os
from dataclasses import dataclass, field
from pathlib import Path

SRC_ROOT = Path(os.environ.get("PYDROPLETS_SRC", "/repo")).resolve()

# decorators that are dropped by the extraction (DESIGN 2.3); everything else must be
# known to the engine or the function is refused.
DROPPED_DECORATORS = {
    "register_jitable", "jit", "overload", "plot_on_axes", "fill_in_docstring",
    "abstractmethod", "t.overload", "overload_typing", "functools.wraps",
}


@dataclass
class FuncInfo:
    key: str
    module: str
    qualname: str
    node: ast.FunctionDef
    cls: "ClassInfo | None" = None
    kind: str = "function"      # function | method | classmethod | staticmethod | getter | setter
    decorators: list = field(default_factory=list)
    parent: "FuncInfo | None" = None

    @property
    def name(self):
        return self.node.name

    def source_hash(self) -> str:
        return hashlib.sha256(ast.dump(self.node, include_attributes=False).encode()).hexdigest()[:16]

    @property
    def span(self):
        return (self.node.lineno, self.node.end_lineno)


@dataclass
class ClassInfo:
    module: str
    name: str
    node: ast.ClassDef
    bases: list            # names as written
    methods: dict = field(default_factory=dict)   # name -> FuncInfo (getter for properties)
    setters: dict = field(default_factory=dict)   # name -> FuncInfo
    consts: dict = field(default_factory=dict)    # class level simple constants (name -> ast node)
    modinfo: "ModuleInfo | None" = None

    def mro(self):
        """Linearised bases inside the analysed modules (single inheritance here)."""
        out = [self]
        for b in self.bases:
            ci = self.modinfo.resolve_class(b)
            if ci is not None:
                for c in ci.mro():
                    if c not in out:
                        out.append(c)
        return out

    def lookup(self, name, start_after=None):
        """Find method/getter `name` along the MRO (optionally after class `start_after`)."""
        mro = self.mro()
        if start_after is not None:
            mro = mro[mro.index(start_after) + 1:]
        for c in mro:
            if name in c.methods:
                return c.methods[name]
        return None

    def lookup_attr(self, name):
        """First definition of `name` along the MRO: ('method', FuncInfo) | ('const', ast) | None."""
        for c in self.mro():
            if name in c.methods:
                return ("method", c.methods[name])
            if name in c.consts:
                return ("const", c.consts[name], c)
        return None

    def lookup_setter(self, name):
        for c in self.mro():
            if name in c.setters:
                return c.setters[name]
        return None

    def lookup_const(self, name):
        for c in self.mro():
            if name in c.consts:
                return c.consts[name]
        return None

    def is_subclass_of(self, other_name: str) -> bool:
        return any(c.name == other_name for c in self.mro())

    def __hash__(self):
        return hash((self.module, self.name))

    def __eq__(self, o):
        return isinstance(o, ClassInfo) and (self.module, self.name) == (o.module, o.name)


def _decorator_name(d: ast.expr) -> str:
    if isinstance(d, ast.Call):
        d = d.func
    parts = []
    while isinstance(d, ast.Attribute):
        parts.append(d.attr)
        d = d.value
    if isinstance(d, ast.Name):
        parts.append(d.id)
    return ".".join(reversed(parts))


class ModuleInfo:
    def __init__(self, modname: str, path: Path):
        self.name = modname
        self.path = path
        self.text = path.read_text()
        self.tree = ast.parse(self.text, filename=str(path))
        self.functions: dict[str, FuncInfo] = {}
        self.classes: dict[str, ClassInfo] = {}
        self.imports: dict[str, tuple] = {}       # local name -> ("module", modname) | ("from", modname, attr)
        self.globals_const: dict[str, ast.expr] = {}
        self._index()

    # ------------------------------------------------------------------
    def _index(self):
        for node in self.tree.body:
            self._index_stmt(node)

    def _absmod(self, level: int, module: str | None) -> str:
        if level == 0:
            return module or ""
        pkg = self.name.split(".")
        # a module (not package) at level 1 refers to its package
        base = pkg[: len(pkg) - level]
        if module:
            base = base + module.split(".")
        return ".".join(base)

    def _index_stmt(self, node):
        if isinstance(node, ast.Import):
            for a in node.names:
                self.imports[a.asname or a.name.split(".")[0]] = ("module", a.name if a.asname else a.name.split(".")[0])
        elif isinstance(node, ast.ImportFrom):
            mod = self._absmod(node.level, node.module)
            for a in node.names:
                self.imports[a.asname or a.name] = ("from", mod, a.name)
        elif isinstance(node, ast.FunctionDef):
            self._index_function(node, prefix="", cls=None, parent=None)
        elif isinstance(node, ast.ClassDef):
            ci = ClassInfo(self.name, node.name, node, [_decorator_name(b) for b in node.bases], modinfo=self)
            self.classes[node.name] = ci
            for sub in node.body:
                if isinstance(sub, ast.FunctionDef):
                    self._index_function(sub, prefix=node.name + ".", cls=ci, parent=None)
                elif isinstance(sub, ast.Assign) and len(sub.targets) == 1 and isinstance(sub.targets[0], ast.Name):
                    ci.consts[sub.targets[0].id] = sub.value
        elif isinstance(node, (ast.Assign, ast.AnnAssign)):
            tgt = node.targets[0] if isinstance(node, ast.Assign) else node.target
            if isinstance(tgt, ast.Name) and node.value is not None:
                self.globals_const[tgt.id] = node.value
        elif isinstance(node, ast.Try):
            for s in node.body:
                self._index_stmt(s)
        elif isinstance(node, ast.If):
            # `if TYPE_CHECKING:` imports are irrelevant
            pass

    def _index_function(self, node, prefix, cls, parent):
        decos = [_decorator_name(d) for d in node.decorator_list]
        kind = "function" if cls is None else "method"
        key_suffix = ""
        if "property" in decos:
            kind = "getter"
        elif any(d.endswith(".setter") for d in decos):
            kind = "setter"
            key_suffix = "@setter"
        elif "classmethod" in decos:
            kind = "classmethod"
        elif "staticmethod" in decos:
            kind = "staticmethod"
        if any(d in ("t.overload", "overload") and cls is None and parent is None and
               _is_typing_overload(node) for d in decos):
            return  # typing overload stubs (body is `...`)
        if cls is not None and _is_typing_overload(node):
            return
        qual = prefix + node.name + key_suffix
        key = f"{self.name}:{qual}"
        fi = FuncInfo(key, self.name, qual, node, cls=cls, kind=kind, decorators=decos, parent=parent)
        self.functions[qual] = fi
        if cls is not None and parent is None:
            if kind == "setter":
                cls.setters[node.name] = fi
            else:
                cls.methods[node.name] = fi
        # inner defs (by name and ordinal in source order)
        counts: dict[str, int] = {}
        inner = [n for n in _walk_inner_defs(node)]
        names = [n.name for n in inner]
        for n in inner:
            k = counts.get(n.name, 0)
            counts[n.name] = k + 1
            suffix = f"#{k}" if names.count(n.name) > 1 else ""
            self._index_inner(n, f"{prefix}{node.name}{key_suffix}.<{n.name}>{suffix}", cls, fi)

    def _index_inner(self, node, qual, cls, parent):
        decos = [_decorator_name(d) for d in node.decorator_list]
        key = f"{self.name}:{qual}"
        fi = FuncInfo(key, self.name, qual, node, cls=cls, kind="function", decorators=decos, parent=parent)
        self.functions[qual] = fi
        node._pyvc_info = fi
        inner = list(_walk_inner_defs(node))
        names = [n.name for n in inner]
        counts: dict[str, int] = {}
        for n in inner:
            k = counts.get(n.name, 0)
            counts[n.name] = k + 1
            suffix = f"#{k}" if names.count(n.name) > 1 else ""
            self._index_inner(n, f"{qual}.<{n.name}>{suffix}", cls, fi)

    # ------------------------------------------------------------------
    def resolve_class(self, name: str):
        """Resolve a class name as written in this module to a ClassInfo (or None if external)."""
        if name in self.classes:
            return self.classes[name]
        if name in self.imports:
            imp = self.imports[name]
            if imp[0] == "from" and imp[1].startswith("droplets"):
                try:
                    return load_module(imp[1]).resolve_class(imp[2])
                except FileNotFoundError:
                    return None
        return None


def _is_typing_overload(node: ast.FunctionDef) -> bool:
    decos = [_decorator_name(d) for d in node.decorator_list]
    if not any(d in ("t.overload", "overload") for d in decos):
        return False
    body = node.body
    return len(body) == 1 and isinstance(body[0], ast.Expr) and isinstance(body[0].value, ast.Constant) \
        and body[0].value.value is Ellipsis


def _walk_inner_defs(fn: ast.FunctionDef):
    """Inner FunctionDefs directly nested in `fn` (not inside deeper defs/classes), source order."""
    out = []

    def visit(n):
        for ch in ast.iter_child_nodes(n):
            if isinstance(ch, ast.FunctionDef):
                out.append(ch)
            elif isinstance(ch, (ast.ClassDef, ast.Lambda)):
                continue
            else:
                visit(ch)
    visit(fn)
    out.sort(key=lambda n: (n.lineno, n.col_offset))
    return out


_MODULES: dict[str, ModuleInfo] = {}


def module_path(modname: str) -> Path:
    if modname == "droplets" or modname.startswith("droplets."):
        rel = Path(*modname.split("."))
        p = SRC_ROOT / rel
        if p.is_dir():
            return p / "__init__.py"
        return p.with_suffix(".py")
    spec = importlib.util.find_spec(modname)
    if spec is None or spec.origin is None:
        raise FileNotFoundError(modname)
    return Path(spec.origin)


def load_module(modname: str) -> ModuleInfo:
    if modname not in _MODULES:
        p = module_path(modname)
        if not p.exists():
            raise FileNotFoundError(f"{modname} -> {p}")
        _MODULES[modname] = ModuleInfo(modname, p)
    return _MODULES[modname]


def get_function(key: str) -> FuncInfo:
    mod, qual = key.split(":")
    mi = load_module(mod)
    if qual not in mi.functions:
        raise KeyError(f"function {key} not found in {mi.path} (restructured source?)")
    return mi.functions[qual]


def get_class(modname: str, name: str) -> ClassInfo:
    return load_module(modname).classes[name]


def list_keys(modname: str):
    return sorted(load_module(modname).functions)


def check_tree_is_imported_tree():
    """The text verified must be the text that runs: with the default root the editable
    install must resolve `droplets` to the same directory."""
    spec = importlib.util.find_spec("droplets")
    got = Path(spec.origin).resolve().parent if spec and spec.origin else None
    want = (SRC_ROOT / "droplets").resolve()
    return got == want, str(got), str(want)
